(* Executable model of one validator's consensus state machine: gemmill/consensus/pbft/state.go
   (handleMsg, handleTimeout, enter*, addVote, defaultSetProposal, addProposalBlockPart,
   defaultDecideProposal, defaultDoPrevote, tryFinalizeCommit, finalizeCommit, updateToState) and
   height_vote_set.go, on top of Model.VoteSet and Model.ValSet.

   Abstractions (each an input computed by the harness with the real code and keys):
   - a block is a token: its header hash, its part-set header, and the verdict of
     state.ValidateBlock on it for the height (fixed within a height);
   - a block part carries the part-set header it was cut from; "the Merkle proof verifies against
     the part set being collected" is "that header equals the collected one";
   - a proposal carries the address whose key verifies its signature (empty = none does);
   - a vote carries its signature-valid bit (Model.VoteSet);
   - the block a proposer creates is named by the environment ([fresh]).
   Application execution always succeeds and leaves the validator set unchanged (the engine's
   application); events and hooks are not modelled.  Every PanicSanity / PanicConsensus / nil
   dereference of the code is a [Panic] outcome.  No proofs in this file. *)
From Coq Require Import List NArith ZArith Bool.
From AnnVerif Require Import Base.Res Base.Bytes Model.VoteSet Model.ValSet.
Import ListNotations.
Open Scope Z_scope.

Record blk := mkBlk { bk_hash : bytes; bk_total : Z; bk_phash : bytes; bk_valid : bool }.
Record prop := mkProp { p_height : Z; p_round : Z; p_polround : Z; p_total : Z; p_phash : bytes }.
(* part set being collected: header and the indices present *)
Record pset := mkPset { ps_total : Z; ps_hash : bytes; ps_have : list Z }.

Record rvs := mkRvs { rv_pre : voteset; rv_cmt : voteset }.
Record hvs := mkHvs { hv_height : Z; hv_vals : list validator; hv_round : Z;
                      hv_sets : list (Z * rvs); hv_peers : list (bytes * list Z) }.

(* signer: last signed height/round/step and what was signed (None for a proposal) *)
Record signer := mkSg { sg_h : Z; sg_r : Z; sg_s : Z; sg_what : option (N * block_id) }.

Record cfg := mkCfg { c_skip_commit : bool }.

Record node := mkNode {
  height : Z; round : Z; step : Z;
  vals : valset;              (* cs.Validators: accum advanced per round *)
  st_vals : valset;           (* state.Validators for this height *)
  proposal : option prop; pblock : option blk; pparts : option pset;
  lround : Z; lblock : option blk;
  votes : hvs; commit_round : Z;
  last_commit : option voteset;
  priv : option bytes;        (* our validator address *)
  sg : signer }.

Inductive out :=
| OVote (type : N) (round : Z) (b : block_id)           (* signed and queued for ourselves *)
| OProposal (round : Z) (polround : Z) (locked : option blk)  (* None: a freshly created block *)
| OProposalMaybe (round : Z)                            (* same height/round/step signed before *)
| OTimeout (h r s : Z)
| OCommit (h : Z) (hash : bytes)
| OErr (code : N).

Definition M := res (node * list out).
Definition ret (n : node) : M := Ok (n, []).
Definition emit (o : out) (n : node) : M := Ok (n, [o]).
Definition bindM (m : M) (f : node -> M) : M :=
  match m with
  | Ok (n, o) => match f n with Ok (n', o') => Ok (n', o ++ o') | Err e => Err e | Panic w => Panic w end
  | Err e => Err e
  | Panic w => Panic w
  end.
Notation "m >>= f" := (bindM m f) (at level 50, left associativity).

(* ---------- field updates ---------- *)
Definition set_step (n : node) (r s : Z) : node :=
  mkNode (height n) r s (vals n) (st_vals n) (proposal n) (pblock n) (pparts n) (lround n) (lblock n)
         (votes n) (commit_round n) (last_commit n) (priv n) (sg n).
Definition set_vals (n : node) (v : valset) : node :=
  mkNode (height n) (round n) (step n) v (st_vals n) (proposal n) (pblock n) (pparts n) (lround n) (lblock n)
         (votes n) (commit_round n) (last_commit n) (priv n) (sg n).
Definition set_prop (n : node) (p : option prop) (b : option blk) (ps : option pset) : node :=
  mkNode (height n) (round n) (step n) (vals n) (st_vals n) p b ps (lround n) (lblock n)
         (votes n) (commit_round n) (last_commit n) (priv n) (sg n).
Definition set_lock (n : node) (r : Z) (b : option blk) : node :=
  mkNode (height n) (round n) (step n) (vals n) (st_vals n) (proposal n) (pblock n) (pparts n) r b
         (votes n) (commit_round n) (last_commit n) (priv n) (sg n).
Definition set_votes (n : node) (h : hvs) : node :=
  mkNode (height n) (round n) (step n) (vals n) (st_vals n) (proposal n) (pblock n) (pparts n) (lround n) (lblock n)
         h (commit_round n) (last_commit n) (priv n) (sg n).
Definition set_commit_round (n : node) (r : Z) : node :=
  mkNode (height n) (round n) (step n) (vals n) (st_vals n) (proposal n) (pblock n) (pparts n) (lround n) (lblock n)
         (votes n) r (last_commit n) (priv n) (sg n).
Definition set_last_commit (n : node) (lc : option voteset) : node :=
  mkNode (height n) (round n) (step n) (vals n) (st_vals n) (proposal n) (pblock n) (pparts n) (lround n) (lblock n)
         (votes n) (commit_round n) lc (priv n) (sg n).
Definition set_sg (n : node) (s : signer) : node :=
  mkNode (height n) (round n) (step n) (vals n) (st_vals n) (proposal n) (pblock n) (pparts n) (lround n) (lblock n)
         (votes n) (commit_round n) (last_commit n) (priv n) s.

(* ---------- helpers on blocks and part sets ---------- *)
Definition hashes_to (b : option blk) (h : bytes) : bool :=
  match h, b with
  | [], _ => false
  | _, None => false
  | _, Some k => bytes_eqb (bk_hash k) h
  end.
Definition has_header (ps : option pset) (total : Z) (h : bytes) : bool :=
  match ps with None => false | Some p => Z.eqb (ps_total p) total && bytes_eqb (ps_hash p) h end.
Definition blk_bid (b : blk) : block_id := mkBid (bk_hash b) (bk_total b) (bk_phash b).
Definition nil_bid : block_id := mkBid [] 0 [].
(* NewPartSetFromHeader: make([]*Part, total) panics on a negative total *)
Definition new_pset (total : Z) (h : bytes) : res pset :=
  if total <? 0 then Panic 31 else Ok (mkPset total h []).
Definition pset_of_blk (b : blk) : pset := mkPset (bk_total b) (bk_phash b) [].

(* ---------- HeightVoteSet ---------- *)
Fixpoint zlookup {A} (k : Z) (l : list (Z * A)) : option A :=
  match l with [] => None | (k', v) :: t => if k' =? k then Some v else zlookup k t end.
Fixpoint zupdate {A} (k : Z) (v : A) (l : list (Z * A)) : list (Z * A) :=
  match l with
  | [] => [(k, v)]
  | (k', v') :: t => if k' =? k then (k, v) :: t else (k', v') :: zupdate k v t
  end.
Definition vals_of (vs : valset) : list validator := map (fun v => (va_addr v, va_power v)) (vl vs).

Definition hv_add_round (h : hvs) (r : Z) : res hvs :=
  match zlookup r (hv_sets h) with
  | Some _ => Panic 32
  | None =>
    match new_voteset (hv_height h) r 1 (hv_vals h), new_voteset (hv_height h) r 2 (hv_vals h) with
    | Ok a, Ok b => Ok (mkHvs (hv_height h) (hv_vals h) (hv_round h) (hv_sets h ++ [(r, mkRvs a b)]) (hv_peers h))
    | Panic w, _ => Panic w
    | _, Panic w => Panic w
    | _, _ => Panic 10
    end
  end.
Definition new_hvs (height : Z) (vals : list validator) : res hvs :=
  hv_add_round (mkHvs height vals 0 [] []) 0.

Fixpoint hv_add_rounds (h : hvs) (from : Z) (count : nat) : res hvs :=
  match count with
  | O => Ok h
  | S c =>
    match zlookup from (hv_sets h) with
    | Some _ => hv_add_rounds h (from + 1) c
    | None => match hv_add_round h from with Ok h' => hv_add_rounds h' (from + 1) c | e => e end
    end
  end.
Definition hv_set_round (h : hvs) (r : Z) : res hvs :=
  if negb (hv_round h =? 0) && (r <? hv_round h + 1) then Panic 33
  else match hv_add_rounds h (hv_round h + 1) (Z.to_nat (r - hv_round h)) with
       | Ok h' => Ok (mkHvs (hv_height h') (hv_vals h') r (hv_sets h') (hv_peers h'))
       | e => e
       end.
Definition hv_prevotes (h : hvs) (r : Z) : option voteset := option_map rv_pre (zlookup r (hv_sets h)).
Definition hv_precommits (h : hvs) (r : Z) : option voteset := option_map rv_cmt (zlookup r (hv_sets h)).
Definition hv_get (h : hvs) (r : Z) (t : N) : option voteset :=
  if N.eqb t 1 then hv_prevotes h r else hv_precommits h r.
Definition hv_put (h : hvs) (r : Z) (t : N) (vs : voteset) : hvs :=
  match zlookup r (hv_sets h) with
  | None => h
  | Some rv =>
    let rv' := if N.eqb t 1 then mkRvs vs (rv_cmt rv) else mkRvs (rv_pre rv) vs in
    mkHvs (hv_height h) (hv_vals h) (hv_round h) (zupdate r rv' (hv_sets h)) (hv_peers h)
  end.
Definition maj23 (o : option voteset) : option block_id := match o with Some vs => vs_maj23 vs | None => None end.
Definition any23 (o : option voteset) : bool := match o with Some vs => has_two_thirds_any vs | None => false end.

(* AddVote: (set, added, error code of VoteSet.AddVote) *)
Definition hv_add_vote (h : hvs) (v : vote) (peer : bytes) : res (hvs * bool * N) :=
  if negb (N.eqb (v_type v) 1 || N.eqb (v_type v) 2) then Ok (h, false, 0%N)
  else
    let go (h1 : hvs) : res (hvs * bool * N) :=
      match hv_get h1 (v_round v) (v_type v) with
      | None => Panic 34
      | Some vs =>
        match add_vote vs v with
        | Ok (vs', added, code) => Ok (hv_put h1 (v_round v) (v_type v) vs', added, code)
        | Err e => Err e
        | Panic w => Panic w
        end
      end in
    match hv_get h (v_round v) (v_type v) with
    | Some _ => go h
    | None =>
      let rndz := match VoteSet.lookup peer (hv_peers h) with Some l => l | None => [] end in
      if Nat.ltb (length rndz) 2 then
        match hv_add_round h (v_round v) with
        | Ok h1 => go (mkHvs (hv_height h1) (hv_vals h1) (hv_round h1) (hv_sets h1)
                             (VoteSet.update peer (rndz ++ [v_round v]) (hv_peers h1)))
        | Err e => Err e
        | Panic w => Panic w
        end
      else Ok (h, false, 0%N)
    end.

(* SetPeerMaj23 (reactor, on a VoteSetMaj23Message) *)
Definition hv_set_peer_maj23 (h : hvs) (r : Z) (t : N) (peer : bytes) (b : block_id) : hvs :=
  if negb (N.eqb t 1 || N.eqb t 2) then h
  else match hv_get h r t with
       | None => h
       | Some vs => hv_put h r t (set_peer_maj23 vs peer b)
       end.

(* POLInfo: the highest round <= hv_round with a +2/3 prevote majority *)
Fixpoint pol_from (h : hvs) (r : Z) (count : nat) : res (Z * block_id) :=
  match count with
  | O => Ok (-1, nil_bid)
  | S c =>
    match hv_prevotes h r with
    | None => Panic 35
    | Some vs => match vs_maj23 vs with
                 | Some b => Ok (r, b)
                 | None => pol_from h (r - 1) c
                 end
    end
  end.
Definition pol_info (h : hvs) : res (Z * block_id) := pol_from h (hv_round h) (Z.to_nat (hv_round h + 1)).

(* ---------- signer (types.PrivValidator.signBytesHRS) ---------- *)
Inductive sign_result := SFresh | SSame | SRefuse | SUnknown.
Definition hrs_lt (h1 r1 s1 h2 r2 s2 : Z) : bool :=
  (h1 <? h2) || ((h1 =? h2) && ((r1 <? r2) || ((r1 =? r2) && (s1 <? s2)))).
Definition what_eqb (a b : N * block_id) : bool := N.eqb (fst a) (fst b) && bid_eqb (snd a) (snd b).
Definition sign_check (s : signer) (h r st : Z) (what : option (N * block_id)) : sign_result :=
  if hrs_lt h r st (sg_h s) (sg_r s) (sg_s s) then SRefuse
  else if (h =? sg_h s) && (r =? sg_r s) && (st =? sg_s s) then
    match what, sg_what s with
    | Some a, Some b => if what_eqb a b then SSame else SRefuse
    | _, _ => SUnknown
    end
  else SFresh.

(* ---------- state functions ---------- *)
Definition is_validator (n : node) : bool :=
  match priv n with
  | None => false
  | Some a => existsb (fun v => bytes_eqb (va_addr v) a) (vl (vals n))
  end.

(* signAddVote *)
Definition sign_add_vote (t : N) (b : block_id) (n : node) : M :=
  if negb (is_validator n) then ret n
  else
    let st := if N.eqb t 1 then 2 else 3 in
    match sign_check (sg n) (height n) (round n) st (Some (t, b)) with
    | SRefuse | SUnknown => ret n
    | SSame => emit (OVote t (round n) b) n
    | SFresh => emit (OVote t (round n) b) (set_sg n (mkSg (height n) (round n) st (Some (t, b))))
    end.

Definition is_proposal_complete (n : node) : res bool :=
  match proposal n, pblock n with
  | Some p, Some _ =>
    if p_polround p <? 0 then Ok true
    else match hv_prevotes (votes n) (p_polround p) with
         | None => Panic 30
         | Some vs => Ok (match vs_maj23 vs with Some _ => true | None => false end)
         end
  | _, _ => Ok false
  end.

Definition pparts_bid (n : node) (b : blk) : block_id :=
  match pparts n with
  | Some ps => mkBid (bk_hash b) (ps_total ps) (ps_hash ps)
  | None => mkBid (bk_hash b) 0 []
  end.

(* defaultDoPrevote *)
Definition do_prevote (n : node) : M :=
  match lblock n with
  | Some b => sign_add_vote 1 (blk_bid b) n
  | None =>
    match pblock n with
    | None => sign_add_vote 1 nil_bid n
    | Some b => if bk_valid b then sign_add_vote 1 (pparts_bid n b) n else sign_add_vote 1 nil_bid n
    end
  end.

Definition enter_prevote (h r : Z) (n : node) : M :=
  if negb (height n =? h) || (r <? round n) || ((round n =? r) && (4 <=? step n)) then ret n
  else do_prevote n >>= (fun n1 => ret (set_step n1 r 4)).

(* defaultDecideProposal *)
Definition decide_proposal (n : node) : M :=
  let can_create :=
    match lblock n with
    | Some _ => true
    | None => (height n =? 1) || (match last_commit n with Some lc => match vs_maj23 lc with Some _ => true | None => false end | None => false end)
    end in
  if negb can_create then ret n
  else
    match pol_info (votes n) with
    | Panic w => Panic w
    | Err e => Err e
    | Ok (polr, _) =>
      match sign_check (sg n) (height n) (round n) 1 None with
      | SRefuse => ret n
      | SSame | SUnknown => emit (OProposalMaybe (round n)) n
      | SFresh => emit (OProposal (round n) polr (lblock n)) (set_sg n (mkSg (height n) (round n) 1 None))
      end
    end.

Definition enter_propose (h r : Z) (n : node) : M :=
  if negb (height n =? h) || (r <? round n) || ((round n =? r) && (3 <=? step n)) then ret n
  else
    (emit (OTimeout h r 3) n >>= (fun n1 =>
       match priv n1 with
       | None => ret n1
       | Some me =>
         match proposer (vals n1) with
         | Panic w => Panic w
         | Err e => Err e
         | Ok (None, _) => Panic 36       (* Proposer() of an empty set is nil *)
         | Ok (Some a, vs') =>
           let n2 := set_vals n1 vs' in
           if bytes_eqb a me then decide_proposal n2 else ret n2
         end
       end))
    >>= (fun n3 =>
       let n4 := set_step n3 r 3 in
       match is_proposal_complete n4 with
       | Panic w => Panic w
       | Err e => Err e
       | Ok true => enter_prevote h (round n4) n4
       | Ok false => ret n4
       end).

Definition enter_new_round (h r : Z) (n : node) : M :=
  if negb (height n =? h) || (r <? round n) || ((round n =? r) && negb (step n =? 1)) then ret n
  else
    match (if round n <? r then increment (vals n) (r - round n) else Ok (vals n)) with
    | Panic w => Panic w
    | Err e => Err e
    | Ok vs =>
      let n1 := set_vals (set_step n r 2) vs in
      let n2 := if r =? 0 then n1 else set_prop n1 None None None in
      match hv_set_round (votes n2) (r + 1) with
      | Panic w => Panic w
      | Err e => Err e
      | Ok hv => enter_propose h r (set_votes n2 hv)
      end
    end.

Definition enter_prevote_wait (h r : Z) (n : node) : M :=
  if negb (height n =? h) || (r <? round n) || ((round n =? r) && (5 <=? step n)) then ret n
  else if negb (any23 (hv_prevotes (votes n) r)) then Panic 37
  else emit (OTimeout h r 5) n >>= (fun n1 => ret (set_step n1 r 5)).

Definition enter_precommit (h r : Z) (n : node) : M :=
  if negb (height n =? h) || (r <? round n) || ((round n =? r) && (6 <=? step n)) then ret n
  else
    (match maj23 (hv_prevotes (votes n) r) with
     | None => sign_add_vote 2 nil_bid n
     | Some b =>
       match pol_info (votes n) with
       | Panic w => Panic w
       | Err e => Err e
       | Ok (polr, _) =>
         if polr <? r then Panic 38
         else
           match b_hash b with
           | [] => sign_add_vote 2 nil_bid (match lblock n with Some _ => set_lock n 0 None | None => n end)
           | _ =>
             if hashes_to (lblock n) (b_hash b) then sign_add_vote 2 b (set_lock n r (lblock n))
             else if hashes_to (pblock n) (b_hash b) then
               match pblock n with
               | Some pb =>
                 if negb (bk_valid pb) then Panic 39
                 else
                   (* the lock remembers the proposal's part set (its header) *)
                   let lb := match pparts n with
                             | Some ps => mkBlk (bk_hash pb) (ps_total ps) (ps_hash ps) (bk_valid pb)
                             | None => pb end in
                   sign_add_vote 2 b (set_lock n r (Some lb))
               | None => Panic 40
               end
             else
               let n1 := set_lock n 0 None in
               if has_header (pparts n1) (b_total b) (b_phash b) then sign_add_vote 2 nil_bid n1
               else match new_pset (b_total b) (b_phash b) with
                    | Ok ps => sign_add_vote 2 nil_bid (set_prop n1 (proposal n1) None (Some ps))
                    | Err e => Err e
                    | Panic w => Panic w
                    end
           end
       end
     end) >>= (fun n2 => ret (set_step n2 r 6)).

Definition enter_precommit_wait (h r : Z) (n : node) : M :=
  if negb (height n =? h) || (r <? round n) || ((round n =? r) && (7 <=? step n)) then ret n
  else if negb (any23 (hv_precommits (votes n) r)) then Panic 41
  else emit (OTimeout h r 7) n >>= (fun n1 => ret (set_step n1 r 7)).

(* finalizeCommit, including updateToState for the next height *)
Definition finalize_commit (c : cfg) (h : Z) (n : node) : M :=
  if negb (height n =? h) || negb (step n =? 8) then ret n
  else
    match maj23 (hv_precommits (votes n) (commit_round n)) with
    | None => Panic 42
    | Some b =>
      if negb (has_header (pparts n) (b_total b) (b_phash b)) then Panic 43
      else if negb (hashes_to (pblock n) (b_hash b)) then Panic 44
      else match pblock n with
           | None => Panic 44
           | Some pb =>
             if negb (bk_valid pb) then Panic 45
             else
               match increment (st_vals n) 1 with
               | Panic w => Panic w
               | Err e => Err e
               | Ok nv =>
                 match new_hvs (h + 1) (vals_of nv) with
                 | Panic w => Panic w
                 | Err e => Err e
                 | Ok hv =>
                   Ok (mkNode (h + 1) 0 1 nv nv None None None 0 None hv (-1)
                              (hv_precommits (votes n) (commit_round n)) (priv n) (sg n),
                       [OCommit h (bk_hash pb); OTimeout (h + 1) 0 1])
                 end
               end
           end
    end.

Definition try_finalize_commit (c : cfg) (h : Z) (n : node) : M :=
  if negb (height n =? h) then Panic 46
  else
    match maj23 (hv_precommits (votes n) (commit_round n)) with
    | None => ret n
    | Some b =>
      match b_hash b with
      | [] => ret n
      | _ => if hashes_to (pblock n) (b_hash b) then finalize_commit c h n else ret n
      end
    end.

Definition enter_commit (c : cfg) (h cr : Z) (n : node) : M :=
  if negb (height n =? h) || (8 <=? step n) then ret n
  else
    match maj23 (hv_precommits (votes n) cr) with
    | None => Panic 47
    | Some b =>
      let n1 := if hashes_to (lblock n) (b_hash b)
                then set_prop n (proposal n) (lblock n) (option_map pset_of_blk (lblock n)) else n in
      let r2 :=
        if hashes_to (pblock n1) (b_hash b) then Ok n1
        else if has_header (pparts n1) (b_total b) (b_phash b) then Ok n1
        else match new_pset (b_total b) (b_phash b) with
             | Ok ps => Ok (set_prop n1 (proposal n1) None (Some ps))
             | Err e => Err e
             | Panic w => Panic w
             end in
      match r2 with
      | Panic w => Panic w
      | Err e => Err e
      | Ok n2 => try_finalize_commit c h (set_commit_round (set_step n2 (round n2) 8) cr)
      end
    end.

(* defaultSetProposal: [signer] is the address whose key verifies the signature *)
Definition set_proposal (p : prop) (signer : bytes) (n : node) : M :=
  match proposal n with
  | Some _ => ret n
  | None =>
    if negb (p_height p =? height n) || negb (p_round p =? round n) then ret n
    else if 8 <=? step n then ret n
    else if negb (p_polround p =? -1) && ((p_polround p <? 0) || (p_round p <=? p_polround p)) then emit (OErr 1) n
    else if (p_total p <? 0) || (22020096 <? p_total p) then emit (OErr 6) n   (* MaxBlockSize *)
    else
      match proposer (vals n) with
      | Panic w => Panic w
      | Err e => Err e
      | Ok (None, _) => Panic 36
      | Ok (Some a, vs') =>
        let n1 := set_vals n vs' in
        if negb (bytes_eqb a signer) then emit (OErr 2) n1
        else match new_pset (p_total p) (p_phash p) with
             | Ok ps => ret (set_prop n1 (Some p) (pblock n1) (Some ps))
             | Err e => Err e
             | Panic w => Panic w
             end
      end
  end.

(* addProposalBlockPart: the part has index [idx] and was cut from a block [b] whose part-set
   header is (bk_total b, bk_phash b); [verify] is false for our own parts *)
Definition add_part (c : cfg) (h : Z) (idx : Z) (b : blk) (decode_ok : bool) (verify : bool) (n : node) : M :=
  if negb (height n =? h) then ret n
  else match pparts n with
  | None => ret n
  | Some ps =>
    if (idx <? 0) || (ps_total ps <=? idx) then emit (OErr 3) n
    else if existsb (Z.eqb idx) (ps_have ps) then ret n
    else if verify && negb (Z.eqb (bk_total b) (ps_total ps) && bytes_eqb (bk_phash b) (ps_hash ps)) then emit (OErr 4) n
    else
      let ps' := mkPset (ps_total ps) (ps_hash ps) (idx :: ps_have ps) in
      let n1 := set_prop n (proposal n) (pblock n) (Some ps') in
      if Z.eqb (Z.of_nat (length (ps_have ps'))) (ps_total ps') then
        let n2 := set_prop n1 (proposal n1) (Some b) (Some ps') in
        (if step n2 =? 3 then
           match is_proposal_complete n2 with
           | Panic w => Panic w
           | Err e => Err e
           | Ok true => enter_prevote h (round n2) n2
           | Ok false => ret n2
           end
         else if step n2 =? 8 then try_finalize_commit c h n2
         else ret n2) >>= (fun n3 => if decode_ok then ret n3 else emit (OErr 5) n3)
      else ret n1
  end.

(* a node that has decided (commit step, maybe still waiting for the block) does not follow later
   rounds: [any23] of an undecided node only, and the move to the next round likewise
   (cs.Step < RoundStepCommit at the three round-skip sites of addVote, after repair F-12a) *)
Definition any23_open (n : node) (o : option voteset) : bool := (step n <? 8) && any23 o.
Definition enter_new_round_open (h r : Z) (n : node) : M :=
  if step n <? 8 then enter_new_round h r n else ret n.

(* addVote; error codes: 10 height mismatch, otherwise 20 + VoteSet's code *)
Definition add_vote_cs (c : cfg) (v : vote) (peer : bytes) (n : node) : M :=
  if v_height v + 1 =? height n then
    if negb ((step n =? 1) && N.eqb (v_type v) 2) then emit (OErr 10) n
    else match last_commit n with
    | None => emit (OErr 10) n   (* the first height has no previous commit *)
    | Some lc =>
      match add_vote lc v with
      | Panic w => Panic w
      | Err e => Err e
      | Ok (lc', added, code) =>
        let n1 := set_last_commit n (Some lc') in
        (if added && c_skip_commit c && has_all lc' then enter_new_round (height n1) 0 n1 else ret n1)
        >>= (fun n2 => if N.eqb code 0 then ret n2 else emit (OErr (20 + code)) n2)
      end
    end
  else if v_height v =? height n then
    let h := height n in
    match hv_add_vote (votes n) v peer with
    | Panic w => Panic w
    | Err e => Err e
    | Ok (hv, added, code) =>
      let n1 := set_votes n hv in
      (if negb added then ret n1
       else if N.eqb (v_type v) 1 then
         let prevotes := hv_prevotes (votes n1) (v_round v) in
         let n2 :=
           match lblock n1 with
           | Some lb =>
             if (lround n1 <? v_round v) && (v_round v <=? round n1) then
               match maj23 prevotes with
               | Some b => if negb (hashes_to (lblock n1) (b_hash b)) then set_lock n1 0 None else n1
               | None => n1
               end
             else n1
           | None => n1
           end in
         if (round n2 <=? v_round v) && any23_open n2 prevotes then
           enter_new_round h (v_round v) n2 >>= (fun n3 =>
             match maj23 (hv_prevotes (votes n3) (v_round v)) with
             | Some _ => enter_precommit h (v_round v) n3
             | None => enter_prevote h (v_round v) n3 >>= enter_prevote_wait h (v_round v)
             end)
         else
           match proposal n2 with
           | Some p =>
             if (0 <=? p_polround p) && (p_polround p =? v_round v) then
               match is_proposal_complete n2 with
               | Panic w => Panic w
               | Err e => Err e
               | Ok true => enter_prevote h (round n2) n2
               | Ok false => ret n2
               end
             else ret n2
           | None => ret n2
           end
       else if N.eqb (v_type v) 2 then
         let precommits := hv_precommits (votes n1) (v_round v) in
         match maj23 precommits with
         | Some b =>
           match b_hash b with
           | [] => enter_new_round_open h (v_round v + 1) n1
           | _ =>
             enter_new_round h (v_round v) n1 >>= enter_precommit h (v_round v) >>= enter_commit c h (v_round v)
             >>= (fun n4 =>
                    if c_skip_commit c && (match hv_precommits (votes n1) (v_round v) with Some vs => has_all vs | None => false end)
                    then enter_new_round (height n4) 0 n4 else ret n4)
           end
         | None =>
           if (round n1 <=? v_round v) && any23_open n1 precommits then
             enter_new_round h (v_round v) n1 >>= enter_precommit h (v_round v) >>= enter_precommit_wait h (v_round v)
           else ret n1
         end
       else Panic 49)
      >>= (fun n5 => if N.eqb code 0 then ret n5 else emit (OErr (20 + code)) n5)
    end
  else emit (OErr 10) n.

(* ---------- inputs ---------- *)
Inductive input :=
| IProposal (p : prop) (signer : bytes) (peer : bytes)
| IPart (h r idx : Z) (b : blk) (decode_ok : bool) (peer : bytes)
| IVote (v : vote) (peer : bytes)
| ITimeout (h r s : Z).

Definition handle_timeout (h r s : Z) (n : node) : M :=
  if negb (h =? height n) || (r <? round n) || ((r =? round n) && (s <? step n)) then ret n
  else if s =? 1 then enter_new_round h 0 n
  else if s =? 3 then enter_prevote h r n
  else if s =? 5 then enter_precommit h r n
  else if s =? 7 then enter_new_round h (r + 1) n
  else Panic 50.

Definition handle (c : cfg) (i : input) (n : node) : M :=
  match i with
  | IProposal p signer _ => set_proposal p signer n
  | IPart h r idx b ok peer => add_part c h idx b ok (negb (match peer with [] => true | _ => false end)) n
  | IVote v peer => add_vote_cs c v peer n
  | ITimeout h r s => handle_timeout h r s n
  end.

(* a fresh node at the start of a height (NewConsensusState / updateToState / restart) *)
Definition init_node (h : Z) (vs : valset) (lc : option voteset) (me : option bytes) (s : signer) : res node :=
  match new_hvs h (vals_of vs) with
  | Ok hv => Ok (mkNode h 0 1 vs vs None None None 0 None hv (-1) lc me s)
  | Err e => Err e
  | Panic w => Panic w
  end.
