(* Executable model of gemmill/types/vote_set.go (VoteSet, blockVotes, MakeCommit) and of
   ValidatorSet.VerifyCommit / Commit.Height/Round (validator_set.go, block.go).
   Signature verification is an input bit of each vote ([v_sigok]: "the signature verifies, for
   this set's chain id, under the key of the validator the code checks it against"); the harness
   computes the bit with the real keys.  No proofs in this file. *)
From Coq Require Import List NArith ZArith Bool.
From AnnVerif Require Import Base.Res Base.Bytes.
Import ListNotations.
Open Scope Z_scope.

Record block_id := mkBid { b_hash : bytes; b_total : Z; b_phash : bytes }.

(* BlockID.Equals: bytes.Equal on both hashes (nil = empty) and equal totals *)
Definition bid_eqb (a b : block_id) : bool :=
  bytes_eqb (b_hash a) (b_hash b) && Z.eqb (b_total a) (b_total b) && bytes_eqb (b_phash a) (b_phash b).

(* BlockID.Key(): length-prefixed encoding of the whole BlockID (after the fix: commit in /repo;
   the original string(Hash) + BinaryBytes(PartsHeader) was not injective, DESIGN F-15a) *)
Definition bid_key (b : block_id) : bytes :=
  enc_bs (b_hash b) ++ enc_varint (b_total b) ++ enc_bs (b_phash b).

Definition bid_is_zero (b : block_id) : bool :=
  match b_hash b with [] => Z.eqb (b_total b) 0 | _ => false end.

Record vote := mkVote {
  v_addr : bytes; v_index : Z; v_height : Z; v_round : Z; v_type : N;
  v_bid : block_id; v_sig : bytes; v_sigok : bool }.

Definition validator := (bytes * Z)%type.   (* address, voting power *)

Record blockvotes := mkBV { bv_peer : bool; bv_votes : list (option vote); bv_sum : Z }.

Record voteset := mkVS {
  vs_height : Z; vs_round : Z; vs_type : N;
  vs_vals : list validator;
  vs_votes : list (option vote);
  vs_sum : Z;
  vs_maj23 : option block_id;
  vs_byblock : list (bytes * blockvotes);
  vs_peers : list (bytes * block_id) }.

Fixpoint set_nth {A} (l : list A) (i : nat) (x : A) : list A :=
  match l, i with
  | [], _ => []
  | _ :: t, O => x :: t
  | h :: t, S i' => h :: set_nth t i' x
  end.

Definition total_power (vals : list validator) : Z :=
  fold_left (fun acc v => wrap64 (acc + snd v)) vals 0.

(* TotalVotingPower()*2/3 in int64 arithmetic (Go's / truncates toward zero) *)
Definition two_thirds (vals : list validator) : Z := Z.quot (wrap64 (total_power vals * 2)) 3.
Definition quorum (vals : list validator) : Z := wrap64 (two_thirds vals + 1).

Definition new_voteset (h r : Z) (t : N) (vals : list validator) : res voteset :=
  if h =? 0 then Panic 10
  else Ok (mkVS h r t vals (repeat None (length vals)) 0 None [] []).

Fixpoint lookup {A} (k : bytes) (l : list (bytes * A)) : option A :=
  match l with
  | [] => None
  | (k', v) :: t => if bytes_eqb k' k then Some v else lookup k t
  end.
Fixpoint update {A} (k : bytes) (v : A) (l : list (bytes * A)) : list (bytes * A) :=
  match l with
  | [] => [(k, v)]
  | (k', v') :: t => if bytes_eqb k' k then (k, v) :: t else (k', v') :: update k v t
  end.

Definition nth_vote (l : list (option vote)) (i : nat) : option vote := nth i l None.

(* getVote *)
Definition get_vote (vs : voteset) (i : nat) (key : bytes) : option vote :=
  match nth_vote (vs_votes vs) i with
  | Some ex => if bytes_eqb (bid_key (v_bid ex)) key then Some ex
               else match lookup key (vs_byblock vs) with
                    | Some bv => nth_vote (bv_votes bv) i
                    | None => None
                    end
  | None => match lookup key (vs_byblock vs) with
            | Some bv => nth_vote (bv_votes bv) i
            | None => None
            end
  end.

(* blockVotes.addVerifiedVote *)
Definition bv_add (bv : blockvotes) (i : nat) (v : vote) (pow : Z) : blockvotes :=
  match nth_vote (bv_votes bv) i with
  | None => mkBV (bv_peer bv) (set_nth (bv_votes bv) i (Some v)) (wrap64 (bv_sum bv + pow))
  | Some _ => bv
  end.

(* copy the non-nil votes of a block's vote list over the primary list *)
Fixpoint overlay (base over : list (option vote)) : list (option vote) :=
  match base, over with
  | b :: bt, o :: ot => (match o with Some v => Some v | None => b end) :: overlay bt ot
  | _, _ => base
  end.

(* addVerifiedVote: returns new state, added, conflicting *)
Definition add_verified (vs : voteset) (v : vote) (i : nat) (key : bytes) (pow : Z)
  : res (voteset * bool * option vote) :=
  let existing := nth_vote (vs_votes vs) i in
  match (match existing with
         | Some ex =>
           if bid_eqb (v_bid ex) (v_bid v) then Panic 11
           else Ok (Some ex,
                    match vs_maj23 vs with
                    | Some m => if bytes_eqb (bid_key m) key then set_nth (vs_votes vs) i (Some v) else vs_votes vs
                    | None => vs_votes vs
                    end,
                    vs_sum vs)
         | None => Ok (None, set_nth (vs_votes vs) i (Some v), wrap64 (vs_sum vs + pow))
         end) with
  | Panic w => Panic w
  | Err e => Err e
  | Ok (conflicting, votes1, sum1) =>
    let vs1 := mkVS (vs_height vs) (vs_round vs) (vs_type vs) (vs_vals vs) votes1 sum1
                    (vs_maj23 vs) (vs_byblock vs) (vs_peers vs) in
    let obv :=
      match lookup key (vs_byblock vs) with
      | Some bv =>
        match conflicting with
        | Some _ => if bv_peer bv then Some bv else None
        | None => Some bv
        end
      | None =>
        match conflicting with
        | Some _ => None
        | None => Some (mkBV false (repeat None (length (vs_vals vs))) 0)
        end
      end in
    match obv with
    | None => Ok (vs1, false, conflicting)
    | Some bv =>
      let orig := bv_sum bv in
      let q := quorum (vs_vals vs) in
      let bv' := bv_add bv i v pow in
      let crossed := (orig <? q) && (q <=? bv_sum bv') in
      let '(maj, votes2) :=
        if crossed then
          match vs_maj23 vs with
          | None => (Some (v_bid v), overlay votes1 (bv_votes bv'))
          | Some m => (Some m, votes1)
          end
        else (vs_maj23 vs, votes1) in
      Ok (mkVS (vs_height vs) (vs_round vs) (vs_type vs) (vs_vals vs) votes2 sum1 maj
               (update key bv' (vs_byblock vs)) (vs_peers vs), true, conflicting)
    end
  end.

(* error codes: 0 none, 1 unexpected step, 2 invalid index, 3 invalid address,
   4 invalid signature, 5 conflicting votes *)
Definition add_vote (vs : voteset) (v : vote) : res (voteset * bool * N) :=
  if v_index v <? 0 then Ok (vs, false, 2%N)
  else match v_addr v with
  | [] => Ok (vs, false, 3%N)
  | _ =>
    if negb ((v_height v =? vs_height vs) && (v_round v =? vs_round vs) && N.eqb (v_type v) (vs_type vs))
    then Ok (vs, false, 1%N)
    else if Z.of_nat (length (vs_vals vs)) <=? v_index v then Ok (vs, false, 2%N)   (* index beyond the set *)
    else
      let i := Z.to_nat (v_index v) in
      match nth_error (vs_vals vs) i with
      | None => Ok (vs, false, 2%N)
      | Some (addr, pow) =>
        if negb (bytes_eqb (v_addr v) addr) then Ok (vs, false, 3%N)
        else
          let key := bid_key (v_bid v) in
          match get_vote vs i key with
          | Some ex => if bytes_eqb (v_sig ex) (v_sig v) then Ok (vs, false, 0%N) else Ok (vs, false, 4%N)
          | None =>
            if negb (v_sigok v) then Ok (vs, false, 4%N)
            else
              match add_verified vs v i key pow with
              | Panic w => Panic w
              | Err e => Err e
              | Ok (vs', added, Some _) => Ok (vs', added, 5%N)
              | Ok (vs', added, None) => if added then Ok (vs', true, 0%N) else Panic 12
              end
          end
      end
  end.

(* SetPeerMaj23 *)
Definition set_peer_maj23 (vs : voteset) (peer : bytes) (b : block_id) : voteset :=
  match lookup peer (vs_peers vs) with
  | Some _ => vs
  | None =>
    let peers := vs_peers vs ++ [(peer, b)] in
    let key := bid_key b in
    let byb :=
      match lookup key (vs_byblock vs) with
      | Some bv => if bv_peer bv then vs_byblock vs
                   else update key (mkBV true (bv_votes bv) (bv_sum bv)) (vs_byblock vs)
      | None => update key (mkBV true (repeat None (length (vs_vals vs))) 0) (vs_byblock vs)
      end in
    mkVS (vs_height vs) (vs_round vs) (vs_type vs) (vs_vals vs) (vs_votes vs) (vs_sum vs)
         (vs_maj23 vs) byb peers
  end.

Definition has_two_thirds_any (vs : voteset) : bool := two_thirds (vs_vals vs) <? vs_sum vs.
Definition has_all (vs : voteset) : bool := vs_sum vs =? total_power (vs_vals vs).
Definition bits (l : list (option vote)) : list bool := map (fun o => match o with Some _ => true | None => false end) l.
Definition bits_by_block (vs : voteset) (b : block_id) : option (list bool) :=
  match lookup (bid_key b) (vs_byblock vs) with Some bv => Some (bits (bv_votes bv)) | None => None end.

(* ---- commits ---- *)
Record commit := mkCommit { c_bid : block_id; c_pre : list (option vote) }.

Definition make_commit (vs : voteset) : res commit :=
  if negb (N.eqb (vs_type vs) 2) then Panic 13
  else match vs_maj23 vs with
       | None => Panic 14
       | Some b => Ok (mkCommit b (vs_votes vs))
       end.

Fixpoint first_precommit (l : list (option vote)) : option vote :=
  match l with [] => None | Some v :: _ => Some v | None :: t => first_precommit t end.
Definition commit_height (c : commit) : Z := match first_precommit (c_pre c) with Some v => v_height v | None => 0 end.
Definition commit_round (c : commit) : Z := match first_precommit (c_pre c) with Some v => v_round v | None => 0 end.

(* the loop of VerifyCommit: error code or tallied power *)
Fixpoint tally (vals : list validator) (pre : list (option vote)) (b : block_id) (height round : Z) (acc : Z) : res Z :=
  match vals, pre with
  | (_, pow) :: vt, p :: pt =>
    match p with
    | None => tally vt pt b height round acc
    | Some v =>
      if negb (v_height v =? height) then Err 2
      else if negb (v_round v =? round) then Err 3
      else if negb (N.eqb (v_type v) 2) then Err 4
      else if negb (v_sigok v) then Err 5
      else if negb (bid_eqb b (v_bid v)) then tally vt pt b height round acc
      else tally vt pt b height round (wrap64 (acc + pow))
    end
  | _, _ => Ok acc
  end.

(* VerifyCommit: Ok tt, or Err code (1 size, 2 height, 3 round, 4 type, 5 signature, 6 power) *)
Definition verify_commit (vals : list validator) (b : block_id) (height : Z) (c : commit) : res unit :=
  if negb (Nat.eqb (length vals) (length (c_pre c))) then Err 1
  else if negb (height =? commit_height c) then Err 2
  else match tally vals (c_pre c) b height (commit_round c) 0 with
       | Ok p => if two_thirds vals <? p then Ok tt else Err 6
       | Err e => Err e
       | Panic w => Panic w
       end.
