(* Executable model of fast sync (gemmill/blockchain/reactor.go poolRoutine SYNC_LOOP, pool.go
   AddBlock / PeekTwoBlocks / PopRequest / RedoRequests / removePeer) on top of the C15 model of
   ValidatorSet.VerifyCommit.  A block is its identity (hash and parts header of the bytes
   received), its height and the last commit it carries.  The pool holds at most one block per
   height, with the peer it came from.  No proofs in this file. *)
From Coq Require Import List NArith ZArith Bool.
From AnnVerif Require Import Base.Res Base.Bytes Model.VoteSet.
Import ListNotations.
Open Scope Z_scope.

Record sblock := mkSB { sb_id : block_id; sb_height : Z; sb_last : commit }.

Record sync := mkSync {
  s_height : Z;                          (* pool.height: the next block to apply *)
  s_vals : list validator;               (* the validator set in force *)
  s_store : list sblock;                 (* applied blocks, newest first *)
  s_pool : list (Z * (N * sblock))       (* height -> (peer, block) *)
}.

Fixpoint pool_get (p : list (Z * (N * sblock))) (h : Z) : option (N * sblock) :=
  match p with
  | [] => None
  | (k, x) :: t => if k =? h then Some x else pool_get t h
  end.
Definition pool_del (p : list (Z * (N * sblock))) (h : Z) := filter (fun e => negb (fst e =? h)) p.
Definition pool_drop_peer (p : list (Z * (N * sblock))) (peer : N) := filter (fun e => negb (N.eqb (fst (snd e)) peer)) p.

Inductive sev :=
| EResp (peer : N) (b : sblock)    (* bcBlockResponseMessage: AddBlock *)
| ERemove (peer : N)               (* timeout, disconnect *)
| ETick.                           (* one iteration of the SYNC_LOOP *)

Definition sync_step (s : sync) (e : sev) : sync :=
  match e with
  | EResp peer b =>
    (* a block is taken only for a height still wanted and not yet filled *)
    if (sb_height b <? s_height s) then s
    else match pool_get (s_pool s) (sb_height b) with
         | Some _ => s
         | None => mkSync (s_height s) (s_vals s) (s_store s) ((sb_height b, (peer, b)) :: s_pool s)
         end
  | ERemove peer => mkSync (s_height s) (s_vals s) (s_store s) (pool_drop_peer (s_pool s) peer)
  | ETick =>
    match pool_get (s_pool s) (s_height s), pool_get (s_pool s) (s_height s + 1) with
    | Some (p1, first), Some (p2, second) =>
      match verify_commit (s_vals s) (sb_id first) (s_height s) (sb_last second) with
      | Ok _ => mkSync (s_height s + 1) (s_vals s) (first :: s_store s) (pool_del (s_pool s) (s_height s))
      | _ => mkSync (s_height s) (s_vals s) (s_store s) (pool_drop_peer (pool_drop_peer (s_pool s) p1) p2)
      end
    | _, _ => s
    end
  end.
Definition sync_run (s : sync) (es : list sev) : sync := fold_left sync_step es s.
Definition sync0 (vals : list validator) : sync := mkSync 1 vals [] [].

(* The loop as the code runs it: the commit check of the first block and its removal from the pool
   are two steps of the reactor's routine, and the pool lock is not held in between - responses
   arrive and peers are removed meanwhile (removePeer empties the requester of the height being
   checked, which may then be filled by another peer's block).  What is executed at the pop is
   the block that was checked, whatever the pool holds by then. *)
Record sync2 := mkS2 { s2_s : sync; s2_checked : option sblock }.
Inductive sev2 := E2Resp (peer : N) (b : sblock) | E2Remove (peer : N) | E2Check | E2Pop.
Definition sync2_step (t : sync2) (e : sev2) : sync2 :=
  let s := s2_s t in
  match e with
  | E2Resp p b => mkS2 (sync_step s (EResp p b)) (s2_checked t)
  | E2Remove p => mkS2 (sync_step s (ERemove p)) (s2_checked t)
  | E2Check =>
    match s2_checked t with
    | Some _ => t                      (* the routine is sequential: a successful check is followed by its pop *)
    | None =>
      match pool_get (s_pool s) (s_height s), pool_get (s_pool s) (s_height s + 1) with
      | Some (p1, first), Some (p2, second) =>
        match verify_commit (s_vals s) (sb_id first) (s_height s) (sb_last second) with
        | Ok _ => mkS2 s (Some first)
        | _ => mkS2 (mkSync (s_height s) (s_vals s) (s_store s) (pool_drop_peer (pool_drop_peer (s_pool s) p1) p2)) None
        end
      | _, _ => t
      end
    end
  | E2Pop =>
    match s2_checked t with
    | None => t
    | Some first => mkS2 (mkSync (s_height s + 1) (s_vals s) (first :: s_store s) (pool_del (s_pool s) (s_height s))) None
    end
  end.
Definition sync2_run (t : sync2) (es : list sev2) : sync2 := fold_left sync2_step es t.
Definition sync2_0 (vals : list validator) : sync2 := mkS2 (sync0 vals) None.
