(* Block validation: ConsensusState.ValidateBlock (gemmill/consensus/pbft/state.go) with
   Block.ValidateBasic, Block.ValidateCommit and Commit.ValidateBasic (gemmill/types/block.go), on
   top of VerifyCommit (Model/VoteSet.v).  The three hash functions (Data.Hash, Commit.Hash,
   ValidatorSet.Hash) are not modelled: a block carries, next to each part, the hash the real
   function returns for it, and the state carries the hash of its validator set.  Error codes:
   1 part missing, 2 chain id, 3 height, 4 tx count, 5 last block id, 6 data hash, 7 app hash,
   8 receipts hash, 9 last-commit hash, 10 commit for nil block, 11 no precommits, 12 precommit
   type, 13 precommit height, 14 precommit round, 15 validators hash, 16 proposer, 17 first block
   with precommits, 18 commit size, 20 + VerifyCommit's code. *)
From Coq Require Import List NArith ZArith Bool.
From AnnVerif Require Import Base.Res Base.Bytes Model.VoteSet.
Import ListNotations.
Open Scope Z_scope.

Record header := mkHeader {
  hd_chain : bytes; hd_height : Z; hd_numtxs : Z; hd_last : block_id;
  hd_lchash : bytes; hd_datahash : bytes; hd_valhash : bytes; hd_apphash : bytes; hd_rcphash : bytes;
  hd_proposer : bytes }.
Record block := mkBlock {
  bl_header : option header;
  bl_data : option (Z * bytes);        (* number of txs + extxs, and Data.Hash() *)
  bl_lc : option (commit * bytes) }.   (* LastCommit and LastCommit.Hash() *)
Record vstate := mkVState {
  s_chain : bytes; s_height : Z; s_last : block_id; s_app : bytes; s_rcp : bytes;
  s_vals : list validator; s_valhash : bytes; s_lastvals : list validator }.

Definition bid_is_zero (b : block_id) : bool := match b_hash b with [] => b_total b =? 0 | _ => false end.

(* Commit.ValidateBasic *)
Fixpoint precommits_basic (l : list (option vote)) (height round : Z) : N :=
  match l with
  | [] => 0%N
  | None :: t => precommits_basic t height round
  | Some v :: t =>
    if negb (N.eqb (v_type v) 2) then 12%N
    else if negb (v_height v =? height) then 13%N
    else if negb (v_round v =? round) then 14%N
    else precommits_basic t height round
  end.
Definition commit_basic (c : commit) : N :=
  if bid_is_zero (c_bid c) then 10%N
  else match c_pre c with
       | [] => 11%N
       | _ => precommits_basic (c_pre c) (commit_height c) (commit_round c)
       end.

Definition vcode (r : res unit) : N := match r with Ok _ => 0%N | Err e => (20 + N.of_nat e)%N | Panic w => (100 + N.of_nat w)%N end.

Definition validate (st : vstate) (b : block) : N :=
  match bl_header b, bl_data b, bl_lc b with
  | Some hd, Some (ntx, dhash), Some (lc, lchash) =>
    if negb (bytes_eqb (hd_chain hd) (s_chain st)) then 2%N
    else if negb (hd_height hd =? s_height st + 1) then 3%N
    else if negb (hd_numtxs hd =? ntx) then 4%N
    else if negb (bid_eqb (hd_last hd) (s_last st)) then 5%N
    else if negb (bytes_eqb (hd_datahash hd) dhash) then 6%N
    else if negb (bytes_eqb (hd_apphash hd) (s_app st)) then 7%N
    else if negb (bytes_eqb (hd_rcphash hd) (s_rcp st)) then 8%N
    else if negb (bytes_eqb (hd_lchash hd) lchash) then 9%N
    else
      let cb := if hd_height hd =? 1 then 0%N else commit_basic lc in
      if negb (N.eqb cb 0) then cb
      else if negb (bytes_eqb (hd_valhash hd) (s_valhash st)) then 15%N
      else if negb (existsb (fun v => bytes_eqb (fst v) (hd_proposer hd)) (s_vals st)) then 16%N
      else if hd_height hd =? 1 then
        match c_pre lc with [] => 0%N | _ => 17%N end
      else if negb (Nat.eqb (length (c_pre lc)) (length (s_lastvals st))) then 18%N
      else vcode (verify_commit (s_lastvals st) (s_last st) (hd_height hd - 1) lc)
  | _, _, _ => 1%N
  end.

(* the state after a block has been applied: height and last block id move, the application
   reports new hashes, the validator sets shift *)
Definition advance (st : vstate) (hd : header) (id : block_id) (app rcp : bytes) (nvals : list validator) (nvalhash : bytes) : vstate :=
  mkVState (s_chain st) (hd_height hd) id app rcp nvals nvalhash (s_vals st).

(* a chain being built: each entry is a block with what applying it yields *)
Record applied := mkApplied { ap_block : block; ap_id : block_id; ap_app : bytes; ap_rcp : bytes;
                              ap_vals : list validator; ap_valhash : bytes }.
Fixpoint run_chain (st : vstate) (l : list applied) : option vstate :=
  match l with
  | [] => Some st
  | a :: t =>
    if N.eqb (validate st (ap_block a)) 0 then
      match bl_header (ap_block a) with
      | Some hd => run_chain (advance st hd (ap_id a) (ap_app a) (ap_rcp a) (ap_vals a) (ap_valhash a)) t
      | None => None
      end
    else None
  end.
