(* Executable model of gemmill/plugin/admin_op.go: CheckMajor23 (after the F-14a repair),
   ExecTX / ProcessAdminOP, the pending change list and EndBlock / updateValidators (after the
   F-14c repair), together with the per-block flow of state.ExecBlock (copy, EndBlock,
   IncrementAccum(1)).  Signature checks are input bits computed by the harness with the real
   keys; a public key is identified with the validator address derived from it.  No proofs here. *)
From Coq Require Import List NArith ZArith Bool.
From AnnVerif Require Import Base.Res Base.Bytes Model.ValSet.
Import ListNotations.
Open Scope Z_scope.

Inductive vcmd := CAdd | CUpdate | CRemove | COther.

Record vattr := mkAttr {
  at_pub : bytes;      (* node public key *)
  at_paddr : bytes;    (* validator address derived from it *)
  at_power : Z;
  at_cmd : vcmd;
  at_from : bytes;     (* ValidatorAttr.Addr: the account that must submit the request *)
  at_nonce : Z }.      (* uint64 *)

Record siginfo := mkSig { si_addr : bytes; si_ok : bool }.

Record admincmd := mkCmd {
  ac_type_ok : bool;       (* CmdType == "changeValidator" *)
  ac_parse_ok : bool;      (* Msg parses as a ValidatorAttr *)
  ac_attr : vattr;
  ac_selfsign_ok : bool;   (* SelfSign verifies under the node key, over Msg *)
  ac_sigs : list siginfo }.

Record adminst := mkAdmin { ad_vals : valset; ad_changed : list vattr }.

(* GetByAddress on the sorted list *)
Definition get_by_address (vs : valset) (a : bytes) : option val16 :=
  match nth_error (vl vs) (search (vl vs) a 0) with
  | Some v => if bytes_eqb (va_addr v) a then Some v else None
  | None => None
  end.

Fixpoint mem_addr (a : bytes) (l : list bytes) : bool :=
  match l with [] => false | x :: t => bytes_eqb x a || mem_addr a t end.

(* the loop of CheckMajor23: tallied power and the addresses already counted *)
Fixpoint tally_sigs (vs : valset) (sigs : list siginfo) (counted : list bytes) (acc : Z) : Z :=
  match sigs with
  | [] => acc
  | s :: t =>
    match get_by_address vs (si_addr s) with
    | Some v =>
      if 0 <? va_power v then
        if mem_addr (va_addr v) counted then tally_sigs vs t counted acc
        else if si_ok s then tally_sigs vs t (va_addr v :: counted) (wrap64 (acc + va_power v))
        else tally_sigs vs t counted acc
      else tally_sigs vs t counted acc
    | None => tally_sigs vs t counted acc
    end
  end.

(* CheckMajor23: result and the set with its total-power cache filled *)
Definition check_major23 (vs : valset) (sigs : list siginfo) : bool * valset :=
  let m := tally_sigs vs sigs [] 0 in
  let '(t, vs') := total_vp vs in
  (Z.quot (wrap64 (t * 2)) 3 <? m, vs').

Definition u64 (z : Z) : Z := z mod 18446744073709551616.

(* ExecTX: error code (0 = nil) and new state.
   1 under-signed, 2 unsupported admin operation, 3 parse error, 4 wrong sender, 5 wrong nonce,
   6 self-signature, 7 update of a non-member, 8 unsupported validator command *)
Definition exec_tx (st : adminst) (c : admincmd) (from : bytes) (nonce : Z) : adminst * N :=
  let '(ok, vs1) := check_major23 (ad_vals st) (ac_sigs c) in
  let st1 := mkAdmin vs1 (ad_changed st) in
  if negb ok then (st1, 1%N)
  else if negb (ac_type_ok c) then (st1, 2%N)
  else if negb (ac_parse_ok c) then (st1, 3%N)
  else
    let a := ac_attr c in
    if negb (bytes_eqb from (at_from a)) then (st1, 4%N)
    else if negb (u64 (at_nonce a + 1) =? nonce) then (st1, 5%N)
    else
      let member := get_by_address vs1 (at_paddr a) in
      match at_cmd a with
      | CAdd =>
        if negb (ac_selfsign_ok c) then (st1, 6%N)
        else match member with
             | Some _ => (st1, 0%N)
             | None => (mkAdmin vs1 (ad_changed st ++ [a]), 0%N)
             end
      | CUpdate =>
        match member with
        | None => (st1, 7%N)
        | Some v => if va_power v =? at_power a then (st1, 0%N)
                    else (mkAdmin vs1 (ad_changed st ++ [a]), 0%N)
        end
      | CRemove =>
        match member with
        | None => (st1, 0%N)
        | Some _ => (mkAdmin vs1 (ad_changed st ++ [a]), 0%N)
        end
      | COther => (st1, 8%N)
      end.

(* updateValidators on the next set *)
Fixpoint update_validators (next : valset) (changed : list vattr) : res valset :=
  match changed with
  | [] => Ok next
  | a :: t =>
    match at_cmd a with
    | CAdd | CUpdate =>
      match get_by_address next (at_paddr a) with
      | None =>
        let '(n1, added) := add next (mkVal (at_paddr a) (at_pub a) (at_power a) 0 (0 <? at_power a)) in
        if added then update_validators n1 t else Err 1
      | Some v =>
        if negb (va_power v =? at_power a) then
          let '(n1, upd) := update next (mkVal (va_addr v) (va_pub v) (at_power a) (va_accum v) (0 <? at_power a)) in
          if upd then update_validators n1 t else Err 2
        else update_validators next t
      end
    | CRemove =>
      let '(n1, _) := remove next (at_paddr a) in update_validators n1 t
    | COther => update_validators next t
    end
  end.

(* one block: state.ExecBlock copies the set, the plugin's EndBlock applies the pending changes
   to the copy, the copy becomes the plugin's current set, and the state increments it once *)
Definition end_block (st : adminst) : res adminst :=
  match update_validators (ad_vals st) (ad_changed st) with
  | Ok next =>
    match increment next 1 with
    | Ok next' => Ok (mkAdmin next' [])
    | Err e => Err e
    | Panic w => Panic w
    end
  | Err e => Err e
  | Panic w => Panic w
  end.
