(* Executable model of gemmill/types/part_set.go: NewPartSetFromData, NewPartSetFromHeader,
   AddPart, IsComplete, GetReader (read to EOF).  No proofs in this file. *)
From Coq Require Import List NArith ZArith Bool.
From AnnVerif Require Import Base.Res Base.Bytes Model.Merkle.
Import ListNotations.

Record part := mkPart { p_index : Z; p_bytes : bytes; p_aunts : list bytes }.
Record partset := mkPS { ps_total : Z; ps_hash : bytes; ps_parts : list (option part); ps_count : Z }.

Inductive add_out := Added | Dup | BadIndex | BadProof.

(* data[i*p : min(len, (i+1)*p)] for i = 0 .. total-1 *)
Fixpoint chunks_f (fuel : nat) (psize : nat) (data : bytes) : list bytes :=
  match fuel with
  | O => []
  | S f => match data with
           | [] => []
           | _ => firstn psize data :: chunks_f f psize (skipn psize data)
           end
  end.
Definition chunks (psize : nat) (data : bytes) : list bytes := chunks_f (length data) psize data.

Fixpoint set_nth {A} (l : list A) (i : nat) (x : A) : list A :=
  match l, i with
  | [], _ => []
  | _ :: t, O => x :: t
  | h :: t, S i' => h :: set_nth t i' x
  end.

Section PartSet.
Variable hash : bytes -> bytes.

Definition part_hash (p : part) : bytes := hash (p_bytes p).

Definition mk_parts (cs : list bytes) : list part :=
  let leaves := map hash cs in
  map (fun ic => mkPart (Z.of_nat (fst ic)) (snd ic) (aunts_of hash leaves (fst ic)))
      (combine (seq 0 (length cs)) cs).

(* NewPartSetFromData (partSize > 0; partSize = 0 divides by zero in Go: configuration guard) *)
Definition from_data (data : bytes) (psize : nat) : partset :=
  let cs := chunks psize data in
  let ps := mk_parts cs in
  mkPS (Z.of_nat (length cs)) (simple_root hash (map hash cs)) (map Some ps) (Z.of_nat (length cs)).

(* NewPartSetFromHeader: make([]*Part, total) panics for total < 0 *)
Definition from_header (total : Z) (h : bytes) : res partset :=
  if (total <? 0)%Z then Panic 2
  else Ok (mkPS total h (repeat None (Z.to_nat total)) 0).

(* AddPart (with the repaired negative-index guard, DESIGN F-08c) *)
Definition add_part (ps : partset) (p : part) (verify_proof : bool) : partset * add_out :=
  if (p_index p <? 0)%Z || (ps_total ps <=? p_index p)%Z then (ps, BadIndex)
  else
    let i := Z.to_nat (p_index p) in
    match nth i (ps_parts ps) None with
    | Some _ => (ps, Dup)
    | None =>
      if verify_proof && negb (verify hash (p_index p) (ps_total ps) (part_hash p) (ps_hash ps) (p_aunts p))
      then (ps, BadProof)
      else (mkPS (ps_total ps) (ps_hash ps) (set_nth (ps_parts ps) i (Some p)) (ps_count ps + 1), Added)
    end.

Definition is_complete (ps : partset) : bool := (ps_count ps =? ps_total ps)%Z.

(* GetReader + read until EOF: panics on an incomplete set and (parts[0]) on an empty one *)
Definition read_all (ps : partset) : res bytes :=
  if negb (is_complete ps) then Panic 3
  else match ps_parts ps with
       | [] => Panic 4
       | _ => Ok (concat_bytes (map (fun o => match o with Some p => p_bytes p | None => [] end) (ps_parts ps)))
       end.

Definition add_parts (ps : partset) (l : list part) : partset :=
  fold_left (fun s p => fst (add_part s p true)) l ps.

End PartSet.
