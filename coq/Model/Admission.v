(* Decision model of peer admission: gemmill/p2p/switch.go AddPeerWithConnection (refuse list,
   announced-versus-authenticated key, self), p2p/peer.go peerHandshake and angine.go authByCA
   (after the F-20b repair: the CURRENT validator set is consulted).  No proofs here. *)
From Coq Require Import List NArith Bool.
Import ListNotations.

Inductive ca_sig :=
| SigCurrentCA      (* valid signature over the peer's key by a validator that is a CA now *)
| SigRemovedCA      (* valid signature by a key that used to be a CA and no longer is *)
| SigNonCA          (* valid signature by a current validator that is not a CA *)
| SigInvalid        (* well-formed but verifies under no validator key *)
| SigMalformed.     (* not a 64-byte hex string *)

Record adm_in := mkAdm {
  a_refused : bool;            (* authenticated key is on the refuse list *)
  a_auth_by_ca : bool;         (* the switch has the CA check installed *)
  a_is_validator : bool;       (* announced key belongs to a current validator *)
  a_nonval_auth : bool;        (* config non_validator_node_auth *)
  a_sig : ca_sig;
  a_has_ca : bool;             (* the current set contains at least one CA validator *)
  a_key_match : bool;          (* announced key equals the key that signed the handshake challenge *)
  a_self : bool }.             (* announced key is our own *)

Inductive adm_out := PeerAdmitted | RejRefused | RejCA | RejKeyMismatch | RejSelf.

(* the CA check of authByCA *)
Definition ca_ok (i : adm_in) : bool :=
  if a_is_validator i && negb (a_nonval_auth i) then true
  else if negb (a_has_ca i) then false         (* no CA to ask: the loop finds nothing *)
  else match a_sig i with
       | SigCurrentCA => true
       | _ => false
       end.

Definition admission (i : adm_in) : adm_out :=
  if a_refused i then RejRefused
  else if a_auth_by_ca i && negb (ca_ok i) then RejCA
  else if negb (a_key_match i) then RejKeyMismatch
  else if a_self i then RejSelf
  else PeerAdmitted.
