(* Executable model of gemmill/types/priv_validator.go signBytesHRS + save (WriteFileAtomic) with
   process death at the failpoints of WriteFileAtomic and failing writes (after the F-03 repair).
   [vol] is the in-memory PrivValidator, [dur] what LoadPrivValidator would read from the file.
   The signature function is a parameter (ed25519 is deterministic).  No proofs in this file. *)
From Coq Require Import List NArith ZArith Bool.
From AnnVerif Require Import Base.Bytes.
Import ListNotations.
Open Scope Z_scope.

Record hrs := mkHRS { s_h : Z; s_r : Z; s_step : Z; s_sig : option bytes; s_bytes : option bytes }.
Record signer := mkSigner { vol : hrs; dur : hrs }.

Definition hrs0 : hrs := mkHRS 0 0 0 None None.
Definition signer0 : signer := mkSigner hrs0 hrs0.

(* how the save() of a signing request ends *)
Inductive save_mode := SaveOk | SaveFails | CrashBeforeRename | CrashAfterRename.

Inductive sop := SSign (h r step : Z) (b : bytes) (m : save_mode) | SReload.

Inductive sout :=
| OReleased (sig : bytes)
| ORefused (code : N)      (* 1 height, 2 round, 3 step regression / conflicting, 4 save error *)
| OCrashed                 (* the process died inside save(); nothing was returned; it restarted *)
| OReloaded.

Section Signer.
Variable sign : bytes -> bytes.

Definition sign_step (st : signer) (h r step : Z) (b : bytes) (m : save_mode) : signer * sout :=
  let v := vol st in
  if h <? s_h v then (st, ORefused 1)
  else if (s_h v =? h) && (r <? s_r v) then (st, ORefused 2)
  else if (s_h v =? h) && (s_r v =? r) && (step <? s_step v) then (st, ORefused 3)
  else if (s_h v =? h) && (s_r v =? r) && (s_step v =? step) then
    match s_bytes v, s_sig v with
    | Some lb, Some ls => if bytes_eqb lb b then (st, OReleased ls) else (st, ORefused 3)
    | _, _ => (st, ORefused 3)
    end
  else
    let sg := sign b in
    let v' := mkHRS h r step (Some sg) (Some b) in
    match m with
    | SaveOk => (mkSigner v' v', OReleased sg)
    | SaveFails => (st, ORefused 4)
    | CrashBeforeRename => (mkSigner (dur st) (dur st), OCrashed)
    | CrashAfterRename => (mkSigner v' v', OCrashed)
    end.

Definition sstep (st : signer) (o : sop) : signer * sout :=
  match o with
  | SSign h r step b m => sign_step st h r step b m
  | SReload => (mkSigner (dur st) (dur st), OReloaded)
  end.

(* run an operation list, collecting (op, output) *)
Fixpoint srun (st : signer) (ops : list sop) : signer * list (sop * sout) :=
  match ops with
  | [] => (st, [])
  | o :: t => let '(st1, out) := sstep st o in
              let '(st2, outs) := srun st1 t in (st2, (o, out) :: outs)
  end.

End Signer.
