(* Keccak-256 (the hash of the EVM's SHA3 instruction, of code hashes and of contract addresses):
   Keccak-f[1600] with rate 1088 and the original Keccak padding (0x01 .. 0x80), on byte lists.
   A direct transcription of the specification; its tie to the implementation is the
   correspondence of the engines that use it (every SHA3 result the in-tree interpreter pushes). *)
From Coq Require Import ZArith List.
Import ListNotations.
Open Scope Z_scope.

Definition m64 : Z := 18446744073709551616.
Definition rotl (x : Z) (n : Z) : Z :=
  if n =? 0 then x else Z.lor (Z.land (Z.shiftl x n) (m64 - 1)) (Z.shiftr x (64 - n)).

Definition lane (s : list Z) (i : nat) : Z := nth i s 0.

(* rotation offsets, index x + 5 y *)
Definition rho_off : list Z :=
  [0; 1; 62; 28; 27;  36; 44; 6; 55; 20;  3; 10; 43; 25; 39;  41; 45; 15; 21; 8;  18; 2; 61; 56; 14].
Definition round_consts : list Z :=
  [1; 32898; 9223372036854808714; 9223372039002292224; 32907; 2147483649; 9223372039002292353; 9223372036854808585;
   138; 136; 2147516425; 2147483658; 2147516555; 9223372036854775947; 9223372036854808713; 9223372036854808579;
   9223372036854808578; 9223372036854775936; 32778; 9223372039002259466; 9223372039002292353; 9223372036854808704;
   2147483649; 9223372039002292232].

Definition idx (x y : nat) : nat := (x mod 5 + 5 * (y mod 5))%nat.
Definition five : list nat := [0; 1; 2; 3; 4]%nat.
Definition all25 : list (nat * nat) := flat_map (fun y => map (fun x => (x, y)) five) five.   (* in index order *)

Definition keccak_round (s : list Z) (rc : Z) : list Z :=
  let c := map (fun x => fold_left Z.lxor (map (fun y => lane s (idx x y)) five) 0) five in
  let d := map (fun x => Z.lxor (nth ((x + 4) mod 5) c 0) (rotl (nth ((x + 1) mod 5) c 0) 1)) five in
  let a := map (fun xy => Z.lxor (lane s (idx (fst xy) (snd xy))) (nth (fst xy) d 0)) all25 in
  (* rho and pi: b[y, 2x+3y] = rot(a[x,y]) ; computed by destination: b[X,Y] comes from x = (X + 3Y) mod 5, y = X *)
  let b := map (fun XY => let X := fst XY in let Y := snd XY in
                          let x := ((X + 3 * Y) mod 5)%nat in let y := X in
                          rotl (lane a (idx x y)) (nth (idx x y) rho_off 0)) all25 in
  let chi := map (fun xy => let x := fst xy in let y := snd xy in
                            Z.lxor (lane b (idx x y))
                                   (Z.land (Z.lxor (lane b (idx (x + 1) y)) (m64 - 1)) (lane b (idx (x + 2) y)))) all25 in
  match chi with
  | [] => []
  | h :: t => Z.lxor h rc :: t
  end.

Definition keccak_f (s : list Z) : list Z := fold_left keccak_round round_consts s.

(* little-endian lanes *)
Fixpoint lane_of_bytes (l : list Z) : Z := match l with [] => 0 | b :: t => b + 256 * lane_of_bytes t end.
Fixpoint bytes_of_lane (n : nat) (w : Z) : list Z := match n with O => [] | S k => (w mod 256) :: bytes_of_lane k (w / 256) end.

Fixpoint chunks8 (n : nat) (l : list Z) : list Z :=
  match n with O => [] | S k => lane_of_bytes (firstn 8 l) :: chunks8 k (skipn 8 l) end.

Definition absorb (s : list Z) (block : list Z) : list Z :=
  let lanes := chunks8 17 block ++ repeat 0 8%nat in
  keccak_f (map (fun p => Z.lxor (fst p) (snd p)) (combine s lanes)).

Definition rate : nat := 136.
Definition pad (msg : list Z) : list Z :=
  let r := (rate - length msg mod rate)%nat in
  match r with
  | 1%nat => msg ++ [129]
  | _ => msg ++ [1] ++ repeat 0 (r - 2) ++ [128]
  end.

Fixpoint absorb_all (fuel : nat) (s : list Z) (l : list Z) : list Z :=
  match fuel with
  | O => s
  | S k => match l with [] => s | _ => absorb_all k (absorb s (firstn rate l)) (skipn rate l) end
  end.

Definition keccak256 (msg : list Z) : list Z :=
  let p := pad msg in
  let s := absorb_all (S (length p / rate)) (repeat 0 25%nat) p in
  flat_map (bytes_of_lane 8) (firstn 4 s).

Fixpoint be_word (l : list Z) (acc : Z) : Z := match l with [] => acc | b :: t => be_word t (acc * 256 + b) end.
Definition keccak_word (msg : list Z) : Z := be_word (keccak256 msg) 0.
