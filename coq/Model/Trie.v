(* Executable model of the Merkle Patricia trie of eth/trie (trie.go insert / delete / tryGet,
   encoding.go keybytesToHex / hexToCompact, hasher.go hashChildren / store) on fully resolved
   tries.  Keys are nibble lists ending in the terminator 16, exactly as the code forms them from
   byte strings.  Hashing is a parameter (the harness supplies the Keccak images it computes for
   the node encodings).  No proofs in this file. *)
From Coq Require Import List NArith ZArith Bool.
From AnnVerif Require Import Base.Bytes Model.Rlp.
Import ListNotations.
Open Scope N_scope.

Inductive node := NNil | NVal (v : bytes) | NShort (k : list N) (c : node) | NFull (cs : list node).

Definition nils17 : list node := repeat NNil 17.

(* keybytesToHex *)
Definition key_of_bytes (b : bytes) : list N := flat_map (fun x => [x / 16; x mod 16]) b ++ [16].

Fixpoint prefix_len (a b : list N) : nat :=
  match a, b with
  | x :: a', y :: b' => if x =? y then S (prefix_len a' b') else O
  | _, _ => O
  end.

Fixpoint set_child (cs : list node) (i : nat) (c : node) : list node :=
  match cs, i with
  | [], _ => []
  | _ :: t, O => c :: t
  | h :: t, S i' => h :: set_child t i' c
  end.
Definition get_child (cs : list node) (i : nat) : node := nth i cs NNil.

(* insert(nil, key, value) *)
Definition mk_short (k : list N) (v : node) : node := match k with [] => v | _ => NShort k v end.

Fixpoint insert (n : node) (key : list N) (v : node) {struct n} : node :=
  match key with
  | [] => v
  | k0 :: krest =>
    match n with
    | NShort nk c =>
      let m := prefix_len key nk in
      if Nat.eqb m (length nk) then NShort nk (insert c (skipn m key) v)
      else
        let b1 := set_child nils17 (N.to_nat (nth m nk 0)) (mk_short (skipn (S m) nk) c) in
        let b2 := set_child b1 (N.to_nat (nth m key 0)) (mk_short (skipn (S m) key) v) in
        if Nat.eqb m 0 then NFull b2 else NShort (firstn m key) (NFull b2)
    | NFull cs =>
      NFull ((fix go (cs : list node) (i : nat) : list node :=
                match cs with
                | [] => []
                | c :: t => match i with
                            | O => insert c krest v :: t
                            | S i' => c :: go t i'
                            end
                end) cs (N.to_nat k0))
    | NNil => NShort key v
    | NVal _ => n          (* the code panics: never reached with terminated keys *)
    end
  end.

Definition count_children (cs : list node) : nat :=
  length (filter (fun c => match c with NNil => false | _ => true end) cs).
Fixpoint first_child (cs : list node) (i : nat) : nat :=
  match cs with
  | [] => i
  | NNil :: t => first_child t (S i)
  | _ :: _ => i
  end.

(* what a full node becomes after one of its children changed *)
Definition reduce_full (cs : list node) : node :=
  if Nat.eqb (count_children cs) 1 then
    let pos := first_child cs 0 in
    match get_child cs pos with
    | NShort ck cv => if Nat.eqb pos 16 then NShort [N.of_nat pos] (get_child cs pos) else NShort (N.of_nat pos :: ck) cv
    | c => NShort [N.of_nat pos] c
    end
  else NFull cs.

Fixpoint delete (n : node) (key : list N) {struct n} : node :=
  match n with
  | NShort nk c =>
    let m := prefix_len key nk in
    if Nat.ltb m (length nk) then n
    else if Nat.eqb m (length key) then NNil
    else
      match delete c (skipn (length nk) key) with
      | NShort ck cv => NShort (nk ++ ck) cv
      | child => NShort nk child
      end
  | NFull cs =>
    match key with
    | [] => n                 (* the code indexes key[0]: never reached with terminated keys *)
    | k0 :: krest =>
      reduce_full ((fix go (cs : list node) (i : nat) : list node :=
                      match cs with
                      | [] => []
                      | c :: t => match i with
                                  | O => delete c krest :: t
                                  | S i' => c :: go t i'
                                  end
                      end) cs (N.to_nat k0))
    end
  | NVal _ => NNil
  | NNil => NNil
  end.

Fixpoint lookup (n : node) (key : list N) {struct n} : option bytes :=
  match n with
  | NNil => None
  | NVal v => Some v
  | NShort nk c =>
    if Nat.ltb (length key) (length nk) then None
    else if Nat.eqb (prefix_len key nk) (length nk) then lookup c (skipn (length nk) key) else None
  | NFull cs =>
    match key with
    | [] => None
    | k0 :: krest =>
      (fix go (cs : list node) (i : nat) : option bytes :=
         match cs with
         | [] => None
         | c :: t => match i with
                     | O => lookup c krest
                     | S i' => go t i'
                     end
         end) cs (N.to_nat k0)
    end
  end.

(* Trie.TryUpdate: an empty value deletes *)
Definition update (n : node) (key value : bytes) : node :=
  match value with
  | [] => delete n (key_of_bytes key)
  | _ => insert n (key_of_bytes key) (NVal value)
  end.
Definition get (n : node) (key : bytes) : option bytes := lookup n (key_of_bytes key).

(* ---------- hashing ---------- *)
(* hexToCompact *)
Fixpoint pack_nibbles (l : list N) : bytes :=
  match l with
  | a :: b :: t => (a * 16 + b) :: pack_nibbles t
  | _ => []
  end.
Definition has_term (k : list N) : bool := match rev k with 16 :: _ => true | _ => false end.
Definition compact (k : list N) : bytes :=
  let term := has_term k in
  let hex := if term then removelast k else k in
  let flag := if term then 32 else 0 in
  if Nat.odd (length hex) then
    match hex with
    | h0 :: t => (flag + 16 + h0) :: pack_nibbles t
    | [] => [flag]
    end
  else flag :: pack_nibbles hex.

Section Hash.
  Variable H : bytes -> bytes.

  (* the collapsed node as an RLP item; children of 32 bytes or more are replaced by their hash *)
  Fixpoint item_of (n : node) {struct n} : item :=
    match n with
    | NNil => IStr []
    | NVal v => IStr v
    | NShort k c =>
      IList [IStr (compact k);
             match c with
             | NVal v => IStr v
             | _ => let it := item_of c in
                    let e := Rlp.enc it in
                    if Nat.ltb (length e) 32 then it else IStr (H e)
             end]
    | NFull cs =>
      IList ((fix go (cs : list node) (i : nat) : list item :=
                match cs with
                | [] => []
                | c :: t =>
                  (match c with
                   | NNil => IStr []
                   | NVal v => IStr v
                   | _ => if Nat.eqb i 16 then item_of c
                          else let it := item_of c in
                               let e := Rlp.enc it in
                               if Nat.ltb (length e) 32 then it else IStr (H e)
                   end) :: go t (S i)
                end) cs O)
    end.

  (* Trie.Hash(): the root is always hashed; the empty trie has the hash of the empty string's RLP *)
  Definition root_hash (n : node) : bytes :=
    match n with
    | NNil => H [128]
    | _ => H (Rlp.enc (item_of n))
    end.
End Hash.
