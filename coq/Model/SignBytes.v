(* Executable model of the bytes validators sign: gemmill/types/signable.go SignBytes over
   canonical_json.go (votes and proposals), i.e. go-wire's JSON of the canonical structs:
   decimal integers, upper-case hex for byte slices, Go's encoding/json string escaping for the
   chain id (modelled for ASCII), fields in alphabetical order, omitempty on block-id fields.
   No proofs in this file. *)
From Coq Require Import List NArith ZArith Bool String Ascii Decimal DecimalZ.
From AnnVerif Require Import Base.Bytes.
Import ListNotations.

Definition str (s : string) : bytes := map N_of_ascii (list_ascii_of_string s).

(* decimal digits *)
Fixpoint uint_bytes (u : Decimal.uint) : bytes :=
  match u with
  | Decimal.Nil => []
  | Decimal.D0 r => 48%N :: uint_bytes r | Decimal.D1 r => 49%N :: uint_bytes r
  | Decimal.D2 r => 50%N :: uint_bytes r | Decimal.D3 r => 51%N :: uint_bytes r
  | Decimal.D4 r => 52%N :: uint_bytes r | Decimal.D5 r => 53%N :: uint_bytes r
  | Decimal.D6 r => 54%N :: uint_bytes r | Decimal.D7 r => 55%N :: uint_bytes r
  | Decimal.D8 r => 56%N :: uint_bytes r | Decimal.D9 r => 57%N :: uint_bytes r
  end.
Definition dec (z : Z) : bytes :=
  match Z.to_int z with
  | Decimal.Pos u => uint_bytes u
  | Decimal.Neg u => 45%N :: uint_bytes u
  end.

(* upper-case hex *)
Definition hexdigit (n : N) : N := if (n <? 10)%N then (48 + n)%N else (55 + n)%N.
Definition hex_upper (b : bytes) : bytes := flat_map (fun x => [hexdigit (x / 16); hexdigit (x mod 16)]%N) b.
Definition hexdigit_lower (n : N) : N := if (n <? 10)%N then (48 + n)%N else (87 + n)%N.

(* encoding/json escaping of one byte of a string (HTML escaping on); bytes >= 0x80 pass through
   (correct for valid UTF-8 other than U+2028/U+2029; the theorems are stated for ASCII) *)
Definition esc1 (x : N) : bytes :=
  if (x =? 34)%N then [92; 34]%N   (* backslash quote *)
  else if (x =? 92)%N then [92; 92]%N   (* two backslashes *)
  else if (x =? 10)%N then [92; 110]%N
  else if (x =? 13)%N then [92; 114]%N
  else if (x =? 9)%N then [92; 116]%N
  else if (x <? 32)%N || (x =? 60)%N || (x =? 62)%N || (x =? 38)%N
       then [92; 117; 48; 48; hexdigit_lower (x / 16); hexdigit_lower (x mod 16)]%N
  else [x].
Definition esc (s : bytes) : bytes := flat_map esc1 s.
Definition jstring (s : bytes) : bytes := 34%N :: esc s ++ [34%N].
Definition jhex (b : bytes) : bytes := 34%N :: hex_upper b ++ [34%N].

(* canonical block id: nil and empty hashes are the same thing *)
Record cbid := mkCbid { cb_hash : bytes; cb_total : Z; cb_phash : bytes }.
Definition parts_json (total : Z) (phash : bytes) : bytes :=
  str "{""hash"":" ++ jhex phash ++ str ",""total"":" ++ dec total ++ str "}".
Definition parts_empty (b : cbid) : bool := match cb_phash b with [] => Z.eqb (cb_total b) 0 | _ => false end.
Definition bid_json (b : cbid) : bytes :=
  match cb_hash b with
  | [] => if parts_empty b then str "{}"
          else str "{""parts"":" ++ parts_json (cb_total b) (cb_phash b) ++ str "}"
  | _ => if parts_empty b then str "{""hash"":" ++ jhex (cb_hash b) ++ str "}"
         else str "{""hash"":" ++ jhex (cb_hash b) ++ str ",""parts"":" ++ parts_json (cb_total b) (cb_phash b) ++ str "}"
  end.

Record cvote := mkCvote { cv_bid : cbid; cv_height : Z; cv_round : Z; cv_type : Z }.
Record cproposal := mkCprop { cp_total : Z; cp_phash : bytes; cp_height : Z; cp_pol : cbid; cp_polround : Z; cp_round : Z }.

Definition sign_bytes_vote (chain : bytes) (v : cvote) : bytes :=
  str "{""chain_id"":" ++ jstring chain ++ str ",""vote"":{""block_id"":" ++ bid_json (cv_bid v) ++
  str ",""height"":" ++ dec (cv_height v) ++ str ",""round"":" ++ dec (cv_round v) ++
  str ",""type"":" ++ dec (cv_type v) ++ str "}}".

Definition sign_bytes_proposal (chain : bytes) (p : cproposal) : bytes :=
  str "{""chain_id"":" ++ jstring chain ++ str ",""proposal"":{""block_parts_header"":" ++
  parts_json (cp_total p) (cp_phash p) ++ str ",""height"":" ++ dec (cp_height p) ++
  str ",""pol_block_id"":" ++ bid_json (cp_pol p) ++ str ",""pol_round"":" ++ dec (cp_polround p) ++
  str ",""round"":" ++ dec (cp_round p) ++ str "}}".
