(* The EVM across contracts: a world of accounts, message-call frames and the instructions that
   look at or enter other accounts (eth/core/vm/evm.go Call/CallCode/DelegateCall/StaticCall,
   instructions.go opCall.. opStaticCall, opBalance, opExtCodeSize, opExtCodeCopy,
   opReturnDataSize/Copy, interpreter.go enforceRestrictions), on top of the one-frame machine of
   Model/EvmCore.v, which executes every other instruction with the storage of the frame's account.
   A failing or reverting callee leaves the world and the logs as they were before the call.
   Not modelled ([OUnsup]): precompiled contracts (addresses 1..8 and the governance address),
   GAS; gas is not metered (the deposit of created code is not charged).
   No proofs in this file. *)
From Coq Require Import ZArith Bool List.
From AnnVerif Require Import Model.EvmArith Model.Keccak Model.EvmCore.
Import ListNotations.
Open Scope Z_scope.

Record account := mkAcc { a_nonce : Z; a_balance : Z; a_code : list Z; a_store : list (Z * Z) }.
Definition empty_acc : account := mkAcc 0 0 [] [].
Definition world := list (Z * account).          (* latest binding first *)
Fixpoint get_acc (w : world) (a : Z) : account :=
  match w with [] => empty_acc | (a', x) :: t => if a' =? a then x else get_acc t a end.
Definition set_acc (w : world) (a : Z) (x : account) : world := (a, x) :: w.
Definition set_store (w : world) (a : Z) (s : list (Z * Z)) : world :=
  let x := get_acc w a in set_acc w a (mkAcc (a_nonce x) (a_balance x) (a_code x) s).
Definition add_balance (w : world) (a : Z) (v : Z) : world :=
  let x := get_acc w a in set_acc w a (mkAcc (a_nonce x) (a_balance x + v) (a_code x) (a_store x)).

Definition addr_of (w : Z) : Z := w mod 2 ^ 160.

(* logs: address, topics, data, latest first; dead: the accounts that self-destructed (removed when the transaction ends) *)
Record wstate := mkWs { ws_world : world; ws_logs : list (Z * list Z * list Z); ws_dead : list Z }.

Record benv := mkBenv { b_origin : Z; b_gasprice : Z; b_coinbase : Z; b_time : Z; b_number : Z; b_difficulty : Z; b_gaslimit : Z;
                        b_blockhash : Z -> Z }.
Record frame := mkFr { f_addr : Z; f_caller : Z; f_value : Z; f_code : list Z; f_data : list Z; f_static : bool; f_depth : nat }.

Definition env_of (b : benv) (fr : frame) : env :=
  mkEnv (f_addr fr) (b_origin b) (f_caller fr) (f_value fr) (b_gasprice b) (b_coinbase b) (b_time b) (b_number b)
        (b_difficulty b) (b_gaslimit b) (f_data fr) (b_blockhash b).

(* the frame-local machine: what EvmCore keeps, plus the return data of the last call *)
Record lstate := mkL { l_pc : nat; l_stack : list Z; l_mem : list Z; l_ret : list Z }.

Inductive fout := FStop (ret : list Z) | FRevert (ret : list Z) | FFail | FOog | FUnsup.

(* the instructions handled here *)
Inductive winstr := WBalance | WExtcodesize | WExtcodecopy | WExtcodehash | WRetsize | WRetcopy
                  | WCall | WCallcode | WDelegatecall | WStaticcall | WCreate | WCreate2 | WSelfdestruct.
Definition wdecode (op : Z) : option winstr :=
  if op =? 49 then Some WBalance else if op =? 59 then Some WExtcodesize else if op =? 60 then Some WExtcodecopy
  else if op =? 63 then Some WExtcodehash
  else if op =? 61 then Some WRetsize else if op =? 62 then Some WRetcopy
  else if op =? 241 then Some WCall else if op =? 242 then Some WCallcode
  else if op =? 244 then Some WDelegatecall else if op =? 250 then Some WStaticcall
  else if op =? 240 then Some WCreate else if op =? 245 then Some WCreate2
  else if op =? 255 then Some WSelfdestruct
  else None.
Definition wkind (i : winstr) : nat * nat :=
  match i with
  | WBalance | WExtcodesize | WExtcodehash => (1, 1)
  | WExtcodecopy => (4, 0)
  | WRetsize => (0, 1)
  | WRetcopy => (3, 0)
  | WCall | WCallcode => (7, 1)
  | WDelegatecall | WStaticcall => (6, 1)
  | WCreate => (3, 1)
  | WCreate2 => (4, 1)
  | WSelfdestruct => (1, 0)
  end%nat.

Definition mmax (a b : mneed) : mneed :=
  match a, b with
  | MFail, _ | _, MFail => MFail
  | MOog, _ | _, MOog => MOog
  | MUnsup, _ | _, MUnsup => MUnsup
  | MNone, x | x, MNone => x
  | MSize x, MSize y => MSize (Nat.max x y)
  end.
Definition wmem (i : winstr) (s : list Z) : mneed :=
  match i with
  | WExtcodecopy => mem_need (st s 1) (st s 3)
  | WRetcopy => mem_need (st s 0) (st s 2)
  | WCall | WCallcode => mmax (mem_need (st s 5) (st s 6)) (mem_need (st s 3) (st s 4))
  | WDelegatecall | WStaticcall => mmax (mem_need (st s 4) (st s 5)) (mem_need (st s 2) (st s 3))
  | WCreate | WCreate2 => mem_need (st s 1) (st s 2)
  | _ => MNone
  end.

Definition is_precompile (a : Z) : bool := ((1 <=? a) && (a <=? 8)) || (a =? 254).

(* memory.Set(offset, size, value): at most [size] bytes of [value] *)
Definition mem_set (mem : list Z) (off size : Z) (v : list Z) : list Z :=
  if size =? 0 then mem else mem_write mem (Z.to_nat off) (firstn (Z.to_nat size) v).

Definition is_write (op : Z) : bool := (op =? 85) || ((160 <=? op) && (op <=? 164)).

(* the address of a created contract *)
Definition rlp_nonce (n : Z) : list Z :=
  if n =? 0 then [128] else if n <? 128 then [n]
  else let bs := bytes_of_word (Z.to_nat ((Z.log2 n) / 8 + 1)) n in (128 + Z.of_nat (length bs)) :: bs.
Definition create_address (sender nonce : Z) : Z :=
  let payload := (148 :: bytes_of_word 20 sender) ++ rlp_nonce nonce in
  addr_of (keccak_word ((192 + Z.of_nat (length payload)) :: payload)).
Definition create2_address (sender salt : Z) (init : list Z) : Z :=
  addr_of (keccak_word ((255 :: bytes_of_word 20 sender) ++ bytes_of_word 32 salt ++ keccak256 init)).
Definition set_nonce (w : world) (a : Z) (n : Z) : world :=
  let x := get_acc w a in set_acc w a (mkAcc n (a_balance x) (a_code x) (a_store x)).
Definition set_code (w : world) (a : Z) (c : list Z) : world :=
  let x := get_acc w a in set_acc w a (mkAcc (a_nonce x) (a_balance x) c (a_store x)).

Section Run.
Variable b : benv.

(* one frame, [fuel] instructions in all frames together *)
Fixpoint run_frame (fuel : nat) (ws : wstate) (fr : frame) (l : lstate) {struct fuel} : wstate * fout :=
  match fuel with
  | O => (ws, FUnsup)
  | S k =>
    let op := nth (l_pc l) (f_code fr) 0 in
    let s := l_stack l in
    match wdecode op with
    | None =>
      (* a frame-local instruction: EvmCore's step with this account's storage *)
      if f_static fr && is_write op then (ws, FFail)
      else
        let acc := get_acc (ws_world ws) (f_addr fr) in
        let m := mkM (l_pc l) s (l_mem l) (a_store acc) [] in
        match step (env_of b fr) (f_code fr) m with
        | inl m' =>
          let ws' := if is_write op
                     then mkWs (set_store (ws_world ws) (f_addr fr) (m_store m'))
                               (map (fun tl => (f_addr fr, fst tl, snd tl)) (m_logs m') ++ ws_logs ws) (ws_dead ws)
                     else ws in
          run_frame k ws' fr (mkL (m_pc m') (m_stack m') (m_mem m') (l_ret l))
        | inr (OStop ret _ _) => (ws, FStop ret)
        | inr (ORevert ret) => (ws, FRevert ret)
        | inr OFail => (ws, FFail)
        | inr OOog => (ws, FOog)
        | inr OUnsup => (ws, FUnsup)
        end
    | Some i =>
      let len := length s in
      if Nat.ltb len (fst (wkind i)) then (ws, FFail)
      else if Nat.ltb 1024 (len + snd (wkind i) - fst (wkind i)) then (ws, FFail)
      else if f_static fr && (match i with WCall => negb (st s 2 =? 0) | WCreate | WCreate2 | WSelfdestruct => true | _ => false end) then (ws, FFail)
      else
        match wmem i s with
        | MFail => (ws, FFail)
        | MOog => (ws, FOog)
        | MUnsup => (ws, FUnsup)
        | need =>
          let mem := match need with MSize n => mem_resize (l_mem l) n | _ => l_mem l end in
          let next stack mem' ret := run_frame k ws fr (mkL (S (l_pc l)) stack mem' ret) in
          match i with
          | WBalance => next (a_balance (get_acc (ws_world ws) (addr_of (st s 0))) :: skipn 1 s) mem (l_ret l)
          | WExtcodesize => next (Z.of_nat (length (a_code (get_acc (ws_world ws) (addr_of (st s 0))))) :: skipn 1 s) mem (l_ret l)
          | WExtcodehash =>
            (* EIP-1052: zero for an account that does not exist or is empty *)
            let x := get_acc (ws_world ws) (addr_of (st s 0)) in
            next ((if (a_nonce x =? 0) && (a_balance x =? 0) && (match a_code x with [] => true | _ => false end)
                   then 0 else keccak_word (a_code x)) :: skipn 1 s) mem (l_ret l)
          | WExtcodecopy =>
            next (skipn 4 s)
                 (if st s 3 =? 0 then mem
                  else mem_write mem (Z.to_nat (st s 1)) (get_data (a_code (get_acc (ws_world ws) (addr_of (st s 0)))) (st s 2) (Z.to_nat (st s 3))))
                 (l_ret l)
          | WRetsize => next (Z.of_nat (length (l_ret l)) :: s) mem (l_ret l)
          | WRetcopy =>
            let e := st s 1 + st s 2 in
            if (18446744073709551616 <=? e) || (Z.of_nat (length (l_ret l)) <? e) then (ws, FFail)
            else next (skipn 3 s) (if st s 2 =? 0 then mem else mem_write mem (Z.to_nat (st s 0)) (slice (l_ret l) (Z.to_nat (st s 1)) (Z.to_nat (st s 2)))) (l_ret l)
          | WSelfdestruct =>
            let benef := addr_of (st s 0) in
            let bal := a_balance (get_acc (ws_world ws) (f_addr fr)) in
            if is_precompile benef then (ws, FUnsup)
            else
              let w1 := add_balance (ws_world ws) benef bal in
              let x := get_acc w1 (f_addr fr) in
              (mkWs (set_acc w1 (f_addr fr) (mkAcc (a_nonce x) 0 (a_code x) (a_store x))) (ws_logs ws) (f_addr fr :: ws_dead ws), FStop [])
          | WCreate | WCreate2 =>
            let value := st s 0 in
            let init := mslice mem (st s 1) (st s 2) in
            let rest := skipn (fst (wkind i)) s in
            let self := get_acc (ws_world ws) (f_addr fr) in
            let pushed ws' v ret := run_frame k ws' fr (mkL (S (l_pc l)) (v :: rest) mem ret) in
            if Nat.ltb 1024 (f_depth fr) then pushed ws 0 []
            else if a_balance self <? value then pushed ws 0 []
            else
              let nonce := a_nonce self in
              let w1 := set_nonce (ws_world ws) (f_addr fr) (nonce + 1) in       (* stays, whatever happens next *)
              let ws1 := mkWs w1 (ws_logs ws) (ws_dead ws) in
              let new := match i with WCreate => create_address (f_addr fr) nonce | _ => create2_address (f_addr fr) (st s 3) init end in
              let old := get_acc w1 new in
              if is_precompile new then (ws, FUnsup)
              else if negb (a_nonce old =? 0) || (match a_code old with [] => false | _ => true end) then pushed ws1 0 []
              else
                let w2 := set_acc (add_balance w1 (f_addr fr) (- value)) new (mkAcc 1 (a_balance old + value) [] []) in
                match init with
                | [] => pushed (mkWs w2 (ws_logs ws) (ws_dead ws)) new []
                | _ =>
                  match run_frame k (mkWs w2 (ws_logs ws) (ws_dead ws)) (mkFr new (f_addr fr) value init [] false (S (f_depth fr))) (mkL 0 [] [] []) with
                  | (ws2, FStop ret) =>
                    if 24576 <? Z.of_nat (length ret) then pushed ws1 0 []
                    else pushed (mkWs (set_code (ws_world ws2) new ret) (ws_logs ws2) (ws_dead ws2)) new []
                  | (_, FRevert ret) => pushed ws1 0 ret
                  | (_, FFail) | (_, FOog) => pushed ws1 0 []
                  | (_, FUnsup) => (ws, FUnsup)
                  end
                end
          | _ =>
            (* the four calls *)
            let to := addr_of (st s 1) in
            let has_value := match i with WCall | WCallcode => true | _ => false end in
            let value := if has_value then st s 2 else 0 in
            let io := if has_value then 3%nat else 2%nat in
            let args := mslice mem (st s io) (st s (io + 1)) in
            let roff := st s (io + 2) in
            let rsize := st s (io + 3) in
            let rest := skipn (fst (wkind i)) s in
            let failed := fun (_ : unit) => run_frame k ws fr (mkL (S (l_pc l)) (0 :: rest) mem []) in
            if is_precompile to then (ws, FUnsup)
            else if Nat.ltb 1024 (f_depth fr) then failed tt
            else if has_value && (a_balance (get_acc (ws_world ws) (f_addr fr)) <? value) then failed tt
            else
              let code := a_code (get_acc (ws_world ws) to) in
              let w1 := match i with
                        | WCall => add_balance (add_balance (ws_world ws) (f_addr fr) (- value)) to value
                        | _ => ws_world ws
                        end in
              let callee :=
                match i with
                | WCall => mkFr to (f_addr fr) value code args (f_static fr) (S (f_depth fr))
                | WCallcode => mkFr (f_addr fr) (f_addr fr) value code args (f_static fr) (S (f_depth fr))
                | WDelegatecall => mkFr (f_addr fr) (f_caller fr) (f_value fr) code args (f_static fr) (S (f_depth fr))
                | _ => mkFr to (f_addr fr) 0 code args true (S (f_depth fr))
                end in
              match code with
              | [] =>
                (* no code: the transfer is all that happens *)
                run_frame k (mkWs w1 (ws_logs ws) (ws_dead ws)) fr (mkL (S (l_pc l)) (1 :: rest) mem [])
              | _ =>
                match run_frame k (mkWs w1 (ws_logs ws) (ws_dead ws)) callee (mkL 0 [] [] []) with
                | (ws2, FStop ret) => run_frame k ws2 fr (mkL (S (l_pc l)) (1 :: rest) (mem_set mem roff rsize ret) ret)
                | (_, FRevert ret) => run_frame k ws fr (mkL (S (l_pc l)) (0 :: rest) (mem_set mem roff rsize ret) ret)
                | (_, FFail) | (_, FOog) => failed tt
                | (_, FUnsup) => (ws, FUnsup)
                end
              end
          end
        end
    end
  end.
End Run.

(* a message call from outside: value transfer, then the callee's code *)
Definition call_world (fuel : nat) (b : benv) (w : world) (callee value : Z) (data : list Z) : wstate * fout :=
  let w1 := add_balance (add_balance w (b_origin b) (- value)) callee value in
  let code := a_code (get_acc w callee) in
  match code with
  | [] => (mkWs w1 [] [], FStop [])
  | _ =>
    match run_frame b fuel (mkWs w1 [] []) (mkFr callee (b_origin b) value code data false 1) (mkL 0 [] [] []) with
    | (ws, FStop ret) =>
      (* the accounts that destroyed themselves are removed when the transaction ends *)
      (mkWs (fold_left (fun w a => set_acc w a empty_acc) (ws_dead ws) (ws_world ws)) (ws_logs ws) [], FStop ret)
    | (_, o) => (mkWs w [] [], o)
    end
  end.
