(* Executable model of gemmill/types/validator_set.go (+ Validator.CompareAccum/Hash):
   NewValidatorSet, IncrementAccum (after the fix: n single steps), TotalVotingPower (cached),
   Proposer (cached / recomputed), Add, Update, Remove, Hash, wire round trip (drops the caches).
   With single steps the container/heap order reduces to "first index with the greatest accum"
   (a later element replaces the heap root only if strictly greater).  No proofs in this file. *)
From Coq Require Import List NArith ZArith Bool.
From AnnVerif Require Import Base.Res Base.Bytes Model.Merkle.
Import ListNotations.
Open Scope Z_scope.

Record val16 := mkVal { va_addr : bytes; va_pub : bytes; va_power : Z; va_accum : Z; va_isca : bool }.
Record valset := mkVSet { vl : list val16; v_prop : option bytes; v_tvp : Z }.

(* bytes.Compare *)
Fixpoint bytes_cmp (a b : bytes) : comparison :=
  match a, b with
  | [], [] => Eq
  | [], _ => Lt
  | _, [] => Gt
  | x :: a', y :: b' => match N.compare x y with Eq => bytes_cmp a' b' | c => c end
  end.
Definition bytes_leb (a b : bytes) : bool := match bytes_cmp a b with Gt => false | _ => true end.
Definition bytes_ltb (a b : bytes) : bool := match bytes_cmp a b with Lt => true | _ => false end.

(* TotalVotingPower(): sums (with int64 wrap) when the cache is 0, and caches *)
Definition sum_power (l : list val16) : Z := fold_left (fun acc v => wrap64 (acc + va_power v)) l 0.
Definition total_vp (vs : valset) : Z * valset :=
  if v_tvp vs =? 0 then let t := sum_power (vl vs) in (t, mkVSet (vl vs) (v_prop vs) t)
  else (v_tvp vs, vs).

(* index of the first validator with the greatest accum *)
Fixpoint argmax_from (l : list val16) (i : nat) (best : nat) (bestv : Z) : nat :=
  match l with
  | [] => best
  | v :: t => if bestv <? va_accum v then argmax_from t (S i) i (va_accum v)
              else argmax_from t (S i) best bestv
  end.
Definition argmax_first (l : list val16) : nat :=
  match l with [] => O | v :: t => argmax_from t 1 0 (va_accum v) end.

Definition set_accum (v : val16) (a : Z) : val16 := mkVal (va_addr v) (va_pub v) (va_power v) a (va_isca v).
Fixpoint map_nth (l : list val16) (i : nat) (f : val16 -> val16) : list val16 :=
  match l, i with
  | [], _ => []
  | v :: t, O => f v :: t
  | v :: t, S i' => v :: map_nth t i' f
  end.

(* one round of incrementAccum(1) *)
Definition incr_once (vs : valset) : res valset :=
  match vl vs with
  | [] => Panic 20  (* Peek() on an empty heap is nil; the type assertion panics *)
  | _ =>
    let l1 := map (fun v => set_accum v (wrap64 (va_accum v + wrap64 (va_power v * 1)))) (vl vs) in
    let i := argmax_first l1 in
    let '(t, vs1) := total_vp (mkVSet l1 (v_prop vs) (v_tvp vs)) in
    let l2 := map_nth l1 i (fun v => set_accum v (wrap64 (va_accum v - t))) in
    Ok (mkVSet l2 (Some (va_addr (nth i l1 (mkVal [] [] 0 0 false)))) (v_tvp vs1))
  end.

Fixpoint incr_n (vs : valset) (n : nat) : res valset :=
  match n with
  | O => Ok vs
  | S n' => match incr_once vs with Ok vs' => incr_n vs' n' | e => e end
  end.
(* IncrementAccum(times): nothing happens for times <= 0 *)
Definition increment (vs : valset) (times : Z) : res valset := incr_n vs (Z.to_nat times).

(* Validator.CompareAccum folded over the set *)
Definition compare_accum (cur : option val16) (other : val16) : res (option val16) :=
  match cur with
  | None => Ok (Some other)
  | Some v =>
    if va_accum other <? va_accum v then Ok (Some v)
    else if va_accum v <? va_accum other then Ok (Some other)
    else match bytes_cmp (va_addr v) (va_addr other) with
         | Lt => Ok (Some v)
         | Gt => Ok (Some other)
         | Eq => Panic 21
         end
  end.
Fixpoint fold_compare (l : list val16) (cur : option val16) : res (option val16) :=
  match l with
  | [] => Ok cur
  | v :: t => match compare_accum cur v with Ok c => fold_compare t c | Err e => Err e | Panic w => Panic w end
  end.

(* Proposer(): address of the proposer (None for an empty set), caching it *)
Definition proposer (vs : valset) : res (option bytes * valset) :=
  match vl vs with
  | [] => Ok (None, vs)
  | _ =>
    match v_prop vs with
    | Some a => Ok (Some a, vs)
    | None =>
      match fold_compare (vl vs) None with
      | Ok (Some v) => Ok (Some (va_addr v), mkVSet (vl vs) (Some (va_addr v)) (v_tvp vs))
      | Ok None => Ok (None, vs)
      | Err e => Err e
      | Panic w => Panic w
      end
    end
  end.

(* sort.Search(len, addr <= Validators[i].Address) on a sorted list *)
Fixpoint search (l : list val16) (addr : bytes) (i : nat) : nat :=
  match l with
  | [] => i
  | v :: t => if bytes_leb addr (va_addr v) then i else search t addr (S i)
  end.

Fixpoint insert_at (l : list val16) (i : nat) (x : val16) : list val16 :=
  match i, l with
  | O, _ => x :: l
  | S i', v :: t => v :: insert_at t i' x
  | S _, [] => [x]
  end.
Fixpoint remove_at (l : list val16) (i : nat) : list val16 :=
  match i, l with
  | _, [] => []
  | O, _ :: t => t
  | S i', v :: t => v :: remove_at t i'
  end.

Definition add (vs : valset) (x : val16) : valset * bool :=
  let idx := search (vl vs) (va_addr x) 0 in
  match nth_error (vl vs) idx with
  | None => (mkVSet (vl vs ++ [x]) None 0, true)
  | Some v => if bytes_eqb (va_addr v) (va_addr x) then (vs, false)
              else (mkVSet (insert_at (vl vs) idx x) None 0, true)
  end.

Definition update (vs : valset) (x : val16) : valset * bool :=
  let idx := search (vl vs) (va_addr x) 0 in
  match nth_error (vl vs) idx with
  | Some v => if bytes_eqb (va_addr v) (va_addr x)
              then (mkVSet (map_nth (vl vs) idx (fun _ => x)) None 0, true) else (vs, false)
  | None => (vs, false)
  end.

Definition remove (vs : valset) (addr : bytes) : valset * bool :=
  let idx := search (vl vs) addr 0 in
  match nth_error (vl vs) idx with
  | Some v => if bytes_eqb (va_addr v) addr
              then (mkVSet (remove_at (vl vs) idx) None 0, true) else (vs, false)
  | None => (vs, false)
  end.

(* insertion sort by address (NewValidatorSet's sort.Sort; addresses are distinct) *)
Fixpoint insert_sorted (x : val16) (l : list val16) : list val16 :=
  match l with
  | [] => [x]
  | v :: t => if bytes_ltb (va_addr x) (va_addr v) then x :: l else v :: insert_sorted x t
  end.
Definition sort_vals (l : list val16) : list val16 := fold_right insert_sorted [] l.

Definition new_valset (vals : list val16) : res valset :=
  increment (mkVSet (sort_vals vals) None 0) 1.

(* persistence / wire round trip keeps only the validator list *)
Definition roundtrip (vs : valset) : valset := mkVSet (vl vs) None 0.

(* ---- hashing ---- *)
Definition be8 (z : Z) : bytes := be_bytes 8 (Z.to_N (z mod 18446744073709551616)).
Definition enc_val (v : val16) : bytes :=
  [1%N] ++ enc_bs (va_addr v) ++ [1%N] ++ va_pub v ++ be8 (va_power v) ++ be8 (va_accum v)
        ++ [if va_isca v then 1%N else 0%N].

Section Hash.
Variable hash : bytes -> bytes.
Definition val_hash (v : val16) : bytes := hash (enc_val v).
Definition set_hash (vs : valset) : bytes :=
  match vl vs with [] => [] | _ => simple_root hash (map val_hash (vl vs)) end.
End Hash.
