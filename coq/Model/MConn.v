(* Executable model of the message multiplexing of gemmill/p2p/connection.go:
   Channel.nextMsgPacket (packetisation, 1024-byte payloads, EOF flag) and
   Channel.recvMsgPacket (per-channel reassembly with the capacity check).  No proofs here. *)
From Coq Require Import List NArith ZArith Bool.
From AnnVerif Require Import Base.Res Base.Bytes.
Import ListNotations.

Definition payload_max : nat := 1024.

Record packet := mkPacket { pk_ch : N; pk_eof : bool; pk_bytes : bytes }.

(* the packets of one message on channel c *)
Fixpoint packetise_f (fuel : nat) (c : N) (msg : bytes) : list packet :=
  match fuel with
  | O => [mkPacket c true msg]
  | S f => if Nat.leb (length msg) payload_max then [mkPacket c true msg]
           else mkPacket c false (firstn payload_max msg) :: packetise_f f c (skipn payload_max msg)
  end.
Definition packetise (c : N) (msg : bytes) : list packet := packetise_f (length msg) c msg.

(* receiver: partial message per channel *)
Definition rstate := N -> bytes.
Definition rinit : rstate := fun _ => [].
Definition rupd (s : rstate) (c : N) (b : bytes) : rstate := fun x => if N.eqb x c then b else s x.

(* recvMsgPacket: error when the message would exceed the channel's capacity *)
Definition recv_packet (cap : N -> nat) (s : rstate) (p : packet) : res (rstate * option (N * bytes)) :=
  let c := pk_ch p in
  if Nat.ltb (cap c) (length (s c) + length (pk_bytes p)) then Err 1
  else
    let acc := s c ++ pk_bytes p in
    if pk_eof p then Ok (rupd s c [], Some (c, acc)) else Ok (rupd s c acc, None).

(* all packets in arrival order: delivered (channel, message) list, and whether an error ended it *)
Fixpoint recv_all (cap : N -> nat) (s : rstate) (l : list packet) : list (N * bytes) * bool :=
  match l with
  | [] => ([], false)
  | p :: t =>
    match recv_packet cap s p with
    | Ok (s', Some m) => let '(ms, e) := recv_all cap s' t in (m :: ms, e)
    | Ok (s', None) => recv_all cap s' t
    | _ => ([], true)
    end
  end.
