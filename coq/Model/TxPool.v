(* Executable model of chain/app/evm/tx_pool.go + tx_sort.go (the EVM application's pool) and of
   gemmill/mempool/mempool.go (the default pool).  Transactions are (sender, nonce, id) where the
   id stands for both the raw bytes and the hash; account state nonces are inputs of the
   operations that read them.  Go map iteration is modelled as iteration in ascending address order
   (the harness keeps the limits from binding where the order would matter).  No proofs here. *)
From Coq Require Import List NArith ZArith Bool.
From AnnVerif Require Import Base.Res.
Import ListNotations.
Open Scope N_scope.

Record tx := mkTx { t_from : N; t_nonce : N; t_id : N }.

(* ---------- txSortedMap: finite map nonce -> tx, kept sorted by nonce ---------- *)
Definition smap := list tx.

Fixpoint sm_get (m : smap) (n : N) : option tx :=
  match m with [] => None | t :: r => if t_nonce t =? n then Some t else sm_get r n end.

Fixpoint sm_insert (m : smap) (t : tx) : smap :=
  match m with
  | [] => [t]
  | h :: r => if t_nonce t <? t_nonce h then t :: m else h :: sm_insert r t
  end.

(* Add: error when the nonce is taken *)
Definition sm_add (m : smap) (t : tx) : option smap :=
  match sm_get m (t_nonce t) with Some _ => None | None => Some (sm_insert m t) end.

(* Forward(threshold): (removed, kept) *)
Definition sm_forward (m : smap) (th : N) : smap * smap :=
  (filter (fun t => t_nonce t <? th) m, filter (fun t => negb (t_nonce t <? th)) m).

(* the consecutive run starting at the smallest nonce, at most [count] long: (run, rest) *)
Fixpoint sm_run (m : smap) (next : N) (count : nat) : smap * smap :=
  match count with
  | O => ([], m)
  | S c =>
    match m with
    | [] => ([], [])
    | t :: r => if t_nonce t =? next then let '(a, b) := sm_run r (next + 1) c in (t :: a, b) else ([], m)
    end
  end.
(* ReadyN(start, count) *)
Definition sm_ready (m : smap) (start : N) (count : nat) : smap * smap :=
  match m with
  | [] => ([], m)
  | t :: _ => if (start <? t_nonce t) || Nat.eqb count 0 then ([], m) else sm_run m (t_nonce t) count
  end.

Definition sm_remove (m : smap) (n : N) : smap := filter (fun t => negb (t_nonce t =? n)) m.
Definition sm_max (m : smap) : option N := match rev m with [] => None | t :: _ => Some (t_nonce t) end.
Definition sm_min (m : smap) : option N := match m with [] => None | t :: _ => Some (t_nonce t) end.

(* TryReplace: (success, new map); the largest nonce is removed before the Add is tried *)
Definition sm_try_replace (m : smap) (t : tx) : bool * smap :=
  match sm_max m with
  | None => (false, m)
  | Some mx =>
    if mx <=? t_nonce t then (false, m)
    else let m1 := sm_remove m mx in
         match sm_add m1 t with Some m2 => (true, m2) | None => (false, m1) end
  end.

(* ---------- address-keyed maps, ascending ---------- *)
Definition amap := list (N * smap).
Fixpoint am_get (a : amap) (k : N) : option smap :=
  match a with [] => None | (k', v) :: r => if k' =? k then Some v else am_get r k end.
Fixpoint am_set (a : amap) (k : N) (v : smap) : amap :=
  match a with
  | [] => [(k, v)]
  | (k', v') :: r => if k' =? k then (k, v) :: r else if k <? k' then (k, v) :: a else (k', v') :: am_set r k v
  end.
Definition am_del (a : amap) (k : N) : amap := filter (fun kv => negb (fst kv =? k)) a.
Definition am_count (a : amap) : nat := fold_right (fun kv acc => (length (snd kv) + acc)%nat) O a.

Record pool := mkPool {
  p_pending : amap; p_waiting : amap;
  p_all : list N;          (* ids in the lookup map *)
  p_ext : list N;          (* administrative requests, oldest first *)
  p_plimit : nat; p_wlimit : nat }.

Definition new_pool (plimit wlimit : nat) : pool := mkPool [] [] [] [] plimit wlimit.

Definition nonces := list (N * N).   (* account -> state nonce; absent = 0 *)
Fixpoint nonce_of (ns : nonces) (a : N) : N :=
  match ns with [] => 0 | (k, v) :: r => if k =? a then v else nonce_of r a end.

Definition all_del (l : list N) (ids : list N) : list N :=
  filter (fun x => negb (existsb (N.eqb x) ids)) l.

(* addWaiting: (pool afterwards, code) with 0 = added, 1 = queue full, 2 = nonce already queued.
   When the queue is full TryReplace may remove the account's largest nonce and then fail. *)
Definition add_waiting (p : pool) (t : tx) : pool * N :=
  let a := t_from t in
  if Nat.leb (p_wlimit p) (am_count (p_waiting p)) then
    match am_get (p_waiting p) a with
    | None => (p, 1)
    | Some m => let '(ok, m') := sm_try_replace m t in
                (mkPool (p_pending p) (am_set (p_waiting p) a m') (p_all p) (p_ext p) (p_plimit p) (p_wlimit p),
                 if ok then 0 else 1)
    end
  else
    let m := match am_get (p_waiting p) a with Some m => m | None => [] end in
    match sm_add m t with
    | None => (p, 2)
    | Some m' => (mkPool (p_pending p) (am_set (p_waiting p) a m') (p_all p) (p_ext p) (p_plimit p) (p_wlimit p), 0)
    end.

(* one account's turn in promoteExecutables *)
Definition promote_one (ns : nonces) (p : pool) (a : N) : pool :=
  let cnt := am_count (p_pending p) in
  if Nat.leb (p_plimit p) cnt then p
  else
    match am_get (p_waiting p) a with
    | None => p
    | Some w =>
      let n := nonce_of ns a in
      let '(old, w1) := sm_forward w n in
      let all1 := all_del (p_all p) (map t_id old) in
      let '(ready, w2) := sm_ready w1 n (p_plimit p - cnt) in
      let waiting' := match w2 with [] => am_del (p_waiting p) a | _ => am_set (p_waiting p) a w2 end in
      match ready with
      | [] => mkPool (p_pending p) waiting' all1 (p_ext p) (p_plimit p) (p_wlimit p)
      | _ =>
        let pm0 := match am_get (p_pending p) a with Some m => m | None => [] end in
        let pm := fold_left (fun m t => match sm_add m t with Some m' => m' | None => m end) ready pm0 in
        mkPool (am_set (p_pending p) a pm) waiting' all1 (p_ext p) (p_plimit p) (p_wlimit p)
      end
    end.

Definition promote (ns : nonces) (p : pool) (addrs : list N) : pool :=
  fold_left (promote_one ns) addrs p.

(* demoteUnexecutables, one account *)
Definition demote_one (ns : nonces) (p : pool) (a : N) : pool :=
  match am_get (p_pending p) a with
  | None => p
  | Some m =>
    let n := nonce_of ns a in
    let '(old, m1) := sm_forward m n in
    let all1 := all_del (p_all p) (map t_id old) in
    match m1 with
    | [] => mkPool (am_del (p_pending p) a) (p_waiting p) all1 (p_ext p) (p_plimit p) (p_wlimit p)
    | _ =>
      match sm_get m1 n with
      | Some _ => mkPool (am_set (p_pending p) a m1) (p_waiting p) all1 (p_ext p) (p_plimit p) (p_wlimit p)
      | None =>
        (* gap in front: everything goes back to waiting (or is dropped when that fails) *)
        let p1 := mkPool (am_del (p_pending p) a) (p_waiting p) all1 (p_ext p) (p_plimit p) (p_wlimit p) in
        fold_left (fun q t => let '(q', c) := add_waiting q t in
                              if c =? 0 then q'
                              else mkPool (p_pending q') (p_waiting q') (all_del (p_all q') [t_id t]) (p_ext q') (p_plimit q') (p_wlimit q')) m1 p1
      end
    end
  end.

(* updateToState *)
Definition update_to_state (ns : nonces) (p : pool) : pool :=
  let p1 := fold_left (demote_one ns) (map fst (p_pending p)) p in
  promote ns p1 (map fst (p_waiting p1)).

(* CheckAndAdd: 0 ok, 1 already known, 2 stale nonce, 3 waiting queue full, 4 nonce already queued *)
Definition receive (ns : nonces) (p : pool) (t : tx) : pool * N :=
  if existsb (N.eqb (t_id t)) (p_all p) then (p, 1)
  else
    let cur := nonce_of ns (t_from t) in
    if t_nonce t <? cur then (p, 2)
    else
      let '(p1, c) := add_waiting p t in
      if c =? 1 then (p1, 3)
      else if c =? 2 then (p1, 4)
      else
        let p2 := mkPool (p_pending p1) (p_waiting p1) (p_all p1 ++ [t_id t]) (p_ext p1) (p_plimit p1) (p_wlimit p1) in
        if cur =? t_nonce t then (promote ns p2 [t_from t], 0) else (p2, 0).

(* handleAdminOP: 0 ok, 1 already present; the oldest request is dropped when the list is full *)
Definition receive_admin (p : pool) (id : N) : pool * N :=
  if existsb (N.eqb id) (p_ext p) then (p, 1)
  else
    let e := if Nat.leb (p_plimit p) (length (p_ext p)) then tl (p_ext p) else p_ext p in
    (mkPool (p_pending p) (p_waiting p) (p_all p) (e ++ [id]) (p_plimit p) (p_wlimit p), 0).

(* Reap(-1): administrative requests first, then every account's pending run in nonce order *)
Definition reap_all (p : pool) : list N * list (N * list tx) :=
  (p_ext p, p_pending p).

(* Update(height, txs): only the administrative list (and the broadcast list) is refreshed *)
Definition update (p : pool) (ids : list N) : pool :=
  mkPool (p_pending p) (p_waiting p) (p_all p) (all_del (p_ext p) ids) (p_plimit p) (p_wlimit p).

Definition flush (p : pool) : pool := mkPool [] [] [] [] (p_plimit p) (p_wlimit p).
Definition size (p : pool) : nat := (length (p_ext p) + length (p_all p))%nat.

(* GetPendingMaxNonce *)
Definition pending_max (ns : nonces) (p : pool) (a : N) : N :=
  match am_get (p_pending p) a with
  | Some m => match sm_max m with Some x => x + 1 | None => nonce_of ns a end
  | None => nonce_of ns a
  end.
Definition get_pending_max_nonce (ns : nonces) (p : pool) (a : N) : N :=
  match am_get (p_waiting p) a with
  | Some w =>
    let pm := pending_max ns p a in
    match sm_min w, sm_max w with
    | Some mn, Some mx => if pm =? mn then mx + 1 else pm
    | _, _ => pm
    end
  | None => pending_max ns p a
  end.

(* ---------- gemmill/mempool ---------- *)
Record mempool := mkMem { m_txs : list N; m_cache : list N }.
Definition mem_receive (m : mempool) (id : N) : mempool * bool :=
  if existsb (N.eqb id) (m_cache m) then (m, false)
  else (mkMem (m_txs m ++ [id]) (m_cache m ++ [id]), true).
Definition mem_reap (m : mempool) (n : Z) : list N :=
  if (n =? 0)%Z then [] else if (n <? 0)%Z then m_txs m else firstn (Z.to_nat n) (m_txs m).
(* Update: committed transactions leave the list AND the duplicate cache *)
Definition mem_update (m : mempool) (ids : list N) : mempool :=
  mkMem (all_del (m_txs m) ids) (all_del (m_cache m) ids).

(* gemmill/mempool under concurrent submitters.  ReceiveTx takes no lock: it looks the transaction up
   in the cache (no effect), runs the filters and the log write, and only then records it with an
   atomic test-and-set ([mem_receive] is exactly that second step).  Any number of goroutines run
   these two steps in any interleaving, together with Update from the consensus routine. *)
Inductive mev := MLookup (x : N) | MPush (x : N) | MUpdate (ids : list N).
Definition mev_step (m : mempool) (e : mev) : mempool :=
  match e with
  | MLookup _ => m
  | MPush x => fst (mem_receive m x)
  | MUpdate ids => mem_update m ids
  end.
Definition mev_run (evs : list mev) (m : mempool) : mempool := fold_left mev_step evs m.
Definition is_update (e : mev) : bool := match e with MUpdate _ => true | _ => false end.
(* how many of the pushes of [x] in the schedule were accepted *)
Fixpoint accepted (x : N) (evs : list mev) (m : mempool) : nat :=
  match evs with
  | [] => O
  | e :: t =>
    (match e with MPush y => if N.eqb y x && snd (mem_receive m y) then 1 else 0 | _ => 0 end + accepted x t (mev_step m e))%nat
  end.
