(* Executable model of the framed, authenticated-encryption byte stream of
   gemmill/p2p/secret_connection.go (Write / writeEncode, Read / readDecode after the F-20a
   repair, incr2Nonce).  Encryption is ideal: a sealed frame is the term [Sealed nonce plain];
   the receiver opens a frame only if its nonce is the expected one.  The adversary on the wire
   can pass, drop, reorder, replay, garble or truncate sealed frames but cannot make new ones -
   the channel content is a list of [wire] items referring to genuine frames.  No proofs here. *)
From Coq Require Import List NArith ZArith Bool.
From AnnVerif Require Import Base.Res Base.Bytes.
Import ListNotations.

Definition data_max : nat := 1024.

Fixpoint chunks_max_f (fuel : nat) (data : bytes) : list bytes :=
  match fuel with
  | O => []
  | S f => match data with
           | [] => []
           | _ => firstn data_max data :: chunks_max_f f (skipn data_max data)
           end
  end.
(* the chunks one Write call turns its argument into *)
Definition chunks_max (data : bytes) : list bytes := chunks_max_f (length data) data.

(* plaintext of a frame: 2-byte big-endian length, the chunk, zero padding up to 1024 *)
Definition mk_plain (chunk : bytes) : bytes :=
  let n := N.of_nat (length chunk) in
  [(n / 256)%N; (n mod 256)%N] ++ chunk ++ repeat 0%N (data_max - length chunk).

(* Read's parsing of an opened frame: None when the announced length exceeds 1024 *)
Definition parse_plain (p : bytes) : option bytes :=
  match p with
  | hi :: lo :: rest =>
    let n := N.to_nat (hi * 256 + lo)%N in
    if Nat.ltb data_max n then None else Some (firstn n rest)
  | _ => None
  end.

Record sealed := mkSealed { sl_nonce : N; sl_plain : bytes }.

(* sender: nonce counter; one Write *)
Fixpoint seal_chunks (nonce : N) (cs : list bytes) : list sealed * N :=
  match cs with
  | [] => ([], nonce)
  | c :: t => let '(fs, n') := seal_chunks (nonce + 2)%N t in (mkSealed nonce (mk_plain c) :: fs, n')
  end.
Definition sc_write (nonce : N) (data : bytes) : list sealed * N := seal_chunks nonce (chunks_max data).

Fixpoint sc_writes (nonce : N) (ws : list bytes) : list sealed * N :=
  match ws with
  | [] => ([], nonce)
  | w :: t => let '(f1, n1) := sc_write nonce w in let '(f2, n2) := sc_writes n1 t in (f1 ++ f2, n2)
  end.

(* what arrives on the wire *)
Inductive wire :=
| WFrame (f : sealed)     (* a sealed frame made by the sender (possibly an old one, out of place) *)
| WGarbled                (* a frame with any bit changed, or bytes the sender never sealed *)
| WTruncated.             (* the stream ends inside a frame *)

Record receiver := mkRecv { r_nonce : N; r_buf : bytes; r_in : list wire }.

Inductive rout :=
| RData (b : bytes)       (* Read returned these bytes (n = length, err = nil) *)
| RErr                    (* decryption / length / short-read error: the connection ends *)
| REof.                   (* clean end of stream at a frame boundary *)

(* one Read with a buffer of n > 0 bytes *)
Definition sc_read (st : receiver) (n : nat) : receiver * rout :=
  match r_buf st with
  | _ :: _ => (mkRecv (r_nonce st) (skipn n (r_buf st)) (r_in st), RData (firstn n (r_buf st)))
  | [] =>
    match r_in st with
    | [] => (st, REof)
    | WFrame f :: rest =>
      if N.eqb (sl_nonce f) (r_nonce st) then
        match parse_plain (sl_plain f) with
        | Some chunk => (mkRecv (r_nonce st + 2)%N (skipn n chunk) rest, RData (firstn n chunk))
        | None => (mkRecv (r_nonce st + 2)%N [] rest, RErr)
        end
      else (mkRecv (r_nonce st) [] rest, RErr)
    | WGarbled :: rest => (mkRecv (r_nonce st) [] rest, RErr)
    | WTruncated :: rest => (mkRecv (r_nonce st) [] [], RErr)
    end
  end.

(* reads with the given buffer sizes; stops at the first error or end of stream *)
Fixpoint sc_reads (st : receiver) (ns : list nat) : list rout :=
  match ns with
  | [] => []
  | n :: t => let '(st', o) := sc_read st n in
              match o with
              | RData _ => o :: sc_reads st' t
              | _ => [o]
              end
  end.

Fixpoint delivered (outs : list rout) : bytes :=
  match outs with
  | RData b :: t => b ++ delivered t
  | _ => []
  end.
