(* Executable model of the durable side of committing one block and of what a restarted node does
   with what it finds (gemmill/consensus/pbft/state.go finalizeCommit, gemmill/blockchain/store.go
   SaveBlock, gemmill/state/execution.go ApplyBlock, chain/app/evm/evm.go OnCommit,
   gemmill/blockchain/reactor.go NewBlockchainReactor, gemmill/angine.go RecoverFromCrash, and the
   re-commit of the interrupted height from the consensus log).

   The disk is what survives a process death: which block records exist, the block store's height
   descriptor, the intermediate and the final consensus state, which state tries and receipts the
   application has flushed, and the application's last-block record.  A commit is a list of
   writes; a crash keeps a prefix.  No proofs in this file. *)
From Coq Require Import List NArith Bool.
Import ListNotations.
Open Scope N_scope.

Inductive wr :=
| WMeta (h : N) | WPart (h : N) | WLastCommit (h : N) | WSeen (h : N) | WDesc (h : N)   (* SaveBlock *)
| WInter (h : N)                                                                       (* SaveIntermediate *)
| WTrie (h : N) | WLastBlock (h : N) (root : list N) | WReceipts (h : N)                              (* app OnCommit *)
| WState (h : N).                                                                      (* State.Save *)

Record disk := mkDisk {
  metas : list N; parts : list N; seens : list N;   (* heights with a block meta / all parts / a seen commit *)
  desc : N;                                         (* height the block store announces *)
  inter : N;                                        (* height of the intermediate consensus state *)
  tries : list N;                                   (* heights whose resulting state trie is flushed *)
  app : N;                                          (* the application's last-block record: height ... *)
  approot : list N;                                 (* ... and state root, modelled as the blocks applied, newest first *)
  receipts : list N;                                (* heights whose receipts are stored *)
  state : N                                         (* height of the saved consensus state *)
}.

Definition mem (x : N) (l : list N) : bool := existsb (N.eqb x) l.

Definition apply_write (d : disk) (w : wr) : disk :=
  match w with
  | WMeta h => mkDisk (h :: metas d) (parts d) (seens d) (desc d) (inter d) (tries d) (app d) (approot d) (receipts d) (state d)
  | WPart h => mkDisk (metas d) (h :: parts d) (seens d) (desc d) (inter d) (tries d) (app d) (approot d) (receipts d) (state d)
  | WLastCommit _ => d
  | WSeen h => mkDisk (metas d) (parts d) (h :: seens d) (desc d) (inter d) (tries d) (app d) (approot d) (receipts d) (state d)
  | WDesc h => mkDisk (metas d) (parts d) (seens d) h (inter d) (tries d) (app d) (approot d) (receipts d) (state d)
  | WInter h => mkDisk (metas d) (parts d) (seens d) (desc d) h (tries d) (app d) (approot d) (receipts d) (state d)
  | WTrie h => mkDisk (metas d) (parts d) (seens d) (desc d) (inter d) (h :: tries d) (app d) (approot d) (receipts d) (state d)
  | WLastBlock h r => mkDisk (metas d) (parts d) (seens d) (desc d) (inter d) (tries d) h r (receipts d) (state d)
  | WReceipts h => mkDisk (metas d) (parts d) (seens d) (desc d) (inter d) (tries d) (app d) (approot d) (h :: receipts d) (state d)
  | WState h => mkDisk (metas d) (parts d) (seens d) (desc d) (inter d) (tries d) (app d) (approot d) (receipts d) h
  end.
Definition apply_writes (d : disk) (ws : list wr) : disk := fold_left apply_write ws d.

(* the writes of SaveBlock and of ApplyBlock + Save, in the order the code issues them *)
Definition store_writes (h : N) : list wr := [WMeta h; WPart h; WLastCommit (h - 1); WSeen h; WDesc h].
(* the block executes on [base] and records the result *)
Definition exec_writes (h : N) (base : list N) : list wr :=
  [WInter h; WTrie h; WLastBlock h (h :: base); WReceipts h; WState h].
Definition commit_writes (h : N) (base : list N) : list wr := store_writes h ++ exec_writes h base.

(* the state root the chain determines: blocks h, h-1, .., 1 applied once each *)
Fixpoint chain_nat (n : nat) : list N := match n with O => [] | S m => N.of_nat (S m) :: chain_nat m end.
Definition chain (h : N) : list N := chain_nat (N.to_nat h).

(* ---- start of a node ---- *)
(* NewBlockchainReactor: a store one block ahead of the state is stepped back (in memory) *)
Definition store_view (d : disk) : N := if (state d + 1 =? desc d) then state d else desc d.

Inductive start := Panic | Ready (redo : list wr).

(* RecoverFromCrash on (store as stepped back, state, app): does the node survive its start?
   [fixed] selects the behaviour after repair 4b0525d; without it an application one block ahead
   of the stepped-back store is fatal. *)
Definition recover_ok (fixed : bool) (d : disk) : bool :=
  let s := store_view d in
  if negb (s =? state d) then false                        (* "state and store height mismatch" *)
  else if s =? 0 then true
  else if s <? app d then
    fixed && (app d =? s + 1) && mem (app d) (metas d)
  else if s =? app d then true                             (* synced, or intermediate state loaded *)
  else false.                                              (* application behind the state: never after a crash *)

(* what the node then does by itself: consensus at height state+1 finds the whole of that height in
   its log when the height's commit had begun, and commits it again - saving the block only if the
   (stepped-back) store does not have it *)
Definition start_node (fixed : bool) (d : disk) (h : N) : start :=
  if recover_ok fixed d then
    if state d + 1 =? h then
      (* after the repair the block runs on the root its header names - the result of the chain
         below it; before, on whatever the application last recorded *)
      Ready ((if store_view d <? h then store_writes h else []) ++
             exec_writes h (if fixed then chain (h - 1) else approot d))
    else Ready []
  else Panic.

(* a process lifetime that dies before write k of what it set out to do (k beyond the end: it
   finishes) *)
Definition lifetime (d : disk) (ws : list wr) (k : nat) : disk := apply_writes d (firstn k ws).

(* the first lifetime commits block h and dies before write k0; every further lifetime starts,
   recovers and dies before write k_i of its re-commit; the last one runs to the end *)
Fixpoint recoveries (fixed : bool) (d : disk) (h : N) (ks : list nat) : option disk :=
  match start_node fixed d h with
  | Panic => None
  | Ready ws =>
    match ks with
    | [] => Some (apply_writes d ws)
    | k :: ks' => recoveries fixed (lifetime d ws k) h ks'
    end
  end.
Definition crash_history (fixed : bool) (d : disk) (h : N) (k0 : nat) (ks : list nat) : option disk :=
  recoveries fixed (lifetime d (commit_writes h (approot d)) k0) h ks.

(* everything up to h is on disk and the three records agree on h *)
Definition complete_upto (d : disk) (h : N) : bool :=
  (desc d =? h) && (state d =? h) && (app d =? h) &&
  (if list_eq_dec N.eq_dec (approot d) (chain h) then true else false) &&
  forallb (fun i => let i := N.of_nat i in
                    mem i (metas d) && mem i (parts d) && mem i (seens d) && mem i (tries d) && mem i (receipts d))
          (seq 1 (N.to_nat h)).
