(* Peer admission as a state machine over the life of one node (gemmill/angine.go authByCA and
   assembleStateMachine, gemmill/p2p/switch.go AddPeerWithConnection, gemmill/p2p/peer.go
   peerHandshake): the node's validator set changes while it runs, and every handshake is decided
   against the set in force at that moment.  Keys are byte strings; signatures are ideal: a
   well-formed certificate over the peer's announced key verifies under exactly the key that made
   it ([CertBy]), or under none.  The refuse list, the configuration and the node's own key do not
   change during a run.  No proofs here. *)
From Coq Require Import List NArith Bool.
From AnnVerif Require Import Base.Bytes Model.Admission.
Import ListNotations.

Record cval := mkCV { cv_key : bytes; cv_ca : bool }.

Inductive cert :=
| CertBy (signer : bytes)   (* 64 bytes of hex that verify, over the announced key, under [signer] *)
| CertInvalid               (* well-formed, verifies under no key in use *)
| CertMalformed.            (* not a 64-byte hex string *)

Record hshake := mkHs {
  h_auth : bytes;           (* the key that signed the handshake challenge *)
  h_announced : bytes;      (* the key the node info announces, and the certificate is about *)
  h_cert : cert }.

Record acfg := mkACfg {
  ac_auth_by_ca : bool; ac_nonval_auth : bool; ac_self : bytes; ac_refuse : list bytes }.

Inductive aev := ASetVals (vs : list cval) | AHandshake (h : hshake).

Definition is_val (vs : list cval) (k : bytes) : bool := existsb (fun v => bytes_eqb (cv_key v) k) vs.
Definition is_ca (vs : list cval) (k : bytes) : bool := existsb (fun v => bytes_eqb (cv_key v) k && cv_ca v) vs.
Definition refused (c : acfg) (k : bytes) : bool := existsb (bytes_eqb k) (ac_refuse c).

(* authByCA against the set in force *)
Definition ca_check (c : acfg) (vs : list cval) (h : hshake) : bool :=
  if is_val vs (h_announced h) && negb (ac_nonval_auth c) then true
  else match h_cert h with
       | CertBy s => is_ca vs s
       | _ => false
       end.

Definition admit1 (c : acfg) (vs : list cval) (h : hshake) : adm_out :=
  if refused c (h_auth h) then RejRefused
  else if ac_auth_by_ca c && negb (ca_check c vs h) then RejCA
  else if negb (bytes_eqb (h_announced h) (h_auth h)) then RejKeyMismatch
  else if bytes_eqb (h_announced h) (ac_self c) then RejSelf
  else PeerAdmitted.

(* a run: the decisions, each with the handshake and the validator set it was taken under *)
Fixpoint arun (c : acfg) (vs : list cval) (evs : list aev) : list (list cval * hshake * adm_out) :=
  match evs with
  | [] => []
  | ASetVals vs' :: t => arun c vs' t
  | AHandshake h :: t => (vs, h, admit1 c vs h) :: arun c vs t
  end.

(* the validator set in force after a prefix of events *)
Fixpoint vals_after (vs : list cval) (evs : list aev) : list cval :=
  match evs with
  | [] => vs
  | ASetVals vs' :: t => vals_after vs' t
  | AHandshake _ :: t => vals_after vs t
  end.
