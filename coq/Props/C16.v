(* C16  Proposer selection is deterministic and proportional to voting power.
   Only property theorems (closed by [exact]), assumption reports and examples.
   Model: Model/ValSet.v (gemmill/types/validator_set.go, validator.go).  Determinism is built
   in: every operation of the model is a function of the validator list (and the two caches),
   so what the theorems add is which functions they are. *)
From Coq Require Import List NArith ZArith Lia Bool.
From AnnVerif Require Import Base.Res Base.Bytes Model.Merkle Model.ValSet
  Proofs.Fairness Proofs.ValSetProofs.
Import ListNotations.
Open Scope Z_scope.

(* (1) the set stays sorted by address - strictly, hence duplicate-free - under every operation *)
Theorem c16_new_sorted : forall vals vs, NoDup (map va_addr vals) -> new_valset vals = Ok vs -> sorted (vl vs).
Proof. exact new_valset_sorted. Qed.
Print Assumptions c16_new_sorted.
Theorem c16_add_sorted : forall vs x, sorted (vl vs) -> sorted (vl (fst (add vs x))).
Proof. exact add_sorted. Qed.
Print Assumptions c16_add_sorted.
Theorem c16_update_sorted : forall vs x, sorted (vl vs) -> sorted (vl (fst (update vs x))).
Proof. exact update_sorted. Qed.
Print Assumptions c16_update_sorted.
Theorem c16_remove_sorted : forall vs a, sorted (vl vs) -> sorted (vl (fst (remove vs a))).
Proof. exact remove_sorted. Qed.
Print Assumptions c16_remove_sorted.
Theorem c16_increment_sorted : forall vs t vs', increment vs t = Ok vs' -> sorted (vl vs) -> sorted (vl vs').
Proof. exact increment_sorted. Qed.
Print Assumptions c16_increment_sorted.
Theorem c16_sorted_nodup : forall l, sorted l -> NoDup (map va_addr l).
Proof. exact sorted_nodup. Qed.
Print Assumptions c16_sorted_nodup.

(* (2) skipping rounds selects the same proposer as going through every round *)
Theorem c16_batched_eq_singles : forall vs a b, 0 <= a -> 0 <= b ->
  increment vs (a + b) = match increment vs a with Ok vs' => increment vs' b | e => e end.
Proof. exact batched_eq_singles. Qed.
Print Assumptions c16_batched_eq_singles.

(* (3) proportional selection.  [at_step ps addrs m vs]: vs has powers ps, addresses addrs and the
   accumulators reached after m single increments from all-zero accumulators (NewValidatorSet on
   zero-accum validators gives m = 1: c16_new_at_step).  From there, for EVERY offset s, the next
   s + T single increments do not fail and, in the last T of them - i.e. in every window of
   T = total power consecutive selections - validator i is named exactly ps[i] times. *)
Theorem c16_fair_every_window :
  forall (ps : list Z) (addrs : list bytes), (forall i, 0 <= nth i ps 0) ->
  0 < sumZ ps -> sumZ ps * sumZ ps < 1152921504606846976 ->
  forall vs s, at_step ps addrs 0 vs ->
  exists sel vs',
    mrun vs (s + Z.to_nat (sumZ ps)) = Ok (map (fun i => Some (nth i addrs [])) sel, vs') /\
    length sel = (s + Z.to_nat (sumZ ps))%nat /\
    forall i, cnt (skipn s sel) i = nth i ps 0.
Proof. exact fair_every_window. Qed.
Print Assumptions c16_fair_every_window.

Theorem c16_new_at_step : forall vals vs,
  (forall v, In v vals -> va_accum v = 0) ->
  let ps := powers (sort_vals vals) in
  (forall i, 0 <= nth i ps 0) -> 0 < sumZ ps -> sumZ ps * sumZ ps < 1152921504606846976 ->
  new_valset vals = Ok vs -> at_step ps (map va_addr (sort_vals vals)) 1 vs.
Proof. exact new_valset_at_step. Qed.
Print Assumptions c16_new_at_step.

(* (4) full statements that are FALSE of the faithful model (and of the code); witnesses by
   computation.  F-16b: the proposer named by a set differs from the proposer named after the set
   went through persistence (the cache is not persisted and is recomputed as "greatest accum").
   F-16c: exact proportionality does not hold in windows that follow a membership change,
   because accumulators are not re-centred. *)
Definition ex3 : list val16 :=
  [mkVal [1]%N [] 1 0 false; mkVal [2]%N [] 3 0 false; mkVal [3]%N [] 5 0 false].
Theorem c16_roundtrip_proposer_refuted :
  exists vs, match new_valset ex3 with Ok v => v = vs | _ => False end /\
    match proposer vs, proposer (roundtrip vs) with
    | Ok (Some a, _), Ok (Some b, _) => a <> b
    | _, _ => False
    end.
Proof.
  eexists. split; [vm_compute; reflexivity|]. vm_compute. discriminate.
Qed.
Print Assumptions c16_roundtrip_proposer_refuted.

Definition props_of (r : res (list (option bytes) * valset)) : list (option bytes) :=
  match r with Ok (tr, _) => tr | _ => [] end.
Theorem c16_fair_after_change_refuted :
  exists vs0 vs1,
    new_valset [mkVal [1]%N [] 1 0 false; mkVal [2]%N [] 1 0 false; mkVal [3]%N [] 1 0 false; mkVal [4]%N [] 1 0 false] = Ok vs0 /\
    remove vs0 [4]%N = (vs1, true) /\
    (* total power is now 3, yet validator 2 is named twice (and validator 1 never) in the next three selections *)
    length (filter (fun o => match o with Some b => bytes_eqb [2]%N b | None => false end) (props_of (mrun vs1 3))) = 2%nat.
Proof.
  eexists. eexists. split; [vm_compute; reflexivity|]. split; [vm_compute; reflexivity|]. vm_compute. reflexivity.
Qed.
Print Assumptions c16_fair_after_change_refuted.

(* ---- non-vacuity: a concrete fresh set meets the hypotheses of (3) ---- *)
Example c16_nonvacuous :
  let ps := [1; 3; 5] in let addrs := [[1]; [2]; [3]]%N in
  at_step ps addrs 0 (mkVSet ex3 None 0) /\ (forall i, 0 <= nth i ps 0) /\ 0 < sumZ ps /\
  props_of (mrun (mkVSet ex3 None 0) 9) =
    map Some [[3]; [2]; [3]; [1]; [3]; [2]; [3]; [2]; [3]]%N.
Proof.
  split; [repeat split; left; reflexivity|]. split.
  - intros [|[|[|[|i]]]]; simpl; lia.
  - split; [reflexivity|]. vm_compute. reflexivity.
Qed.
