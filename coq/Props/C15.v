(* C15  Vote accounting: a 2/3 majority is reported exactly when it exists.
   Only the property theorems (closed by [exact]), their assumption reports and non-vacuity
   examples.  Model: Model/VoteSet.v (gemmill/types/vote_set.go, validator_set.go VerifyCommit,
   block.go Commit).  All theorems quantify over every validator set below the int64 boundary
   ([bounded]: non-negative powers, total < 2^62) and every sequence of AddVote / SetPeerMaj23
   operations with arbitrary (valid, duplicate, conflicting, mis-signed, mis-indexed, other-step)
   votes, starting from NewVoteSet. *)
From Coq Require Import List NArith ZArith Lia Bool.
From AnnVerif Require Import Base.Res Base.Bytes Model.VoteSet Proofs.PowerSum Proofs.VoteSetProofs.
Import ListNotations.
Open Scope Z_scope.

(* (1) soundness: a reported majority for b is backed by valid votes for exactly b from distinct
   validators (each index counted once) holding more than two thirds of the total power *)
Theorem c15_maj23_sound :
  forall vals H R T, bounded vals -> forall vs0, new_voteset H R T vals = Ok vs0 ->
  forall ops b, vs_maj23 (vs_run vs0 ops) = Some b ->
  two_thirds vals < pow_of vals (voted_for vals H R T (offered_of ops) b).
Proof. exact maj23_sound. Qed.
Print Assumptions c15_maj23_sound.

(* (2) completeness: when the validators whose primary (first valid) vote is for b hold more than
   two thirds, a majority is reported; and as soon as any tracked tally reaches the quorum *)
Theorem c15_maj23_complete :
  forall vals H R T, bounded vals -> forall vs0, new_voteset H R T vals = Ok vs0 ->
  forall ops b,
  two_thirds vals < pow_of vals (fun i => match nth i (vs_votes (vs_run vs0 ops)) None with
                                          | Some w => bid_eqb (v_bid w) b | None => false end) ->
  vs_maj23 (vs_run vs0 ops) <> None.
Proof. exact maj23_complete. Qed.
Print Assumptions c15_maj23_complete.

Theorem c15_maj23_complete_tally :
  forall vals H R T, bounded vals -> forall vs0, new_voteset H R T vals = Ok vs0 ->
  forall ops key bv, lookup key (vs_byblock (vs_run vs0 ops)) = Some bv -> two_thirds vals < bv_sum bv ->
  vs_maj23 (vs_run vs0 ops) <> None.
Proof. exact maj23_complete_tally. Qed.
Print Assumptions c15_maj23_complete_tally.

(* (3) stability: a reported majority never changes or disappears *)
Theorem c15_maj23_stable :
  forall vs0 ops more b, vs_maj23 (vs_run vs0 ops) = Some b -> vs_maj23 (vs_run vs0 (ops ++ more)) = Some b.
Proof. exact maj23_stable. Qed.
Print Assumptions c15_maj23_stable.

(* (4) each validator's power counts at most once, in the running sum and in every tally *)
Theorem c15_counted_once :
  forall vals H R T, bounded vals -> forall vs0, new_voteset H R T vals = Ok vs0 ->
  forall ops, let vs := vs_run vs0 ops in
  vs_sum vs = pow_of vals (fun i => is_some (nth i (vs_votes vs) None)) /\
  (forall key bv, lookup key (vs_byblock vs) = Some bv ->
     bv_sum bv = pow_of vals (fun i => is_some (nth i (bv_votes bv) None))) /\
  (has_two_thirds_any vs = true <-> two_thirds vals < pow_of vals (fun i => is_some (nth i (vs_votes vs) None))) /\
  (has_all vs = true <-> pow_of vals (fun i => is_some (nth i (vs_votes vs) None)) = pow_of vals (fun _ => true)).
Proof. exact counted_once. Qed.
Print Assumptions c15_counted_once.

(* (5) AddVote is total (no panic), only valid votes are added, rejected votes change nothing *)
Theorem c15_add_vote_total :
  forall vals H R T, bounded vals -> forall vs0, new_voteset H R T vals = Ok vs0 ->
  forall ops v, exists vs' a c, add_vote (vs_run vs0 ops) v = Ok (vs', a, c).
Proof. exact add_vote_total. Qed.
Print Assumptions c15_add_vote_total.

Theorem c15_added_vote_valid :
  forall vals H R T, bounded vals -> forall vs0, new_voteset H R T vals = Ok vs0 ->
  forall ops v vs' c, add_vote (vs_run vs0 ops) v = Ok (vs', true, c) -> valid vals H R T v.
Proof. exact added_vote_valid. Qed.
Print Assumptions c15_added_vote_valid.

Theorem c15_rejected_vote_noop :
  forall vals H R T, bounded vals -> forall vs0, new_voteset H R T vals = Ok vs0 ->
  forall ops v vs' a c, add_vote (vs_run vs0 ops) v = Ok (vs', a, c) ->
  (c = 1 \/ c = 2 \/ c = 3 \/ c = 4 \/ (c = 0 /\ a = false))%N -> vs' = vs_run vs0 ops.
Proof. exact rejected_vote_noop. Qed.
Print Assumptions c15_rejected_vote_noop.

(* (6) conflicting votes are reported as such *)
Theorem c15_conflict_reported :
  forall vals H R T, bounded vals -> forall vs0, new_voteset H R T vals = Ok vs0 ->
  forall ops v ex, let vs := vs_run vs0 ops in
  valid vals H R T v ->
  nth (Z.to_nat (v_index v)) (vs_votes vs) None = Some ex -> v_bid ex <> v_bid v ->
  get_vote vs (Z.to_nat (v_index v)) (bid_key (v_bid v)) = None ->
  exists vs' a, add_vote vs v = Ok (vs', a, 5%N).
Proof. exact conflict_reported. Qed.
Print Assumptions c15_conflict_reported.

(* (7) the commit assembled from a majority passes commit verification for that validator set *)
Theorem c15_make_commit_verifies :
  forall vals H R, bounded vals -> forall vs0, new_voteset H R 2%N vals = Ok vs0 ->
  forall ops b, vs_maj23 (vs_run vs0 ops) = Some b ->
  exists c, make_commit (vs_run vs0 ops) = Ok c /\ c_bid c = b /\ verify_commit vals b H c = Ok tt.
Proof. exact make_commit_verifies. Qed.
Print Assumptions c15_make_commit_verifies.

(* (8) commit verification is sound: it accepts only with > 2/3 of validly signed precommits of
   that height, one single round and exactly that block id, one per validator slot *)
Theorem c15_verify_commit_sound :
  forall vals b h c, bounded vals -> verify_commit vals b h c = Ok tt ->
  length (c_pre c) = length vals /\
  two_thirds vals <
    pow_of vals (fun i => match nth i (c_pre c) None with
                          | Some v => good_full b h (commit_round c) v | None => false end).
Proof. exact verify_commit_sound. Qed.
Print Assumptions c15_verify_commit_sound.

(* the block-id key is injective (repaired; the original key was not: F-15a) *)
Theorem c15_bid_key_injective : forall a b, bid_key a = bid_key b -> a = b.
Proof. exact bid_key_inj. Qed.
Print Assumptions c15_bid_key_injective.

Definition legacy_key (b : block_id) : bytes := b_hash b ++ enc_varint (b_total b) ++ enc_bs (b_phash b).
Example c15_legacy_key_collision :
  exists a b, a <> b /\ legacy_key a = legacy_key b.
Proof.
  exists (mkBid [] 0 [0; 0]%N), (mkBid [0; 1; 2]%N 0 []). split; [discriminate|]. vm_compute. reflexivity.
Qed.

(* ---- non-vacuity ---- *)
Definition ex_vals : list validator := [([1]%N, 1); ([2]%N, 1); ([3]%N, 1); ([4]%N, 1)].
Definition ex_bid := mkBid [7; 7]%N 1 [8]%N.
Definition ex_vote (i : Z) (a : N) := mkVote [a] i 5 0 2%N ex_bid [a; 99]%N true.
Example c15_nonvacuous :
  bounded ex_vals /\
  match new_voteset 5 0 2%N ex_vals with
  | Ok vs0 =>
    let ops := [OAdd (ex_vote 0 1); OAdd (ex_vote 2 3); OAdd (ex_vote 2 3); OAdd (ex_vote 3 4)] in
    vs_maj23 (vs_run vs0 ops) = Some ex_bid /\ two_thirds ex_vals = 2 /\
    pow_of ex_vals (voted_for ex_vals 5 0 2%N (offered_of ops) ex_bid) = 3
  | _ => False
  end.
Proof.
  split.
  - split; [repeat constructor; simpl; lia|vm_compute; reflexivity].
  - vm_compute. repeat split; reflexivity.
Qed.

(* beyond the boundary the Go arithmetic wraps: stated, excluded by [bounded] *)
Example c15_overflow_boundary : quorum [([1]%N, 4611686018427387904)] < 0.
Proof. vm_compute. reflexivity. Qed.
