(* C18  Codecs: round-trip, bounded robust decoding, injective sign-bytes.
   Only property theorems (closed by [exact]), assumption reports and examples.
   Models: Model/Wire.v (gemmill/go-wire reflect.go, int.go, byteslice.go, time.go over type
   descriptors that the harness derives from the real Go types by reflection on every run),
   Model/Rlp.v (eth/rlp), Model/SignBytes.v (gemmill/types canonical_json.go, signable.go).
   JSON (wire.JSONBytes / ReadJSON) is not modelled beyond the canonical sign-bytes; it is covered
   by the correspondence engine's round-trip monitors only (DESIGN.md, C18). *)
From Coq Require Import List NArith ZArith Lia Bool.
From AnnVerif Require Import Base.Res Base.Bytes Model.Wire Model.Rlp Model.SignBytes
  Proofs.WireProofs Proofs.RlpProofs Proofs.SignBytesProofs.
Import ListNotations.

(* ---- go-wire binary ---- *)
(* (1) every value a Go variable of a registered type can hold survives encode-then-decode, at
   any position in a stream, under every limit that admits its encoding (0 = none) *)
Theorem c18_wire_roundtrip :
  forall t v b lmt n rest, wf_ty t = true -> wf_val t v = true -> encode t v = Some b -> (0 <= n)%Z ->
  (lmt = 0 \/ n + Z.of_nat (length b) <= lmt)%Z ->
  Wire.decode t lmt n (b ++ rest) = Ok (v, (n + Z.of_nat (length b))%Z, rest).
Proof. exact (fun t => roundtrip_all t). Qed.
Print Assumptions c18_wire_roundtrip.

Theorem c18_wire_read_binary_roundtrip :
  forall t v b lmt, wf_ty t = true -> wf_val t v = true -> encode t v = Some b ->
  (lmt = 0 \/ Z.of_nat (length b) <= lmt)%Z -> read_binary t lmt b = Ok (v, Z.of_nat (length b)).
Proof. exact read_binary_roundtrip. Qed.
Print Assumptions c18_wire_read_binary_roundtrip.

(* (2) the encoding is a function of the value (deterministic by construction) and injective *)
Theorem c18_wire_encode_injective :
  forall t v1 v2 b, wf_ty t = true -> wf_val t v1 = true -> wf_val t v2 = true ->
  encode t v1 = Some b -> encode t v2 = Some b -> v1 = v2.
Proof. exact encode_injective. Qed.
Print Assumptions c18_wire_encode_injective.

(* (3) decoding arbitrary bytes under any limit returns a value or an error, never a panic *)
Theorem c18_wire_decode_never_panics :
  forall t lmt n bs w, Wire.decode t lmt n bs <> Panic w.
Proof. exact decode_never_panics. Qed.
Print Assumptions c18_wire_decode_never_panics.

(* (4) the running count is exactly the number of bytes consumed ... *)
Theorem c18_wire_count_is_consumption :
  forall t lmt n bs v n' r, Wire.decode t lmt n bs = Ok (v, n', r) ->
  exists c, bs = c ++ r /\ n' = (n + Z.of_nat (length c))%Z.
Proof. exact decode_consumed. Qed.
Print Assumptions c18_wire_count_is_consumption.

(* ... so a successful read under a limit consumed no more than the limit ... *)
Theorem c18_wire_within_limit :
  forall t lmt bs v n, lmt <> 0%Z -> read_binary t lmt bs = Ok (v, n) ->
  (n <= lmt)%Z /\ exists c r, bs = c ++ r /\ n = Z.of_nat (length c).
Proof. exact read_binary_within_limit. Qed.
Print Assumptions c18_wire_within_limit.

(* ... and the only allocation sized by the input (ReadByteSlice) is reached only with a length
   between 0 and the limit, whatever the input says *)
Theorem c18_wire_alloc_within_limit :
  forall lmt n bs len, lmt <> 0%Z -> read_bytes_alloc lmt n bs = Some len -> (0 <= len <= lmt)%Z.
Proof. exact alloc_within_limit. Qed.
Print Assumptions c18_wire_alloc_within_limit.
Theorem c18_wire_alloc_is_result_size :
  forall lmt n bs b n1 r, read_bytes lmt n bs = Ok (b, n1, r) -> read_bytes_alloc lmt n bs = Some (Z.of_nat (length b)).
Proof. exact read_bytes_ok_alloc. Qed.
Print Assumptions c18_wire_alloc_is_result_size.

(* ---- RLP ---- *)
(* (5) round trip on every item tree whose sizes fit 64 bits *)
Theorem c18_rlp_roundtrip : forall it, wf_item it -> Rlp.decode (Rlp.enc it) = Some it.
Proof. exact decode_encode. Qed.
Print Assumptions c18_rlp_roundtrip.

(* (6) the decoder accepts exactly the canonical encodings: whatever it accepts is the encoder's
   output for the value it returns.  Any decoder with properties (5) and (6) computes the same
   partial function, which is how "agrees with the reference implementation on every input" is
   carried: the reference is tied to this model by the same correspondence run. *)
Theorem c18_rlp_canonical : forall bs it, wfb bs -> Rlp.decode bs = Some it -> bs = Rlp.enc it.
Proof. exact decode_canonical. Qed.
Print Assumptions c18_rlp_canonical.

(* ---- canonical sign-bytes ---- *)
(* (7) two votes that share sign-bytes have the same chain id, block id, height, round and type *)
Theorem c18_vote_signbytes_injective :
  forall c1 c2 v1 v2, ascii_bytes c1 -> ascii_bytes c2 -> wf_bid (cv_bid v1) -> wf_bid (cv_bid v2) ->
  sign_bytes_vote c1 v1 = sign_bytes_vote c2 v2 -> c1 = c2 /\ vote_same v1 v2.
Proof. exact vote_injective. Qed.
Print Assumptions c18_vote_signbytes_injective.

Theorem c18_proposal_signbytes_injective :
  forall c1 c2 p1 p2, ascii_bytes c1 -> ascii_bytes c2 -> wf_bytes (cp_phash p1) -> wf_bytes (cp_phash p2) ->
  wf_bid (cp_pol p1) -> wf_bid (cp_pol p2) ->
  sign_bytes_proposal c1 p1 = sign_bytes_proposal c2 p2 -> c1 = c2 /\ proposal_same p1 p2.
Proof. exact proposal_injective. Qed.
Print Assumptions c18_proposal_signbytes_injective.

(* (8) a vote and a proposal never share sign-bytes *)
Theorem c18_vote_proposal_distinct :
  forall c1 c2 v p, ascii_bytes c1 -> ascii_bytes c2 -> sign_bytes_vote c1 v <> sign_bytes_proposal c2 p.
Proof. exact vote_proposal_distinct. Qed.
Print Assumptions c18_vote_proposal_distinct.

(* ---- non-vacuity: a vote-shaped type and value meet the hypotheses and round-trip ---- *)
Definition ex_vote_ty : ty :=
  TStruct [TBytes; TVar true; TFix 8 true; TFix 8 true; TFix 1 false;
           TStruct [TBytes; TStruct [TVar true; TBytes]];
           TIface [(1%N, TStruct [TArr 2]); (2%N, TStruct [TArr 3])]; TList (TPtr TTime)].
Definition ex_vote_val : val :=
  VL [VBs [1; 2; 3]%N; VZ (-7); VZ (-9223372036854775808); VZ 12; VZ 255;
      VL [VBs []; VL [VZ 3; VBs [9]%N]]; VI 2 (VL [VBs [7; 8; 9]%N]);
      VL [VSome (VZ 1569196800123000000); VNone]].
Example c18_nonvacuous :
  wf_ty ex_vote_ty = true /\ wf_val ex_vote_ty ex_vote_val = true /\
  match encode ex_vote_ty ex_vote_val with
  | Some b => read_binary ex_vote_ty (Z.of_nat (length b)) b = Ok (ex_vote_val, Z.of_nat (length b))
              /\ read_binary ex_vote_ty (Z.of_nat (length b) - 1) b = Err 4
  | None => False
  end /\
  read_binary ex_vote_ty 64 [8; 127; 255; 255; 255; 255; 255; 255; 255]%N = Err 4 /\
  read_bytes_alloc 0 0 [8; 127; 255; 255; 255; 255; 255; 255; 255]%N = Some 9223372036854775807%Z.
Proof. vm_compute. repeat split. Qed.
