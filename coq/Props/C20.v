(* C20  P2P transport is authenticated, ordered and intact; admission rules hold.
   Only property theorems (closed by [exact]), assumption reports and examples.
   Models: Model/SecretConn.v (p2p/secret_connection.go, ideal authenticated encryption),
   Model/MConn.v (p2p/connection.go Channel), Model/Admission.v (p2p/switch.go, p2p/peer.go,
   angine.go authByCA), Model/AdmitHist.v (the same decision as a state machine over the life of a
   node whose validator set changes). *)
From Coq Require Import List NArith ZArith Lia Bool.
From AnnVerif Require Import Base.Res Base.Bytes Model.SecretConn Model.MConn Model.Admission Model.AdmitHist
  Proofs.SecretConnProofs Proofs.MConnProofs Proofs.AdmitHistProofs.
Import ListNotations.

(* (1) over an untampered wire, for ANY sizes of writes and ANY positive read-buffer sizes, no
   read fails, the bytes read so far are a prefix of the bytes written, and once the end of the
   stream is reported everything written has been read *)
Theorem c20_stream_exact :
  forall n0 ws ns, Forall (fun n => (0 < n)%nat) ns ->
  let st0 := mkRecv n0 [] (map WFrame (fst (sc_writes n0 ws))) in
  let outs := sc_reads st0 ns in
  ~ In RErr outs /\
  exists rest, delivered outs ++ rest = concat ws /\ (In REof outs -> rest = []).
Proof. exact stream_exact. Qed.
Print Assumptions c20_stream_exact.

(* (2) tampering: the wire carries the first j sealed frames and then anything that is not
   frame j - another genuine frame (replay, reordering, a frame skipped), a modified frame, or a
   cut inside a frame.  Then no clean end of stream is ever reported and what is delivered is a
   prefix of the data of those first j frames; the first read that reaches the bad item fails. *)
Theorem c20_tamper_detected :
  forall n0 ws j w tail ns,
  let frames := fst (sc_writes n0 ws) in
  (j <= length frames)%nat ->
  (match w with WFrame f => In f frames /\ f <> nth j frames (mkSealed 0 []) | _ => True end) ->
  Forall (fun n => (0 < n)%nat) ns ->
  let st0 := mkRecv n0 [] (map WFrame (firstn j frames) ++ w :: tail) in
  let outs := sc_reads st0 ns in
  ~ In REof outs /\ exists rest, delivered outs ++ rest = concat (firstn j (concat (map chunks_max ws))).
Proof. exact tamper_detected. Qed.
Print Assumptions c20_tamper_detected.

Theorem c20_bad_item_fails :
  forall st n w rest, r_buf st = [] -> r_in st = w :: rest ->
  (match w with WFrame f => sl_nonce f <> r_nonce st | _ => True end) ->
  snd (sc_read st n) = RErr.
Proof. exact sc_read_wrong. Qed.
Print Assumptions c20_bad_item_fails.

(* (3) multiplexing: for every interleaving of the channels' packets that keeps each channel's
   own order, if every message fits its channel's capacity nothing fails and every channel
   delivers exactly its messages, complete and in order; a message above capacity is never
   delivered - the connection fails first *)
Theorem c20_channel_order :
  forall cap (msgs : N -> list bytes) (l : list packet),
  (forall c, proj c l = concat (map (packetise c) (msgs c))) ->
  (forall c, Forall (fun m => (length m <= cap c)%nat) (msgs c)) ->
  snd (recv_all cap rinit l) = false /\
  forall c, on_ch c (fst (recv_all cap rinit l)) = map (fun m => (c, m)) (msgs c).
Proof. exact channel_order. Qed.
Print Assumptions c20_channel_order.

Theorem c20_over_capacity_rejected :
  forall cap c msg, (cap c < length msg)%nat -> recv_all cap rinit (packetise c msg) = ([], true).
Proof. exact over_capacity_rejected. Qed.
Print Assumptions c20_over_capacity_rejected.

(* (4) admission: an admitted peer is not on the refuse list, announced the key that signed the
   handshake challenge, is not ourselves, and - when certificate-authority admission applies to
   it - carries a valid signature by a CURRENT authority; and the decision function is exactly
   that rule on the whole configuration matrix (640 configurations, by computation) *)
Theorem c20_admission_sound :
  forall i, admission i = PeerAdmitted ->
  a_refused i = false /\ a_key_match i = true /\ a_self i = false /\
  (a_auth_by_ca i = true ->
     (a_is_validator i = true /\ a_nonval_auth i = false) \/ (a_has_ca i = true /\ a_sig i = SigCurrentCA)).
Proof. exact admission_sound. Qed.
Print Assumptions c20_admission_sound.

Theorem c20_admission_matrix :
  forallb (fun i => Bool.eqb (match admission i with PeerAdmitted => true | _ => false end) (rule i)) all_inputs = true.
Proof. exact admission_matrix. Qed.
Print Assumptions c20_admission_matrix.

(* (5) admission over histories: whatever validator-set changes and handshakes a node has seen, a
   peer is admitted only if, under the validator set in force at the moment of its handshake, it
   is not refused, announced the key it authenticated with, is not the node itself and - where
   certificate-authority admission is on - is a validator exempt from it or holds a certificate
   made by a key that is an authority in that set; and earlier decisions have no bearing on later
   ones (a run after a prefix is the run from the set in force) *)
Theorem c20_history_admission_sound :
  forall c evs vs0 vs h, In (vs, h, PeerAdmitted) (arun c vs0 evs) ->
  (exists pre post, evs = pre ++ AHandshake h :: post /\ vs = vals_after vs0 pre) /\
  refused c (h_auth h) = false /\ h_announced h = h_auth h /\ h_announced h <> ac_self c /\
  (ac_auth_by_ca c = true ->
     (is_val vs (h_announced h) = true /\ ac_nonval_auth c = false) \/
     (exists s, h_cert h = CertBy s /\ is_ca vs s = true)).
Proof. exact history_admission_sound. Qed.
Print Assumptions c20_history_admission_sound.

Theorem c20_history_is_forgotten :
  forall c pre evs vs0, arun c vs0 (pre ++ evs) = arun c vs0 pre ++ arun c (vals_after vs0 pre) evs.
Proof. exact history_is_forgotten. Qed.
Print Assumptions c20_history_is_forgotten.

(* non-vacuity: a peer certified by authority [9] is admitted; [9] stays a validator but loses its
   authority; the same handshake is refused from then on *)
Example c20_history_nonvacuous :
  let c := mkACfg true true [1%N] [] in
  let h := mkHs [5%N] [5%N] (CertBy [9%N]) in
  map snd (arun c [] [ASetVals [mkCV [9%N] true; mkCV [8%N] false]; AHandshake h;
                      ASetVals [mkCV [9%N] false; mkCV [8%N] true]; AHandshake h])
  = [PeerAdmitted; RejCA].
Proof. vm_compute. reflexivity. Qed.

(* ---- non-vacuity ---- *)
Example c20_nonvacuous :
  let ws := [[1; 2; 3; 4; 5]; [6; 7]]%N in
  delivered (sc_reads (mkRecv 10 [] (map WFrame (fst (sc_writes 10 ws)))) [2; 2; 2; 9; 9]%nat) = [1; 2; 3; 4; 5; 6; 7]%N /\
  (* replaying frame 0 after frame 0: error, only frame 0's data delivered *)
  (let fs := fst (sc_writes 10 ws) in
   sc_reads (mkRecv 10 [] (WFrame (nth 0 fs (mkSealed 0 [])) :: WFrame (nth 0 fs (mkSealed 0 [])) :: [])) [9; 9]%nat
     = [RData [1; 2; 3; 4; 5]%N; RErr]) /\
  length all_inputs = 640%nat.
Proof. vm_compute. repeat split; reflexivity. Qed.
