(* C13  Fast sync applies only blocks justified by +2/3 commits; ends in same state.
   Only property theorems (closed by [exact]), assumption reports and examples.
   Model: Model/Sync.v - the block pool as at most one block per height with the peer it came from,
   the sync loop (peek two, verify the first with the last commit of the second under the
   validator set, pop and apply, or drop both peers), responses and peer removals in any order -
   on top of the C15 model of VerifyCommit.  The "blocksync" engine runs a complete node against
   scripted peers over the real channel and validates what the node stored against this model. *)
From Coq Require Import List NArith ZArith Bool.
From AnnVerif Require Import Base.Res Base.Bytes Model.VoteSet Model.Sync Proofs.PowerSum Proofs.VoteSetProofs Proofs.SyncProofs.
Import ListNotations.
Open Scope Z_scope.

(* (1) for every sequence of responses (from anyone, for any height, in any order, repeated),
   peer removals and sync-loop iterations: the applied blocks are heights 1, 2, .. in order and
   each one has a commit that VerifyCommit accepts for exactly its block id at its height *)
Theorem c13_only_justified_blocks_applied :
  forall vals es,
  let s := sync_run (sync0 vals) es in store_ok vals (s_store s) (s_height s).
Proof. exact sync_sound. Qed.
Print Assumptions c13_only_justified_blocks_applied.

(* (2) hence: validly signed precommits for exactly that block, at that height, of one round, from
   distinct validators holding more than two thirds of the voting power *)
Theorem c13_applied_block_has_two_thirds :
  forall vals es b, bounded vals -> In b (s_store (sync_run (sync0 vals) es)) ->
  exists c, length (c_pre c) = length vals /\
            two_thirds vals <
            pow_of vals (fun i => match nth i (c_pre c) None with
                                  | Some v => good_full (sb_id b) (sb_height b) (commit_round c) v
                                  | None => false end).
Proof. exact applied_block_has_two_thirds. Qed.
Print Assumptions c13_applied_block_has_two_thirds.

(* (3) with agreement (C01: at most one block id per height can gather such a commit) the applied
   chain is the one consensus decided, whatever the peers served *)
Theorem c13_applied_chain_is_the_decided_one :
  forall vals es (canon : Z -> block_id),
  (forall h id c, verify_commit vals id h c = Ok tt -> id = canon h) ->
  forall b, In b (s_store (sync_run (sync0 vals) es)) -> sb_id b = canon (sb_height b).
Proof. exact applied_chain_is_canonical. Qed.
Print Assumptions c13_applied_chain_is_the_decided_one.

(* (4) without a verifying commit on offer the height does not move *)
Theorem c13_no_commit_no_progress :
  forall s,
  (forall p1 f p2 sd, pool_get (s_pool s) (s_height s) = Some (p1, f) ->
                      pool_get (s_pool s) (s_height s + 1) = Some (p2, sd) ->
                      verify_commit (s_vals s) (sb_id f) (s_height s) (sb_last sd) <> Ok tt) ->
  s_height (sync_step s ETick) = s_height s /\ s_store (sync_step s ETick) = s_store s.
Proof. exact tick_needs_commit. Qed.
Print Assumptions c13_no_commit_no_progress.

(* ---- non-vacuity: three validators (powers 2, 1, 2); a forged block 1 arrives first and is
   thrown out with its peer, the genuine one is applied with two of three signatures ---- *)
Definition ex_vals : list validator := [([1%N], 2); ([2%N], 1); ([3%N], 2)].
Definition ex_id (n : N) : block_id := mkBid [n] 1 [n].
Definition ex_vote (i : Z) (h : Z) (id : block_id) : option vote := Some (mkVote [] i h 0 2 id [] true).
Definition ex_b1 := mkSB (ex_id 10) 1 (mkCommit (ex_id 0) []).
Definition ex_b1_forged := mkSB (ex_id 66) 1 (mkCommit (ex_id 0) []).
Definition ex_b2 := mkSB (ex_id 20) 2 (mkCommit (ex_id 10) [ex_vote 0 1 (ex_id 10); None; ex_vote 2 1 (ex_id 10)]).
Example c13_nonvacuous :
  let s := sync_run (sync0 ex_vals) [EResp 7 ex_b1_forged; EResp 1 ex_b2; ETick; EResp 1 ex_b1; EResp 1 ex_b2; ETick] in
  s_height s = 2 /\ s_store s = [ex_b1] /\
  s_store (sync_run (sync0 ex_vals) [EResp 7 ex_b1_forged; EResp 1 ex_b2; ETick]) = [].
Proof. vm_compute. repeat split. Qed.

(* (5) the loop as the code runs it - the commit check of a block and its removal from the pool are
   separate steps, and responses and peer removals happen in between (a removed peer's requester is
   emptied and may be filled by another peer's block for the same height): for EVERY interleaving
   the applied blocks are heights 1, 2, .. in order, each justified by a commit VerifyCommit accepts *)
Theorem c13_check_and_pop_interleaved :
  forall vals es, let s := s2_s (sync2_run (sync2_0 vals) es) in store_ok vals (s_store s) (s_height s).
Proof. exact sync2_sound. Qed.
Print Assumptions c13_check_and_pop_interleaved.

(* (6) the block id a commit carries for itself plays no part: only the precommits inside count *)
Theorem c13_commit_label_irrelevant :
  forall vals b h l1 l2 pre, verify_commit vals b h (mkCommit l1 pre) = verify_commit vals b h (mkCommit l2 pre).
Proof. exact commit_label_irrelevant. Qed.
Print Assumptions c13_commit_label_irrelevant.

(* non-vacuity: block 1 is checked; its peer is removed and a forged block 1 from another peer fills
   the emptied slot before the pop: what is applied is the block that was checked *)
Example c13_interleaved_nonvacuous :
  let t := sync2_run (sync2_0 ex_vals) [E2Resp 1 ex_b1; E2Resp 1 ex_b2; E2Check; E2Remove 1; E2Resp 7 ex_b1_forged; E2Pop] in
  s_store (s2_s t) = [ex_b1] /\ s_height (s2_s t) = 2 /\
  s2_checked (sync2_run (sync2_0 ex_vals) [E2Resp 1 ex_b1; E2Resp 1 ex_b2; E2Check]) = Some ex_b1 /\
  pool_get (s_pool (s2_s (sync2_run (sync2_0 ex_vals) [E2Resp 1 ex_b1; E2Resp 1 ex_b2; E2Check; E2Remove 1; E2Resp 7 ex_b1_forged]))) 1
    = Some (7%N, ex_b1_forged).
Proof. vm_compute. repeat split. Qed.
