(* C12  Liveness: with +2/3 honest and fair delivery every height terminates.
   Only property theorems (closed by [exact]) and assumption reports.
   Termination under fair delivery is a temporal property of the N-node system; what is proved
   here are the step-level facts it rests on, for every state and input of Model/Node.v: the node
   never blocks (its transition function is total: [handle] returns for every input, and returns
   Panic only where the code panics - the engine compares), every waiting step has its timeout
   scheduled when it is entered, heights and rounds never go back, and what was seen (majorities)
   is never lost, and a lock is released by a +2/3 prevote for something else in any later round up
   to the node's own - also one the node has left already (this version prevotes its locked block
   whatever is proposed, so this rule is what lets a height terminate once the others have moved
   on).  The temporal composition is not mechanised; the "consensus" engine checks it on
   the real code: after an arbitrary adversarial prefix, a fair suffix (everything delivered,
   reactor-style gossip, timeouts when idle) must bring every honest node past the next height
   (partial, DESIGN.md C12). *)
From Coq Require Import List NArith ZArith Lia Bool.
From AnnVerif Require Import Base.Res Base.Bytes Model.VoteSet Model.ValSet Model.Node Proofs.NodeProofs Proofs.PowerSum Proofs.Unlock Proofs.NoStaleLock Proofs.Decided.
Import ListNotations.
Open Scope Z_scope.

(* (1) entering a waiting step schedules its timeout *)
Theorem c12_propose_timeout_scheduled :
  forall h r n n' o, enter_propose h r n = Ok (n', o) ->
  negb (height n =? h) || (r <? round n) || ((round n =? r) && (3 <=? step n)) = false ->
  In (OTimeout h r 3) o /\ 3 <= step n' /\ round n' = r.
Proof. exact enter_propose_schedules. Qed.
Print Assumptions c12_propose_timeout_scheduled.
Theorem c12_prevote_wait_timeout_scheduled :
  forall h r n n' o, enter_prevote_wait h r n = Ok (n', o) ->
  negb (height n =? h) || (r <? round n) || ((round n =? r) && (5 <=? step n)) = false ->
  In (OTimeout h r 5) o /\ step n' = 5 /\ round n' = r.
Proof. exact enter_prevote_wait_schedules. Qed.
Print Assumptions c12_prevote_wait_timeout_scheduled.
Theorem c12_precommit_wait_timeout_scheduled :
  forall h r n n' o, enter_precommit_wait h r n = Ok (n', o) ->
  negb (height n =? h) || (r <? round n) || ((round n =? r) && (7 <=? step n)) = false ->
  In (OTimeout h r 7) o /\ step n' = 7 /\ round n' = r.
Proof. exact enter_precommit_wait_schedules. Qed.
Print Assumptions c12_precommit_wait_timeout_scheduled.
Theorem c12_commit_schedules_next_height :
  forall c h n n' o, finalize_commit c h n = Ok (n', o) -> height n' <> height n ->
  In (OTimeout (height n') 0 1) o /\ step n' = 1 /\ round n' = 0.
Proof. exact commit_schedules_next_height. Qed.
Print Assumptions c12_commit_schedules_next_height.

(* (2) progress is never undone: heights and rounds never go back and +2/3 majorities stay *)
Theorem c12_monotone :
  forall c ins n n', inv n -> run c ins n = Ok n' ->
  height n <= height n' /\ (height n' = height n -> round n <= round n' /\ hv_le (votes n) (votes n')).
Proof. exact run_monotone. Qed.
Print Assumptions c12_monotone.

(* (3) the lock-release rule: a prevote that completes +2/3 prevotes for something else than the
   locked block, in a round after the lock round and not after the node's round (a round the node
   has left included), leaves the node unlocked, or locked from that round on *)
Theorem c12_late_polka_releases_lock :
  forall c v peer n n' o hv code lb b,
  v_height v = height n -> v_type v = 1%N ->
  hv_add_vote (votes n) v peer = Ok (hv, true, code) ->
  lblock n = Some lb -> lround n < v_round v -> v_round v <= round n ->
  maj23 (hv_prevotes hv (v_round v)) = Some b -> hashes_to (Some lb) (b_hash b) = false ->
  add_vote_cs c v peer n = Ok (n', o) ->
  match lblock n' with None => True | Some _ => v_round v <= lround n' end.
Proof. exact late_polka_releases_lock. Qed.
Print Assumptions c12_late_polka_releases_lock.

(* non-vacuity: four validators; the node locks a block in round 0, is taken to round 3 by +2/3
   nil precommits of round 2, and then receives the nil prevotes of round 1 it had missed: the
   third one meets every premise of (3) and the node ends unlocked *)
Definition ux_a (k : N) : bytes := [k].
Definition ux_n0 : res node :=
  match new_valset [mkVal (ux_a 1) (ux_a 1) 1 0 false; mkVal (ux_a 2) (ux_a 2) 1 0 false;
                    mkVal (ux_a 3) (ux_a 3) 1 0 false; mkVal (ux_a 4) (ux_a 4) 1 0 false] with
  | Ok vs => init_node 1 vs None (Some (ux_a 1)) (mkSg 0 0 0 None) | _ => Panic 0 end.
Definition ux_B : blk := mkBlk [7%N] 1 [8%N] true.
Definition ux_vote (i : Z) (who : N) (t : N) (r : Z) (b : block_id) : vote :=
  mkVote (ux_a who) i 1 r t b [who; Z.to_N r; t] true.
Definition ux_inputs : list input :=
  [ITimeout 1 0 1; IProposal (mkProp 1 0 (-1) 1 [8%N]) (ux_a 1) []; IPart 1 0 0 ux_B true [];
   IVote (ux_vote 0 1 1 0 (blk_bid ux_B)) []; IVote (ux_vote 1 2 1 0 (blk_bid ux_B)) (ux_a 2);
   IVote (ux_vote 2 3 1 0 (blk_bid ux_B)) (ux_a 3);
   IVote (ux_vote 1 2 2 2 nil_bid) (ux_a 2); IVote (ux_vote 2 3 2 2 nil_bid) (ux_a 3); IVote (ux_vote 3 4 2 2 nil_bid) (ux_a 4);
   IVote (ux_vote 1 2 1 1 nil_bid) (ux_a 2); IVote (ux_vote 2 3 1 1 nil_bid) (ux_a 3)].
Definition ux_v : vote := ux_vote 3 4 1 1 nil_bid.
Example c12_release_nonvacuous :
  match ux_n0 with
  | Ok n0 =>
    match run (mkCfg false) ux_inputs n0 with
    | Ok n =>
      (v_height ux_v =? height n) && N.eqb (v_type ux_v) 1 && (round n =? 3) &&
      (match lblock n with Some lb => bytes_eqb (bk_hash lb) [7%N] | None => false end) &&
      (lround n <? v_round ux_v) && (v_round ux_v <=? round n) &&
      (match hv_add_vote (votes n) ux_v (ux_a 4) with
       | Ok (hv, true, _) => match maj23 (hv_prevotes hv (v_round ux_v)) with
                             | Some b => negb (hashes_to (lblock n) (b_hash b)) | None => false end
       | _ => false end) &&
      (match add_vote_cs (mkCfg false) ux_v (ux_a 4) n with
       | Ok (n', _) => match lblock n' with None => true | Some _ => false end
       | _ => false end)
    | _ => false end
  | _ => false end = true.
Proof. vm_compute. reflexivity. Qed.

(* (4) the same as an invariant of every state a node reaches from the start of a height (any
   validator set with bounded powers, any inputs, configuration without skip-commit), while it is
   in that height and has not decided (before every input it was below the commit step): if it is
   locked on a block since round lr, every +2/3 prevote majority it holds for a round in
   (lr, its round] is for that block - no lock is kept against a later polka the node knows of -
   and no vote set of a round ahead of the node holds +2/3 of any prevotes (it would have moved the
   node there).  A node in the commit step has +2/3 precommits for a block and only waits for it;
   since repair F-12a it does not follow later rounds any more.  The engines' monitor
   "lock-kept-against-later-polka" checks the first statement on the real ConsensusState after
   every input. *)
Theorem c12_no_stale_lock :
  forall (VS : list validator), bounded VS -> forall (h0 : Z) c vs lc me s ins n0 n,
  c_skip_commit c = false -> vals_of vs = VS ->
  init_node h0 vs lc me s = Ok n0 -> run c ins n0 = Ok n -> undecided_run c ins n0 -> height n = h0 ->
  (forall lb r b, lblock n = Some lb -> lround n < r -> r <= round n ->
     maj23 (hv_prevotes (votes n) r) = Some b -> hashes_to (Some lb) (b_hash b) = true) /\
  (forall r, round n < r -> any23 (hv_prevotes (votes n) r) = false).
Proof. exact no_stale_lock. Qed.
Print Assumptions c12_no_stale_lock.

(* non-vacuity: the scenario above up to the two missed nil prevotes is such a state - height 1,
   round 3, locked since round 0 - and its validator set is bounded *)
Example c12_no_stale_lock_nonvacuous :
  match ux_n0 with
  | Ok n0 =>
    match run (mkCfg false) ux_inputs n0 with
    | Ok n => (height n =? 1) && (round n =? 3) && (lround n =? 0) &&
              (match lblock n with Some _ => true | None => false end) &&
              (match maj23 (hv_prevotes (votes n) 1) with None => true | Some _ => false end)
    | _ => false end
  | _ => false end = true /\
  match ux_n0 with Ok n0 => undecided_run (mkCfg false) ux_inputs n0 | _ => False end.
Proof. split; [vm_compute; reflexivity|]. vm_compute. repeat split. Qed.

(* (5) a decided block is finalised (finding F-12a, repaired): a node in the commit step that still
   waits for the block used to be pulled into a later round by +2/3 of any prevotes of that round -
   old messages delivered late were enough - and the round change dropped the part set of the
   decided block for good.  Since the repair the three round-skip sites of addVote act only below
   the commit step, and no input takes a node out of the commit step within the height (proposals,
   parts, votes of any round, timeouts of rounds it has reached): `c12_decided_stays_decided`.  The witness of the defect, now as it should be (four validators: three
   precommits for block [7] in round 0, three late nil prevotes of round 1, then the block): the
   late prevotes leave the node where it is, and the block takes it to the next height either way. *)
Theorem c12_decided_stays_decided :
  forall c i n n' o, c_skip_commit c = false -> 8 <= step n ->
  (forall h r s, i = ITimeout h r s -> r <= round n) ->
  handle c i n = Ok (n', o) -> height n' = height n -> 8 <= step n'.
Proof. exact decided_stays. Qed.
Print Assumptions c12_decided_stays_decided.

Definition rx_vote (i : Z) (who : N) (t : N) (r : Z) (b : block_id) : vote :=
  mkVote (ux_a who) i 1 r t b [who; Z.to_N r; t] true.
Definition rx_decided : list input :=
  [ITimeout 1 0 1; IVote (rx_vote 1 2 2 0 (blk_bid ux_B)) (ux_a 2); IVote (rx_vote 2 3 2 0 (blk_bid ux_B)) (ux_a 3);
   IVote (rx_vote 3 4 2 0 (blk_bid ux_B)) (ux_a 4)].
Definition rx_late_prevotes : list input :=
  [IVote (rx_vote 1 2 1 1 nil_bid) (ux_a 2); IVote (rx_vote 2 3 1 1 nil_bid) (ux_a 3); IVote (rx_vote 3 4 1 1 nil_bid) (ux_a 4)].
Definition rx_block : list input := [IPart 1 0 0 ux_B true (ux_a 2)].
Definition rx_summary (r : res node) : option (Z * Z * Z * bool * bool) :=
  match r with
  | Ok n => Some (height n, round n, step n, match pparts n with Some _ => true | None => false end,
                  match maj23 (hv_precommits (votes n) 0) with Some _ => true | None => false end)
  | _ => None end.
Example c12_decided_block_is_finalised :
  exists n0, ux_n0 = Ok n0 /\
  rx_summary (run (mkCfg false) rx_decided n0) = Some (1, 0, 8, true, true) /\
  rx_summary (run (mkCfg false) (rx_decided ++ rx_block) n0) = Some (2, 0, 1, false, false) /\
  rx_summary (run (mkCfg false) (rx_decided ++ rx_late_prevotes) n0) = Some (1, 0, 8, true, true) /\
  rx_summary (run (mkCfg false) (rx_decided ++ rx_late_prevotes ++ rx_block) n0) = Some (2, 0, 1, false, false).
Proof.
  eexists. split; [vm_compute; reflexivity|]. repeat split; vm_compute; reflexivity.
Qed.
