(* C12  Liveness: with +2/3 honest and fair delivery every height terminates.
   Only property theorems (closed by [exact]) and assumption reports.
   Termination under fair delivery is a temporal property of the N-node system; what is proved
   here are the step-level facts it rests on, for every state and input of Model/Node.v: the node
   never blocks (its transition function is total: [handle] returns for every input, and returns
   Panic only where the code panics - the engine compares), every waiting step has its timeout
   scheduled when it is entered, heights and rounds never go back, and what was seen (majorities)
   is never lost.  The temporal composition is not mechanised; the "consensus" engine checks it on
   the real code: after an arbitrary adversarial prefix, a fair suffix (everything delivered,
   reactor-style gossip, timeouts when idle) must bring every honest node past the next height
   (partial, DESIGN.md C12). *)
From Coq Require Import List NArith ZArith Lia Bool.
From AnnVerif Require Import Base.Res Base.Bytes Model.VoteSet Model.ValSet Model.Node Proofs.NodeProofs.
Import ListNotations.
Open Scope Z_scope.

(* (1) entering a waiting step schedules its timeout *)
Theorem c12_propose_timeout_scheduled :
  forall h r n n' o, enter_propose h r n = Ok (n', o) ->
  negb (height n =? h) || (r <? round n) || ((round n =? r) && (3 <=? step n)) = false ->
  In (OTimeout h r 3) o /\ 3 <= step n' /\ round n' = r.
Proof. exact enter_propose_schedules. Qed.
Print Assumptions c12_propose_timeout_scheduled.
Theorem c12_prevote_wait_timeout_scheduled :
  forall h r n n' o, enter_prevote_wait h r n = Ok (n', o) ->
  negb (height n =? h) || (r <? round n) || ((round n =? r) && (5 <=? step n)) = false ->
  In (OTimeout h r 5) o /\ step n' = 5 /\ round n' = r.
Proof. exact enter_prevote_wait_schedules. Qed.
Print Assumptions c12_prevote_wait_timeout_scheduled.
Theorem c12_precommit_wait_timeout_scheduled :
  forall h r n n' o, enter_precommit_wait h r n = Ok (n', o) ->
  negb (height n =? h) || (r <? round n) || ((round n =? r) && (7 <=? step n)) = false ->
  In (OTimeout h r 7) o /\ step n' = 7 /\ round n' = r.
Proof. exact enter_precommit_wait_schedules. Qed.
Print Assumptions c12_precommit_wait_timeout_scheduled.
Theorem c12_commit_schedules_next_height :
  forall c h n n' o, finalize_commit c h n = Ok (n', o) -> height n' <> height n ->
  In (OTimeout (height n') 0 1) o /\ step n' = 1 /\ round n' = 0.
Proof. exact commit_schedules_next_height. Qed.
Print Assumptions c12_commit_schedules_next_height.

(* (2) progress is never undone: heights and rounds never go back and +2/3 majorities stay *)
Theorem c12_monotone :
  forall c ins n n', inv n -> run c ins n = Ok n' ->
  height n <= height n' /\ (height n' = height n -> round n <= round n' /\ hv_le (votes n) (votes n')).
Proof. exact run_monotone. Qed.
Print Assumptions c12_monotone.
