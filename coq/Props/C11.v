(* C11  State trie and state DB: root is a function of content; commit/revert exact.
   Only property theorems (closed by [exact]), assumption reports and examples.
   Model: Model/Trie.v, the insert / delete / get algorithms of eth/trie on nibble keys with the
   terminator, the compact key encoding and the node hashing with embedding of short nodes; the
   "trie" engine compares the model's node structure with the real trie's (dumped through a
   verif shim) after every write and reopen, its gets, and its roots (recomputed through the
   encodings the trie database holds), and runs the reference go-ethereum trie alongside.
   Proved: insertion and deletion keep the shape invariant of the code and change exactly the
   binding of their key; any history of updates and deletions answers like the map it describes;
   well-formed tries with equal content are equal (canonical form); hence the tree and the root
   are a function of the content alone, for every hash function.  The state database above the
   trie is modelled in Model/StateDB.v (journal versus snapshot copies).  Not modelled (partial):
   the storage caches and the node database (commit / reopen is exercised by the engines only),
   contract code, Merkle proofs (engine only). *)
From Coq Require Import List NArith ZArith Lia Bool.
From AnnVerif Require Import Base.Bytes Model.Rlp Model.Trie Proofs.TrieProofs Model.StateDB Proofs.StateProofs.
Import ListNotations.
Open Scope N_scope.

(* (1) inserting a binding into a well-formed trie gives a well-formed trie: short keys stay
   non-empty, no short node hangs under a short node, full nodes keep at least two children, and
   values stay behind the terminator *)
Theorem c11_insert_keeps_wellformed :
  forall n, wf n -> forall k v, vkey k -> v <> [] ->
  wf (insert n k (NVal v)) /\ keeps_full n (insert n k (NVal v)).
Proof. exact insert_wf. Qed.
Print Assumptions c11_insert_keeps_wellformed.

(* (2) insertion changes exactly the binding of its key: afterwards the key yields the new value
   and every other key yields what it yielded before - for every well-formed trie and all keys *)
Theorem c11_insert_changes_exactly_its_key :
  forall n, wf n -> forall k v q, vkey k -> v <> [] -> vkey q ->
  lookup (insert n k (NVal v)) q = if list_eq_dec N.eq_dec q k then Some v else lookup n q.
Proof. exact lookup_insert. Qed.
Print Assumptions c11_insert_changes_exactly_its_key.

(* (3) the same on byte strings, as Trie.Update / Trie.Get take them (empty trie included) *)
Theorem c11_get_after_update :
  forall n k v q, wfr n -> Forall is_byte k -> Forall is_byte q -> v <> [] ->
  get (update n k v) q = if list_eq_dec N.eq_dec q k then Some v else get n q.
Proof. exact get_update. Qed.
Print Assumptions c11_get_after_update.

(* (4) any history of insertions: the trie is well-formed and answers every key like the
   association list of the history (latest binding wins) - content, not history, decides every get *)
Theorem c11_inserts_answer_like_the_map :
  forall l q, Forall (fun kv => vkey (fst kv) /\ snd kv <> []) l -> vkey q ->
  wfr (insert_all l) /\ lookup (insert_all l) q = alist_get l q.
Proof. exact lookup_insert_all. Qed.
Print Assumptions c11_inserts_answer_like_the_map.

(* (5) canonical form: two well-formed tries (or empty ones) that answer every key alike are the
   same tree - the tree, and with it the root under any hash function, is a function of the content *)
Theorem c11_equal_content_equal_tree :
  forall n1 n2, wfr n1 -> wfr n2 -> (forall q, vkey q -> lookup n1 q = lookup n2 q) -> n1 = n2.
Proof. exact canonical_root. Qed.
Print Assumptions c11_equal_content_equal_tree.

(* (6) history independence for insertions: histories that bind the same keys to the same values
   build the same tree and the same root, whatever the order and whatever was overwritten *)
Theorem c11_insert_history_independent :
  forall l1 l2,
  Forall (fun kv => vkey (fst kv) /\ snd kv <> []) l1 ->
  Forall (fun kv => vkey (fst kv) /\ snd kv <> []) l2 ->
  (forall q, vkey q -> alist_get l1 q = alist_get l2 q) ->
  insert_all l1 = insert_all l2 /\ forall H, root_hash H (insert_all l1) = root_hash H (insert_all l2).
Proof. exact insert_history_independent. Qed.
Print Assumptions c11_insert_history_independent.

(* (7) deletion keeps the shape invariant (merging nodes as the code does) and removes exactly its
   key *)
Theorem c11_delete_removes_exactly_its_key :
  forall n, wf n -> forall k, vkey k ->
  wfr (delete n k) /\
  forall q, vkey q -> lookup (delete n k) q = if list_eq_dec N.eq_dec q k then None else lookup n q.
Proof. exact delete_spec. Qed.
Print Assumptions c11_delete_removes_exactly_its_key.

(* (8) any history of updates and deletions (an empty value deletes, as in Trie.TryUpdate): the
   trie is well-formed and answers every key like the map the history describes *)
Theorem c11_history_answers_like_the_map :
  forall ops q, Forall (fun kv => vkey (fst kv)) ops -> vkey q ->
  wfr (run_ops ops) /\ lookup (run_ops ops) q = map_get ops q.
Proof. exact run_ops_spec. Qed.
Print Assumptions c11_history_answers_like_the_map.

(* (9) the root is a function of the content alone: any two histories of inserts, updates and
   deletes that end in the same content give the same tree and the same root, whatever the hash *)
Theorem c11_root_is_a_function_of_content :
  forall ops1 ops2,
  Forall (fun kv => vkey (fst kv)) ops1 -> Forall (fun kv => vkey (fst kv)) ops2 ->
  (forall q, vkey q -> map_get ops1 q = map_get ops2 q) ->
  run_ops ops1 = run_ops ops2 /\ forall H, root_hash H (run_ops ops1) = root_hash H (run_ops ops2).
Proof. exact history_independent. Qed.
Print Assumptions c11_root_is_a_function_of_content.

(* ---- the state database above the trie (Model/StateDB.v) ---- *)

(* (10) the journal of undo entries the code keeps and the specification in which a snapshot is a
   copy of the whole state are in simulation on every sequence of operations (writes with
   get-or-create, CreateAccount, Suicide, nested Snapshot / RevertToSnapshot, Finalise): same
   accounts as far as any reader can tell, same dirty set, same valid snapshots *)
Theorem c11_journal_refines_copy : forall ops, R (c_run ops) (j_run ops).
Proof. exact journal_refines_copy. Qed.
Print Assumptions c11_journal_refines_copy.

(* (11) so every read (existence, nonce, balance, every storage slot) is the same under both *)
Theorem c11_reads_agree :
  forall ops a k,
  exists_ (j_w (j_run ops)) a = exists_ (c_w (c_run ops)) a /\
  nonce_ (j_w (j_run ops)) a = nonce_ (c_w (c_run ops)) a /\
  bal_ (j_w (j_run ops)) a = bal_ (c_w (c_run ops)) a /\
  state_ (j_w (j_run ops)) a k = state_ (c_w (c_run ops)) a k.
Proof. exact journal_reads_like_copy. Qed.
Print Assumptions c11_reads_agree.

(* (12) and in the specification reverting to a valid snapshot restores exactly the state (and the
   dirty set) at the snapshot *)
Theorem c11_revert_restores_snapshot :
  forall s id w d, find_snap (c_snaps s) id = Some (w, d) ->
  c_w (c_step s (ORevert id)) = w /\ c_dirty (c_step s (ORevert id)) = d.
Proof. exact copy_revert_restores. Qed.
Print Assumptions c11_revert_restores_snapshot.

(* ---- non-vacuity: three keys sharing prefixes, one being a prefix of another ---- *)
Definition ex_t1 : node := update (update (update NNil [171; 16] [1]) [171] [2; 2]) [171; 16; 1] [3].
Example c11_nonvacuous :
  get ex_t1 [171; 16] = Some [1] /\ get ex_t1 [171] = Some [2; 2] /\ get ex_t1 [171; 16; 1] = Some [3] /\
  get ex_t1 [171; 17] = None /\
  update (update ex_t1 [171] []) [171] [2; 2] = ex_t1 /\
  update (update (update NNil [171; 16; 1] [3]) [171] [2; 2]) [171; 16] [1] = ex_t1.
Proof. vm_compute. repeat split. Qed.

Example c11_statedb_nonvacuous :
  let ops := [OSetNonce 1 5; OSetState 1 0 7; OSnap; OSetState 1 0 0; OSuicide 1; OSnap; OCreate 1; OSetState 2 1 9;
              ORevert 1%nat; ORevert 0%nat] in
  let w := j_w (j_run ops) in
  (exists_ w 1, nonce_ w 1, state_ w 1 0, exists_ w 2) = (true, 5, 7, false) /\
  j_journal (j_run ops) = [JStore 1 0 0; JNonce 1 0; JObject 1 None].
Proof. vm_compute. split; reflexivity. Qed.
