(* C11  State trie and state DB: root is a function of content; commit/revert exact.
   Only property theorems (closed by [exact]), assumption reports and examples.
   Model: Model/Trie.v, the insert / delete / get algorithms of eth/trie on nibble keys with the
   terminator, the compact key encoding and the node hashing with embedding of short nodes; the
   "trie" engine compares the model's node structure with the real trie's (dumped through a
   verif shim) after every write and reopen, its gets, and its roots (recomputed through the
   encodings the trie database holds), and runs the reference go-ethereum trie alongside.
   Proved so far: the shape invariant of the code is preserved by insertion (full statement of
   canonicity - equal content gives equal tree - in DESIGN.md, C11; delete and lookup lemmas are
   being added: partial). *)
From Coq Require Import List NArith ZArith Lia Bool.
From AnnVerif Require Import Base.Bytes Model.Rlp Model.Trie Proofs.TrieProofs.
Import ListNotations.
Open Scope N_scope.

(* (1) inserting a binding into a well-formed trie gives a well-formed trie: short keys stay
   non-empty, no short node hangs under a short node, full nodes keep at least two children, and
   values stay behind the terminator *)
Theorem c11_insert_keeps_wellformed :
  forall n, wf n -> forall k v, vkey k -> v <> [] ->
  wf (insert n k (NVal v)) /\ keeps_full n (insert n k (NVal v)).
Proof. exact insert_wf. Qed.
Print Assumptions c11_insert_keeps_wellformed.

(* ---- non-vacuity: three keys sharing prefixes, one being a prefix of another ---- *)
Definition ex_t1 : node := update (update (update NNil [171; 16] [1]) [171] [2; 2]) [171; 16; 1] [3].
Example c11_nonvacuous :
  get ex_t1 [171; 16] = Some [1] /\ get ex_t1 [171] = Some [2; 2] /\ get ex_t1 [171; 16; 1] = Some [3] /\
  get ex_t1 [171; 17] = None /\
  update (update ex_t1 [171] []) [171] [2; 2] = ex_t1 /\
  update (update (update NNil [171; 16; 1] [3]) [171] [2; 2]) [171; 16] [1] = ex_t1.
Proof. vm_compute. repeat split. Qed.
