(* C05  Replicated execution is deterministic: hashes depend only on the chain.
   Only property theorems (closed by [exact]), assumption reports and examples.
   Model: Model/TxExec.v - the slot array of the parallel signature verifier (any routine settles
   any slot in any order, the executor walks the slots in block order and waits on unsettled
   ones), OnExecute rebuilding the working state from the committed one, the per-block
   accumulators behind the receipts hash, OnCommit, and a restart that keeps only what is
   persisted.  An application history is a list of blocks (each with the verifier schedule the
   goroutines happened to take) and restarts. *)
From Coq Require Import List NArith Bool.
From AnnVerif Require Import Model.TxExec Proofs.TxProofs.
Import ListNotations.
Open Scope N_scope.

(* (1) whatever the verifier schedule, the block executes as the sequential fold: every schedule
   that settles every slot gives exactly the sequential result ... *)
Theorem c05_parallel_is_sequential :
  forall s txs sched,
  fair_sched (length txs) sched = true -> exec_block_par sched s txs = Some (exec_block s txs).
Proof. exact parallel_is_sequential. Qed.
Print Assumptions c05_parallel_is_sequential.

(* ... and no schedule at all can produce another result (an unsettled slot makes the executor
   wait, never guess) *)
Theorem c05_no_schedule_gives_another_result :
  forall s txs sched r, exec_block_par sched s txs = Some r -> r = exec_block s txs.
Proof. exact parallel_prefix_safe. Qed.
Print Assumptions c05_no_schedule_gives_another_result.

(* (2) the verdicts, the application state and the receipts of every block are a function of the
   blocks alone: any history of blocks, restarts and schedules yields run_chain of its blocks *)
Theorem c05_outputs_depend_on_chain_only :
  forall h a, acc a = [] -> fair h = true ->
  exists a', run_app a h = Some (a', run_chain (committed a) (blocks_of h)) /\ acc a' = [].
Proof. exact run_app_chain. Qed.
Print Assumptions c05_outputs_depend_on_chain_only.

(* (3) two replicas with the same blocks agree on everything, whatever their lifetimes and
   schedules *)
Theorem c05_replicas_agree :
  forall h1 h2, blocks_of h1 = blocks_of h2 -> fair h1 = true -> fair h2 = true ->
  exists a1 a2 outs, run_app app0 h1 = Some (a1, outs) /\ run_app app0 h2 = Some (a2, outs).
Proof. exact replicas_agree. Qed.
Print Assumptions c05_replicas_agree.

(* (4) the hypothesis acc = [] is what OnCommit and a restart establish; without it the receipts
   depend on the lifetime (the shape of defect 126aaac, where one accumulator was not reset) *)
Theorem c05_accumulator_reset_is_needed :
  let t := mkTx 1 (Some 0) 0 true in
  let a := mkApp (mkSt [] []) (mkSt [] []) [7] in
  exists o1 o2 x y, run_app a [EBlock [t] [O]] = Some (x, o1) /\
                    run_app a [ERestart; EBlock [t] [O]] = Some (y, o2) /\ o1 <> o2.
Proof. exact acc_reset_needed. Qed.
Print Assumptions c05_accumulator_reset_is_needed.

(* ---- non-vacuity: two histories of the same two blocks, different schedules and a restart ---- *)
Definition ex_a := mkTx 1 (Some 0) 0 true.
Definition ex_b := mkTx 2 None 0 true.
Definition ex_c := mkTx 3 (Some 0) 1 true.
Example c05_nonvacuous :
  match run_app app0 [EBlock [ex_a; ex_b] [1; 0]%nat; ERestart; EBlock [ex_c] [0; 0]%nat],
        run_app app0 [EBlock [ex_a; ex_b] [0; 1; 1]%nat; EBlock [ex_c] [0]%nat] with
  | Some (_, o1), Some (_, o2) =>
    o1 = o2 /\ o1 = [([true; false], (mkSt [(0, 1)] [1], [1])); ([true], (mkSt [(0, 2)] [1; 3], [3]))]
  | _, _ => False
  end /\
  exec_block_par [1%nat] (mkSt [] []) [ex_a; ex_b] = None.
Proof. vm_compute. repeat split. Qed.
