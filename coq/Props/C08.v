(* C08  No peer input can crash or wedge an honest node.
   Only property theorems (closed by [exact]) and assumption reports.
   Models: Model/Wire.v for the bytes a peer sends (every registered message type is decoded by
   the decoder proved total in C18), Model/Node.v for the messages the reactor hands to the state
   machine.  The "peerinput" engine drives the real ConsensusReactor.Receive and state machine
   with hostile traffic in seven receiver situations and compares the state machine with the
   model after every message; panics inside Receive are recovered by MConnection.recvRoutine
   (the peer is dropped), panics in the state machine are violations.  Block sync, mempool and
   peer-exchange reactors and the goroutine structure are outside the model (partial). *)
From Coq Require Import List NArith ZArith Lia Bool.
From AnnVerif Require Import Base.Res Base.Bytes Model.Wire Model.VoteSet Model.ValSet Model.Node
  Proofs.WireProofs Proofs.NodeProofs Proofs.RobustProofs.
Import ListNotations.
Open Scope Z_scope.

(* (1) whatever bytes arrive, decoding them under the channel's limit returns a message or an
   error, never a panic *)
Theorem c08_decoding_never_panics : forall t lmt n bs w, Wire.decode t lmt n bs <> Panic w.
Proof. exact decode_never_panics. Qed.
Print Assumptions c08_decoding_never_panics.

(* (2) a proposal cannot make the node panic (negative and absurd part counts, POL rounds, heights
   included) as long as the node's own validator set has a proposer *)
Theorem c08_proposal_never_panics :
  forall p signer n w, set_proposal p signer n = Panic w -> forall a vs', proposer (vals n) <> Ok (Some a, vs').
Proof. exact proposal_never_panics. Qed.
Print Assumptions c08_proposal_never_panics.

(* (3) messages that fail validation leave the consensus state exactly as it was *)
Theorem c08_refused_proposal_changes_nothing :
  forall p signer n n' o code, set_proposal p signer n = Ok (n', o) -> In (OErr code) o -> same_but_cache n n'.
Proof. exact refused_proposal_changes_nothing. Qed.
Print Assumptions c08_refused_proposal_changes_nothing.
Theorem c08_ignored_proposal_changes_nothing :
  forall p signer n n' o, set_proposal p signer n = Ok (n', o) ->
  (negb (p_height p =? height n) || negb (p_round p =? round n) = true \/ 8 <= step n \/ proposal n <> None) -> n' = n.
Proof. exact ignored_proposal_changes_nothing. Qed.
Print Assumptions c08_ignored_proposal_changes_nothing.
Theorem c08_refused_part_changes_nothing :
  forall c h idx b ok verify n,
  (negb (height n =? h) = true \/ pparts n = None \/
   (exists ps, pparts n = Some ps /\ ((idx <? 0) || (ps_total ps <=? idx) = true \/ existsb (Z.eqb idx) (ps_have ps) = true \/
       verify && negb (Z.eqb (bk_total b) (ps_total ps) && bytes_eqb (bk_phash b) (ps_hash ps)) = true))) ->
  exists o, add_part c h idx b ok verify n = Ok (n, o).
Proof. exact refused_part_changes_nothing. Qed.
Print Assumptions c08_refused_part_changes_nothing.
Theorem c08_foreign_height_vote_changes_nothing :
  forall c v peer n, v_height v + 1 <> height n -> v_height v <> height n -> add_vote_cs c v peer n = Ok (n, [OErr 10]).
Proof. exact foreign_height_vote_changes_nothing. Qed.
Print Assumptions c08_foreign_height_vote_changes_nothing.

(* (4) a peer cannot make the node track more than two rounds beyond its own *)
Theorem c08_catchup_rounds_bounded :
  forall h v peer h' a c, peers_bounded h -> hv_add_vote h v peer = Ok (h', a, c) -> peers_bounded h'.
Proof. exact catchup_rounds_bounded. Qed.
Print Assumptions c08_catchup_rounds_bounded.

(* (5) whatever a peer sends, the lock invariant survives and nothing seen is lost *)
Theorem c08_any_input_keeps_invariant : forall c i n n' o, handle c i n = Ok (n', o) -> G n n'.
Proof. exact (fun c i => sat_handle c i). Qed.
Print Assumptions c08_any_input_keeps_invariant.
