(* C02  Every committed block is valid and carries a verifiable +2/3 commit.
   Only property theorems (closed by [exact]) and assumption reports.
   Models: Model/Node.v (finalizeCommit), Model/VoteSet.v (MakeCommit, VerifyCommit).  The verdict
   of state.ValidateBlock on a block is an input bit of the node model, computed by the harness
   with the real code; the header checks inside ValidateBlock (height, previous block id, app and
   receipts hashes, data / last-commit / validators hashes) are not modelled and are covered by
   the engine's monitors on every committed block of every node (partial, DESIGN.md C02). *)
From Coq Require Import List NArith ZArith Lia Bool.
From AnnVerif Require Import Base.Res Base.Bytes Model.VoteSet Model.ValSet Model.Node
  Proofs.PowerSum Proofs.VoteSetProofs Proofs.NodeProofs.
Import ListNotations.
Open Scope Z_scope.

(* (1) a node commits a block only if ValidateBlock accepted it, the complete block is at hand,
   and +2/3 of the height's voting power precommitted exactly its block id in one single round *)
Theorem c02_commit_needs_valid_block_and_quorum :
  forall c h n n' o hc hash, finalize_commit c h n = Ok (n', o) -> In (OCommit hc hash) o ->
  hc = height n /\ exists b pb, commit_at (votes n) (commit_round n) b /\ b_hash b = hash /\
     pblock n = Some pb /\ bk_hash pb = hash /\ bk_valid pb = true /\ has_header (pparts n) (b_total b) (b_phash b) = true
     /\ height n' = height n + 1.
Proof. exact commit_rule. Qed.
Print Assumptions c02_commit_needs_valid_block_and_quorum.

(* (2) the commit built from a precommit set with a +2/3 majority re-verifies, vote by vote,
   against the validator set (MakeCommit / VerifyCommit, from C15) *)
Theorem c02_made_commit_verifies :
  forall vals H R, bounded vals -> forall vs0, new_voteset H R 2 vals = Ok vs0 ->
  forall ops b, vs_maj23 (vs_run vs0 ops) = Some b ->
  exists c, make_commit (vs_run vs0 ops) = Ok c /\ c_bid c = b /\ verify_commit vals b H c = Ok tt.
Proof. exact make_commit_verifies. Qed.
Print Assumptions c02_made_commit_verifies.

(* (3) VerifyCommit accepts only commits in which validators holding more than two thirds of the
   power signed precommits for exactly this block id at this height in one round *)
Theorem c02_verify_commit_sound :
  forall vals b h c, bounded vals -> verify_commit vals b h c = Ok tt ->
  length (c_pre c) = length vals /\
  two_thirds vals < pow_of vals (fun i => match nth i (c_pre c) None with
                                          | Some v => good_full b h (VoteSet.commit_round c) v
                                          | None => false end).
Proof. exact verify_commit_sound. Qed.
Print Assumptions c02_verify_commit_sound.
