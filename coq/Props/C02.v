(* C02  Every committed block is valid and carries a verifiable +2/3 commit.
   Only property theorems (closed by [exact]) and assumption reports.
   Models: Model/Node.v (finalizeCommit), Model/VoteSet.v (MakeCommit, VerifyCommit) and
   Model/Validate.v (ConsensusState.ValidateBlock with Block.ValidateBasic, Block.ValidateCommit and
   Commit.ValidateBasic).  In the node model the verdict of ValidateBlock on a proposal block is an
   input bit, computed by the harness with the real code; Model/Validate.v models the verdict itself
   and the "validate" engine compares it with the real function on well-formed blocks and mutants.
   The three hash functions (Data.Hash, Commit.Hash, ValidatorSet.Hash) are not modelled: the
   model compares a header field with the value the real function returns for the part (so
   "equals the hash of what it commits to" is a statement about those oracle values; the Merkle
   functions themselves are C03's). *)
From Coq Require Import List NArith ZArith Lia Bool.
From AnnVerif Require Import Base.Res Base.Bytes Model.VoteSet Model.ValSet Model.Node
  Model.Validate Proofs.PowerSum Proofs.VoteSetProofs Proofs.NodeProofs Proofs.ValidateProofs.
Import ListNotations.
Open Scope Z_scope.

(* (1) a node commits a block only if ValidateBlock accepted it, the complete block is at hand,
   and +2/3 of the height's voting power precommitted exactly its block id in one single round *)
Theorem c02_commit_needs_valid_block_and_quorum :
  forall c h n n' o hc hash, finalize_commit c h n = Ok (n', o) -> In (OCommit hc hash) o ->
  hc = height n /\ exists b pb, commit_at (votes n) (commit_round n) b /\ b_hash b = hash /\
     pblock n = Some pb /\ bk_hash pb = hash /\ bk_valid pb = true /\ has_header (pparts n) (b_total b) (b_phash b) = true
     /\ height n' = height n + 1.
Proof. exact commit_rule. Qed.
Print Assumptions c02_commit_needs_valid_block_and_quorum.

(* (2) the commit built from a precommit set with a +2/3 majority re-verifies, vote by vote,
   against the validator set (MakeCommit / VerifyCommit, from C15) *)
Theorem c02_made_commit_verifies :
  forall vals H R, bounded vals -> forall vs0, new_voteset H R 2 vals = Ok vs0 ->
  forall ops b, vs_maj23 (vs_run vs0 ops) = Some b ->
  exists c, make_commit (vs_run vs0 ops) = Ok c /\ c_bid c = b /\ verify_commit vals b H c = Ok tt.
Proof. exact make_commit_verifies. Qed.
Print Assumptions c02_made_commit_verifies.

(* (3) VerifyCommit accepts only commits in which validators holding more than two thirds of the
   power signed precommits for exactly this block id at this height in one round *)
Theorem c02_verify_commit_sound :
  forall vals b h c, bounded vals -> verify_commit vals b h c = Ok tt ->
  length (c_pre c) = length vals /\
  two_thirds vals < pow_of vals (fun i => match nth i (c_pre c) None with
                                          | Some v => good_full b h (VoteSet.commit_round c) v
                                          | None => false end).
Proof. exact verify_commit_sound. Qed.
Print Assumptions c02_verify_commit_sound.

(* (4) what ValidateBlock's acceptance means: every part is there; chain id, height (previous + 1),
   previous block id, application hash and receipts hash are the state's; tx count, data hash and
   last-commit hash are those of the parts carried; the validators hash is the state's; the
   proposer is a validator; the first block carries no precommits, every later block a last commit
   that VerifyCommit accepts for the previous block id at the previous height under the previous
   validator set *)
Theorem c02_accepted_block :
  forall st b, validate st b = 0%N -> exists hd lc, accepted st b hd lc.
Proof. exact validate_sound. Qed.
Print Assumptions c02_accepted_block.

(* (5) ... so that more than two thirds of the previous validator set's power signed precommits
   for exactly the previous block id, at the previous height, in one single round, with valid
   signatures *)
Theorem c02_accepted_block_commit_quorum :
  forall st b hd lc, bounded (s_lastvals st) -> accepted st b hd lc -> hd_height hd <> 1 ->
  length (c_pre lc) = length (s_lastvals st) /\
  two_thirds (s_lastvals st) <
    pow_of (s_lastvals st) (fun i => match nth i (c_pre lc) None with
                                     | Some v => good_full (s_last st) (hd_height hd - 1) (VoteSet.commit_round lc) v
                                     | None => false end).
Proof. exact accepted_commit_quorum. Qed.
Print Assumptions c02_accepted_block_commit_quorum.

(* (6) chains of accepted blocks are linear, whatever ids and hashes applying them yields: heights
   step by exactly one and every block names the id, the application hash and the receipts hash
   its predecessor produced *)
Theorem c02_chain_linear :
  forall l st st', run_chain st l = Some st' ->
  linked (s_height st) (s_last st) (s_app st) (s_rcp st) l /\ s_height st' = s_height st + Z.of_nat (length l).
Proof. exact chain_linear. Qed.
Print Assumptions c02_chain_linear.

(* ---- non-vacuity: a first block and its successor (one validator) are accepted and form a chain;
   the successor with a foreign application hash is rejected with code 7 ---- *)
Definition vx_vals : list validator := [([1%N], 1)].
Definition vx_st0 : vstate := mkVState [99%N] 0 (mkBid [] 0 []) [5%N] [] vx_vals [42%N] vx_vals.
Definition vx_b1 : block :=
  mkBlock (Some (mkHeader [99%N] 1 0 (mkBid [] 0 []) [] [] [42%N] [5%N] [] [1%N])) (Some (0, [])) (Some (mkCommit (mkBid [] 0 []) [], [])).
Definition vx_id1 : block_id := mkBid [11%N] 1 [12%N].
Definition vx_pc : vote := mkVote [1%N] 0 1 0 2 vx_id1 [7%N] true.
Definition vx_b2 (app : bytes) : block :=
  mkBlock (Some (mkHeader [99%N] 2 1 vx_id1 [13%N] [14%N] [42%N] app [15%N] [1%N])) (Some (1, [14%N]))
          (Some (mkCommit vx_id1 [Some vx_pc], [13%N])).
Example c02_nonvacuous :
  validate vx_st0 vx_b1 = 0%N /\
  option_map s_height (run_chain vx_st0 [mkApplied vx_b1 vx_id1 [6%N] [15%N] vx_vals [42%N];
                                         mkApplied (vx_b2 [6%N]) (mkBid [21%N] 1 [22%N]) [8%N] [] vx_vals [42%N]]) = Some 2 /\
  validate (advance vx_st0 (mkHeader [99%N] 1 0 (mkBid [] 0 []) [] [] [42%N] [5%N] [] [1%N]) vx_id1 [6%N] [15%N] vx_vals [42%N]) (vx_b2 [5%N]) = 7%N.
Proof. vm_compute. repeat split; reflexivity. Qed.
