(* C10  EVM semantics conform to reference go-ethereum (Constantinople rules).
   Only property theorems (closed by [exact]) and assumption reports.
   Three ties to /repo.  (a) Model/EvmArith.v defines every pure instruction on 256-bit words; the
   theorems below show that these definitions are the mathematical operations of the
   specification; the "evmarith" engine compares the in-tree interpreter (and the reference
   interpreter) with the definitions on boundary and random operands.  (b) Model/EvmCore.v is an
   executable model of the interpreter loop for one contract frame: stack and its limit, memory in
   words, storage, logs, jump-destination analysis, PUSH/DUP/SWAP, call data and code copies,
   environment and block instructions, RETURN/REVERT/STOP/INVALID and undefined opcodes, on top of
   (a); the theorems below are its structural invariants for every program, environment and run
   length; the "evmcore" engine compares the in-tree interpreter with it on generated programs
   (outcome class, return data, storage, logs) and runs the reference interpreter on the same
   requests; Model/EvmWorld.v puts that machine into a world of accounts with message-call frames
   (CALL, CALLCODE, DELEGATECALL, STATICCALL with value transfer, revert of failed callees, static
   mode, return data; BALANCE, EXTCODESIZE, EXTCODECOPY), compared by the "evmworld" engine.
   (c) What (b) does not model - the precompiled contracts and
   gas - is compared with the reference only: the "evmdiff" engine runs
   generated programs on the in-tree and the reference go-ethereum v1.8.27 interpreters and compares
   outcome class, return data, post-state root and logs (partial, DESIGN.md C10). *)
From Coq Require Import ZArith Bool Lia List.
From AnnVerif Require Import Model.EvmArith Proofs.EvmProofs Model.EvmCore Proofs.EvmCoreProofs Proofs.EvmTyping Model.EvmWorld Proofs.EvmWorldProofs.
Import ListNotations.
Open Scope Z_scope.

Theorem c10_add : forall a b, op_add a b = (a + b) mod 2 ^ 256.
Proof. exact add_spec. Qed.
Theorem c10_sub : forall a b, op_sub a b = (a - b) mod 2 ^ 256.
Proof. exact sub_spec. Qed.
Theorem c10_mul : forall a b, op_mul a b = (a * b) mod 2 ^ 256.
Proof. exact mul_spec. Qed.
Theorem c10_addmod : forall a b n, n <> 0 -> op_addmod a b n = (a + b) mod n.
Proof. exact addmod_spec. Qed.
Theorem c10_mulmod : forall a b n, n <> 0 -> op_mulmod a b n = (a * b) mod n.
Proof. exact mulmod_spec. Qed.
Print Assumptions c10_mulmod.

(* EXP: square-and-multiply over the exponent's bits is exponentiation modulo 2^256 *)
Theorem c10_exp : forall base e, 0 <= e -> op_exp base e = (base ^ e) mod 2 ^ 256.
Proof. exact exp_spec. Qed.
Print Assumptions c10_exp.

(* SDIV / SMOD: truncated quotient and remainder of the two's-complement readings; the one
   overflowing quotient -2^255 / -1 wraps to -2^255 *)
Theorem c10_sdiv : forall a b, word a -> word b -> b <> 0 -> ~ (sgn a = - 2 ^ 255 /\ sgn b = -1) ->
  sgn (op_sdiv a b) = Z.quot (sgn a) (sgn b).
Proof. exact sdiv_signed. Qed.
Print Assumptions c10_sdiv.
Theorem c10_smod : forall a b, word a -> word b -> b <> 0 -> sgn (op_smod a b) = Z.rem (sgn a) (sgn b).
Proof. exact smod_signed. Qed.
Print Assumptions c10_smod.

(* SHL / SHR / SAR *)
Theorem c10_shl : forall s v, 0 <= s < 256 -> op_shl s v = (v * 2 ^ s) mod 2 ^ 256.
Proof. exact shl_spec. Qed.
Theorem c10_shr : forall s v, 0 <= s < 256 -> op_shr s v = v / 2 ^ s.
Proof. exact shr_spec. Qed.
Theorem c10_sar : forall s v, word v -> 0 <= s < 256 -> sgn (op_sar s v) = sgn v / 2 ^ s.
Proof. exact sar_signed. Qed.
Print Assumptions c10_sar.
Theorem c10_sar_saturates : forall s v, word v -> 256 <= s -> op_sar s v = if sgn v <? 0 then 2 ^ 256 - 1 else 0.
Proof. exact sar_saturates. Qed.

(* BYTE, and results stay words *)
Theorem c10_byte : forall th v, 0 <= th < 32 -> op_byte th v = (v / 256 ^ (31 - th)) mod 256.
Proof. exact byte_spec. Qed.
Theorem c10_div_word : forall a b, word a -> word b -> word (op_div a b).
Proof. exact div_word. Qed.
Theorem c10_mod_word : forall a b, word a -> word b -> word (op_mod a b).
Proof. exact mod_word. Qed.
Print Assumptions c10_mod_word.

(* non-vacuity: the corner cases *)
Example c10_corner_cases :
  op_sdiv (2 ^ 255) (2 ^ 256 - 1) = 2 ^ 255 /\ op_smod (2 ^ 256 - 7) 3 = 2 ^ 256 - 1 /\
  op_sar 255 (2 ^ 255) = 2 ^ 256 - 1 /\ op_signextend 0 255 = 2 ^ 256 - 1 /\ op_signextend 0 127 = 127 /\
  op_exp 2 256 = 0 /\ op_exp 3 (2 ^ 256 - 1) mod 2 = 1 /\ op_byte 31 258 = 2 /\ op_div 5 0 = 0 /\ op_addmod (2 ^ 256 - 1) 2 7 = (2 ^ 256 + 1) mod 7.
Proof. vm_compute. repeat split. Qed.

(* ---- the interpreter loop (Model/EvmCore.v) ---- *)

(* the stack never exceeds its limit, whatever the program does *)
Theorem c10_stack_limit :
  forall e code m m', step e code m = inl m' -> (length (m_stack m') <= 1024)%nat.
Proof. exact step_stack_bound. Qed.
Print Assumptions c10_stack_limit.

(* the program counter stays on instruction boundaries: operands of PUSH are never executed *)
Theorem c10_pc_on_instruction_boundaries :
  forall e code m m', step e code m = inl m' -> at_start code (m_pc m) -> at_start code (m_pc m').
Proof. exact step_at_start. Qed.
Print Assumptions c10_pc_on_instruction_boundaries.

(* a jump is taken only to a JUMPDEST byte that is an instruction of the code *)
Theorem c10_jump_lands_on_jumpdest :
  forall code d, valid_dest code d = true -> 0 <= d -> nth (Z.to_nat d) code 0 = 91 /\ at_start code (Z.to_nat d).
Proof. exact jump_lands_on_jumpdest. Qed.
Print Assumptions c10_jump_lands_on_jumpdest.

(* both hold in every state of every run from the start of a call *)
Theorem c10_run_invariant :
  forall fuel e code m, inv code m -> Forall (inv code) (states fuel e code m).
Proof. exact run_invariant. Qed.
Print Assumptions c10_run_invariant.
Theorem c10_initial_state : forall code store, inv code (init_state store).
Proof. exact init_inv. Qed.

(* non-vacuity: a counted loop that stores, a jump into PUSH data that fails, and the stack limit
   PUSH1 3; JUMPDEST; DUP1; PUSH1 0; SSTORE; PUSH1 1; SWAP1; SUB; DUP1; PUSH1 2; JUMPI; STOP *)
Definition cx_env : env := mkEnv 193 170 170 0 0 12648430 1000 300 7 10000000 [1; 2; 3] (fun _ => 0).
Definition cx_loop : list Z := [96; 3; 91; 128; 96; 0; 85; 96; 1; 144; 3; 128; 96; 2; 87; 0].
Definition cx_badjump : list Z := [96; 3; 86; 97; 91; 91; 0].   (* jumps to offset 3: the operand of the PUSH2 *)
Definition cx_overflow : list Z := [91; 88; 96; 0; 86].         (* JUMPDEST; PC; PUSH1 0; JUMP: one more word per turn *)
Example c10_core_nonvacuous :
  call 1000 cx_env cx_loop [] = OStop [] [(0, 1); (0, 2); (0, 3)] [] /\
  call 1000 cx_env cx_badjump [] = OFail /\
  call 4500 cx_env cx_overflow [] = OFail.
Proof. vm_compute. repeat split; reflexivity. Qed.

(* type safety: in an environment of words and bytes, every value the machine holds stays of its
   kind - stack entries, storage keys and values are 256-bit words, memory cells are bytes, memory
   stays within what the model sizes, the program counter within the code (plus a PUSH operand) -
   through every instruction (every pure instruction, SHA3 via Model/Keccak.v included) and so in
   every state of every run *)
Theorem c10_type_safety :
  forall e code m m', wf_env e code -> typed code m -> step e code m = inl m' -> typed code m'.
Proof. exact step_typed. Qed.
Print Assumptions c10_type_safety.
Theorem c10_type_safety_of_runs :
  forall fuel e code, wf_env e code -> forall m, typed code m -> Forall (typed code) (states fuel e code m).
Proof. exact run_typed. Qed.
Print Assumptions c10_type_safety_of_runs.
Theorem c10_every_result_is_a_word :
  forall op a b c r, eval op a b c = Some r -> word a -> word b -> word c -> word r.
Proof. exact eval_word. Qed.
Theorem c10_hash_is_a_word : forall msg, word (Keccak.keccak_word msg).
Proof. exact keccak_word_word. Qed.

(* ---- the machine across contracts (Model/EvmWorld.v) ---- *)

(* a frame in static mode - the callee of a STATICCALL and everything it calls in turn - leaves
   every account and the logs as they were, whatever its code does *)
Theorem c10_static_frames_change_nothing :
  forall b fuel ws fr l ws' o, f_static fr = true -> run_frame b fuel ws fr l = (ws', o) -> wsame ws' ws.
Proof. exact static_frame_changes_nothing. Qed.
Print Assumptions c10_static_frames_change_nothing.

(* non-vacuity: contract c1 calls contract c2 with value 5 and stores the flag; contract 2 stores its
   call value; then contract 1 STATICCALLs contract 2, whose SSTORE now fails (flag 0)
   c1: PUSH1 0 x4; PUSH1 5; PUSH1 2; PUSH1 0; CALL; PUSH1 1; SSTORE;  PUSH1 0 x4; PUSH1 2; PUSH1 0; STATICCALL; PUSH1 2; SSTORE; STOP
   c2: CALLVALUE; PUSH1 7; SSTORE; STOP *)
Definition wx_c1 : list Z := [96;0;96;0;96;0;96;0;96;5;96;194;96;0;241;96;1;85; 96;0;96;0;96;0;96;0;96;194;96;0;250;96;2;85;0].
Definition wx_c2 : list Z := [52;96;7;85;0].
Definition wx_world : world := [(193, mkAcc 1 100 wx_c1 []); (194, mkAcc 1 0 wx_c2 []); (170, mkAcc 5 1000 [] [])].
Definition wx_benv : benv := mkBenv 170 0 12648430 1000 300 7 10000000 (fun _ => 0).
Example c10_world_nonvacuous :
  match call_world 1000 wx_benv wx_world 193 0 [] with
  | (ws, FStop []) =>
    (a_balance (get_acc (ws_world ws) 193), a_balance (get_acc (ws_world ws) 194),
     sload (a_store (get_acc (ws_world ws) 193)) 1, sload (a_store (get_acc (ws_world ws) 193)) 2,
     sload (a_store (get_acc (ws_world ws) 194)) 7) = (95, 5, 1, 0, 5)
  | _ => False
  end.
Proof. vm_compute. reflexivity. Qed.
