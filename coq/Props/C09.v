(* C09  Transaction execution is total, atomic and replay-protected.
   Only property theorems (closed by [exact]), assumption reports and examples.
   Model: Model/TxExec.v - a transaction as the application sees it (does a sender recover, which
   one, the nonce, is the rest in order), the nonce check and increment, the snapshot / revert
   wrapper of genExecFun, the block as a fold.  The rest of the state is the log of applied
   transactions.  The "evmapp" engine executes generated blocks on the real application and
   compares every verdict and the senders' nonces after every block with this model. *)
From Coq Require Import List NArith Bool.
From AnnVerif Require Import Model.TxExec Proofs.TxProofs.
Import ListNotations.
Open Scope N_scope.

(* (1) totality: exec_checked / exec_block are total functions - every transaction gets a verdict *)
Theorem c09_every_transaction_gets_a_verdict :
  forall s txs, length (snd (exec_block s txs)) = length txs.
Proof. exact exec_block_length. Qed.
Print Assumptions c09_every_transaction_gets_a_verdict.

(* (2) atomicity, one transaction: reported invalid = state exactly as before (the nonce raised
   before the failure is taken back by the revert) *)
Theorem c09_invalid_leaves_state_unchanged :
  forall s t s', exec_checked s t = (s', false) -> s' = s.
Proof. exact exec_invalid_unchanged. Qed.
Print Assumptions c09_invalid_leaves_state_unchanged.

(* (3) atomicity, whole block: the state after a block is the state after the block with every
   invalid transaction left out - at any position, any number of them *)
Theorem c09_block_as_if_invalid_absent :
  forall s txs,
  let '(s', vs) := exec_block s txs in
  exec_block s (applied txs vs) = (s', map (fun _ => true) (applied txs vs)).
Proof. exact exec_block_filter. Qed.
Print Assumptions c09_block_as_if_invalid_absent.

Theorem c09_one_invalid_absent :
  forall s a t b,
  snd (exec_checked (fst (exec_block s a)) t) = false ->
  fst (exec_block s (a ++ t :: b)) = fst (exec_block s (a ++ b)).
Proof. exact exec_block_drop_invalid. Qed.
Print Assumptions c09_one_invalid_absent.

(* (4) the nonce rule: applied iff a sender recovers, the nonce equals the sender's current nonce
   and the rest is in order; applying raises exactly that nonce by exactly one *)
Theorem c09_applied_iff_current_nonce :
  forall s t,
  snd (exec_checked s t) = true <->
  exists a, t_sender t = Some a /\ nonce_of (nonces s) a = t_nonce t /\ t_ok t = true.
Proof. exact exec_valid_iff. Qed.
Print Assumptions c09_applied_iff_current_nonce.

Theorem c09_applied_raises_nonce_by_one :
  forall s t s' a,
  exec_checked s t = (s', true) -> t_sender t = Some a ->
  nonce_of (nonces s') a = nonce_of (nonces s) a + 1 /\
  (forall b, b <> a -> nonce_of (nonces s') b = nonce_of (nonces s) b).
Proof. exact exec_valid_nonce. Qed.
Print Assumptions c09_applied_raises_nonce_by_one.

(* (5) replay protection over any sequence of transactions (blocks concatenated): for every sender
   and nonce at most one transaction is ever applied, and the bytes of an applied transaction are
   invalid at every later position *)
Theorem c09_at_most_once :
  forall s txs a n, (count_applied a n txs (snd (exec_block s txs)) <= 1)%nat.
Proof. exact at_most_once. Qed.
Print Assumptions c09_at_most_once.

Theorem c09_replayed_transaction_is_invalid :
  forall s a t b,
  snd (exec_checked (fst (exec_block s a)) t) = true ->
  forall c, snd (exec_checked (fst (exec_block s (a ++ t :: b ++ c))) t) = false.
Proof. exact replayed_is_invalid. Qed.
Print Assumptions c09_replayed_transaction_is_invalid.

(* ---- non-vacuity: a block with a good transaction, a failing one at the right nonce (its nonce
   increment is reverted), a stale replay, an unrecoverable one and the next good one ---- *)
Definition ex_t0 := mkTx 10 (Some 1) 0 true.
Definition ex_bad := mkTx 11 (Some 1) 1 false.
Definition ex_nosig := mkTx 12 None 1 true.
Definition ex_t1 := mkTx 13 (Some 1) 1 true.
Example c09_nonvacuous :
  exec_block (mkSt [] []) [ex_t0; ex_bad; ex_t0; ex_nosig; ex_t1] =
  (mkSt [(1, 2)] [10; 13], [true; false; false; false; true]) /\
  run_tx (mkSt [(1, 1)] [10]) 1 ex_bad = (mkSt [(1, 2)] [10], false).
Proof. vm_compute. split; reflexivity. Qed.
