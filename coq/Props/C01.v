(* C01  Agreement: honest validators never commit different blocks at a height.
   Only property theorems (closed by [exact]) and assumption reports.
   Two layers.  (a) Proofs/Protocol.v: agreement for a height over the global history of signed
   votes, for any validator set, any power distribution and any Byzantine subset below one third,
   from four rules every honest validator obeys.  (b) Model/Node.v (the executable model of
   state.go that the "consensus" engine runs against the real ConsensusState): each rule is a
   theorem about every state and every input of the node.  The composition of (b) into (a) over
   an N-node system - that a +2/3 majority in a node's vote set is a +2/3 majority of the global
   history, by signature unforgeability - is argued in DESIGN.md and not mechanised
   (agreement_partial there); it is what the engine's fork monitor watches on the real code. *)
From Coq Require Import List NArith ZArith Lia Bool.
From AnnVerif Require Import Base.Res Base.Bytes Model.VoteSet Model.ValSet Model.Node
  Proofs.PowerSum Proofs.Protocol Proofs.NodeProofs.
Import ListNotations.
Open Scope Z_scope.

(* (1) agreement from the rules: two blocks that each gather +2/3 precommits in some round of the
   height are the same block *)
Theorem c01_agreement_from_rules :
  forall (val : Type) (val_eqb : val -> val -> bool), (forall a b, reflect (a = b) (val_eqb a b)) ->
  forall (blk : Type) (blk_eqb : blk -> blk -> bool), (forall a b, reflect (a = b) (blk_eqb a b)) ->
  forall (vals : list val) (power : val -> Z), (forall v, 0 <= power v) ->
  forall (byz : val -> bool), 3 * powS val vals power byz < total val vals power ->
  forall tr ra a rb b,
    R0 val blk byz tr -> R1 val blk byz tr -> R2 val val_eqb blk blk_eqb vals power byz tr ->
    R3 val val_eqb blk blk_eqb vals power byz tr ->
    commitq val val_eqb blk blk_eqb vals power tr ra a -> commitq val val_eqb blk blk_eqb vals power tr rb b -> a = b.
Proof. exact agreement. Qed.
Print Assumptions c01_agreement_from_rules.

(* (2) the quorum arithmetic the code uses (int64, truncating division): two sets with more than
   TotalVotingPower*2/3 each share more than a third of the total *)
Theorem c01_quorum_intersection :
  forall vals P Q, bounded vals -> two_thirds vals < pow_of vals P -> two_thirds vals < pow_of vals Q ->
  pow_of vals (fun _ => true) < 3 * pow_of vals (fun i => P i && Q i).
Proof. exact quorum_intersection. Qed.
Print Assumptions c01_quorum_intersection.

(* (3) R2 at the node: precommit for a block only on an own polka for it *)
Theorem c01_node_R2 :
  forall h r n n' o t r' b, enter_precommit h r n = Ok (n', o) -> In (OVote t r' b) o ->
  t = 2%N /\ r' = round n /\
  (b_hash b <> [] -> polka_at (votes n) r b /\ exists B, lblock n' = Some B /\ bk_hash B = b_hash b /\ lround n' = r).
Proof. exact precommit_rule. Qed.
Print Assumptions c01_node_R2.

(* (4) R3 at the node: a lock is left only with a later polka for something else in hand, and a
   locked node prevotes its locked block *)
Theorem c01_node_R3_lock :
  forall c ins n n' B, inv n -> run c ins n = Ok n' -> height n' = height n -> lblock n = Some B ->
  (exists B', lblock n' = Some B' /\ bk_hash B' = bk_hash B /\ lround n <= lround n') \/
  (exists r x, lround n < r <= round n' /\ polka_at (votes n') r x /\ hashes_to (Some B) (b_hash x) = false).
Proof. exact lock_kept_or_released. Qed.
Print Assumptions c01_node_R3_lock.

(* (5) R0/R1 at the node: its signer never goes back in height/round/step and signs a second time
   for the same height/round/step only the identical vote *)
Theorem c01_node_R01 :
  forall t b n n' o, sign_add_vote t b n = Ok (n', o) ->
  let st := if N.eqb t 1 then 2 else 3 in
  hrs_le (sg_h (sg n)) (sg_r (sg n)) (sg_s (sg n)) (sg_h (sg n')) (sg_r (sg n')) (sg_s (sg n')) /\
  (forall x, In x o -> x = OVote t (round n) b /\
     (hrs_lt (sg_h (sg n)) (sg_r (sg n)) (sg_s (sg n)) (height n) (round n) st = true \/
      (sg_h (sg n) = height n /\ sg_r (sg n) = round n /\ sg_s (sg n) = st /\ exists w, sg_what (sg n) = Some w /\ what_eqb (t, b) w = true))).
Proof. exact sign_add_vote_signer. Qed.
Print Assumptions c01_node_R01.

(* (6) a commit needs +2/3 precommits for the block in one round, and moves to the next height
   (whose block must name this one: chain linearity is part of block validation, C02) *)
Theorem c01_node_commit :
  forall c h n n' o hc hash, finalize_commit c h n = Ok (n', o) -> In (OCommit hc hash) o ->
  hc = height n /\ exists b pb, commit_at (votes n) (commit_round n) b /\ b_hash b = hash /\
     pblock n = Some pb /\ bk_hash pb = hash /\ bk_valid pb = true /\ has_header (pparts n) (b_total b) (b_phash b) = true
     /\ height n' = height n + 1.
Proof. exact commit_rule. Qed.
Print Assumptions c01_node_commit.
