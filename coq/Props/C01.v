(* C01  Agreement: honest validators never commit different blocks at a height.
   Only property theorems (closed by [exact]) and assumption reports.
   Two layers.  (a) Proofs/Protocol.v: agreement for a height over the global history of signed
   votes, for any validator set, any power distribution and any Byzantine subset below one third,
   from four rules every honest validator obeys.  (b) Model/Node.v (the executable model of
   state.go that the "consensus" engine runs against the real ConsensusState): each rule is a
   theorem about every state and every input of the node.  (c) Proofs/System.v composes them: a
   system of honest nodes (each the Model.Node machine) and Byzantine validators below one third
   of the power, on an arbitrary network (any order, loss, duplication, delay), with signatures
   idealised by one assumption - a vote that verifies under an honest validator's key and reaches
   a node was emitted by that validator's node ([admissible]).  Every reachable trace of signed
   votes satisfies the local forms of R0-R3 (from Proofs/Emit.v, SgWalk.v, CommitWalk.v, Backed.v:
   walks over every function of the node model), and any two commits of the height are for the
   same block hash ([c01_system_agreement]).  Not covered by (c): nodes that restart within the
   height (C07 shows replay restores the state the signer saw), the skip-commit configuration
   ([c_skip_commit c = false] is assumed), and timeouts for rounds the node has not reached
   ([input_ok]: the real ticker only delivers timeouts the node scheduled). *)
From Coq Require Import List NArith ZArith Lia Bool.
From AnnVerif Require Import Base.Res Base.Bytes Model.VoteSet Model.ValSet Model.Node
  Proofs.PowerSum Proofs.Protocol Proofs.NodeProofs Proofs.NodeBacked Proofs.Emit Proofs.SgWalk Proofs.CommitWalk Proofs.SignerDom Proofs.System.
Import ListNotations.
Open Scope Z_scope.

(* (1) agreement from the rules: two blocks that each gather +2/3 precommits in some round of the
   height are the same block *)
Theorem c01_agreement_from_rules :
  forall (val : Type) (val_eqb : val -> val -> bool), (forall a b, reflect (a = b) (val_eqb a b)) ->
  forall (blk : Type) (blk_eqb : blk -> blk -> bool), (forall a b, reflect (a = b) (blk_eqb a b)) ->
  forall (vals : list val) (power : val -> Z), (forall v, 0 <= power v) ->
  forall (byz : val -> bool), 3 * powS val vals power byz < total val vals power ->
  forall tr ra a rb b,
    R0 val blk byz tr -> R1 val blk byz tr -> R2 val val_eqb blk blk_eqb vals power byz tr ->
    R3 val val_eqb blk blk_eqb vals power byz tr ->
    commitq val val_eqb blk blk_eqb vals power tr ra a -> commitq val val_eqb blk blk_eqb vals power tr rb b -> a = b.
Proof. exact agreement. Qed.
Print Assumptions c01_agreement_from_rules.

(* (2) the quorum arithmetic the code uses (int64, truncating division): two sets with more than
   TotalVotingPower*2/3 each share more than a third of the total *)
Theorem c01_quorum_intersection :
  forall vals P Q, bounded vals -> two_thirds vals < pow_of vals P -> two_thirds vals < pow_of vals Q ->
  pow_of vals (fun _ => true) < 3 * pow_of vals (fun i => P i && Q i).
Proof. exact quorum_intersection. Qed.
Print Assumptions c01_quorum_intersection.

(* (3) R2 at the node: precommit for a block only on an own polka for it *)
Theorem c01_node_R2 :
  forall h r n n' o t r' b, enter_precommit h r n = Ok (n', o) -> In (OVote t r' b) o ->
  t = 2%N /\ r' = round n /\
  (b_hash b <> [] -> polka_at (votes n) r b /\ exists B, lblock n' = Some B /\ bk_hash B = b_hash b /\ lround n' = r).
Proof. exact precommit_rule. Qed.
Print Assumptions c01_node_R2.

(* (4) R3 at the node: a lock is left only with a later polka for something else in hand, and a
   locked node prevotes its locked block *)
Theorem c01_node_R3_lock :
  forall c ins n n' B, inv n -> run c ins n = Ok n' -> height n' = height n -> lblock n = Some B ->
  (exists B', lblock n' = Some B' /\ bk_hash B' = bk_hash B /\ lround n <= lround n') \/
  (exists r x, lround n < r <= round n' /\ polka_at (votes n') r x /\ hashes_to (Some B) (b_hash x) = false).
Proof. exact lock_kept_or_released. Qed.
Print Assumptions c01_node_R3_lock.

(* (5) R0/R1 at the node: its signer never goes back in height/round/step and signs a second time
   for the same height/round/step only the identical vote *)
Theorem c01_node_R01 :
  forall t b n n' o, sign_add_vote t b n = Ok (n', o) ->
  let st := if N.eqb t 1 then 2 else 3 in
  hrs_le (sg_h (sg n)) (sg_r (sg n)) (sg_s (sg n)) (sg_h (sg n')) (sg_r (sg n')) (sg_s (sg n')) /\
  (forall x, In x o -> x = OVote t (round n) b /\
     (hrs_lt (sg_h (sg n)) (sg_r (sg n)) (sg_s (sg n)) (height n) (round n) st = true \/
      (sg_h (sg n) = height n /\ sg_r (sg n) = round n /\ sg_s (sg n) = st /\ exists w, sg_what (sg n) = Some w /\ what_eqb (t, b) w = true))).
Proof. exact sign_add_vote_signer. Qed.
Print Assumptions c01_node_R01.

(* (6) a commit needs +2/3 precommits for the block in one round, and moves to the next height
   (whose block must name this one: chain linearity is part of block validation, C02) *)
Theorem c01_node_commit :
  forall c h n n' o hc hash, finalize_commit c h n = Ok (n', o) -> In (OCommit hc hash) o ->
  hc = height n /\ exists b pb, commit_at (votes n) (commit_round n) b /\ b_hash b = hash /\
     pblock n = Some pb /\ bk_hash pb = hash /\ bk_valid pb = true /\ has_header (pparts n) (b_total b) (b_phash b) = true
     /\ height n' = height n + 1.
Proof. exact commit_rule. Qed.
Print Assumptions c01_node_commit.

(* (7) the N-node system: every reachable state satisfies the system invariant - the trace obeys
   the local rules, every honest node's vote sets are made of votes in the trace, its signer
   dominates its own votes in the trace, and every observed commit rests on +2/3 precommits of
   one round in the trace *)
Theorem c01_system_invariant :
  forall (VS : list validator), bounded VS -> forall (h0 : Z) (c : cfg), c_skip_commit c = false ->
  forall (byz : nat -> bool) (S : System.sys), reachable VS h0 c byz S -> SysInv VS h0 c byz S.
Proof. exact reachable_SysInv. Qed.
Print Assumptions c01_system_invariant.

(* (8) agreement for the system: whatever the schedule, the network and the Byzantine validators
   (below one third of the power) do, two commits of the height - by any honest validators - are
   for the same block hash *)
Theorem c01_system_agreement :
  forall (VS : list validator), bounded VS -> forall (h0 : Z) (c : cfg), c_skip_commit c = false ->
  forall (byz : nat -> bool), 3 * pow_of VS byz < pow_of VS (fun _ => true) ->
  forall (S : System.sys) (i : nat) (a : bytes) (j : nat) (b : bytes),
    reachable VS h0 c byz S -> In (i, a) (cms S) -> In (j, b) (cms S) -> a = b.
Proof. exact system_agreement. Qed.
Print Assumptions c01_system_agreement.

(* (8b) crash and restart inside the height are steps of that system ([sstep_restart]: the node is
   re-initialised from its durable parts with the signer file as the crash left it and replays its
   log), so (7) and (8) hold whatever crashes and restarts honest nodes go through - because the
   replay of an intact log reproduces exactly the state before the crash and signs nothing afresh *)
Theorem c01_restart_is_identity :
  forall (c : cfg), c_skip_commit c = false ->
  forall h vs lc me s0 ins n0 n, init_node h vs lc me s0 = Ok n0 -> run c ins n0 = Ok n ->
  exists n0', init_node h vs lc me (sg n) = Ok n0' /\ run c ins n0' = Ok n.
Proof. exact restart_is_identity. Qed.
Print Assumptions c01_restart_is_identity.

(* (9) where a commit comes from: an OCommit output of one handled input rests on valid precommits
   for one block id, in one round, from more than two thirds of the power, all delivered to the node *)
Theorem c01_commit_backed :
  forall (VS : list validator), bounded VS -> forall (h0 : Z) (c : cfg) (i : input), c_skip_commit c = false ->
  forall off n n' o hc hash, node_ok VS h0 off n -> height n = h0 -> handle c i n = Ok (n', o) -> In (OCommit hc hash) o ->
    hc = h0 /\ hash <> [] /\ exists r b, b_hash b = hash /\ Qr VS (VoteSetProofs.voted_for VS h0 r 2%N (delivered_of i ++ off) b).
Proof. exact CW_handle. Qed.
Print Assumptions c01_commit_backed.

(* ---- non-vacuity: four validators of power 1, the fourth Byzantine; the three honest nodes run
   a round, the Byzantine validator's nil prevote, a false majority claim and a conflicting precommit
   are delivered, the second node crashes after its precommit and restarts from its log, all
   three commit the same block; a forged vote of an honest validator is not admissible ---- *)
Definition sx_a (k : N) : bytes := [k].
Definition sx_vs : valset :=
  match new_valset [mkVal (sx_a 1) (sx_a 1) 1 0 false; mkVal (sx_a 2) (sx_a 2) 1 0 false;
                    mkVal (sx_a 3) (sx_a 3) 1 0 false; mkVal (sx_a 4) (sx_a 4) 1 0 false] with
  | Ok vs => vs | _ => mkVSet [] None 0 end.
Definition sx_VS : list validator := Eval vm_compute in vals_of sx_vs.
Definition sx_byz (i : nat) : bool := negb (Nat.ltb i 3).
Definition sx_node (i : nat) : node :=
  match init_node 1 sx_vs None (Some (sx_a (N.of_nat (i + 1)))) (mkSg 0 0 0 None) with
  | Ok n => n
  | _ => mkNode 0 0 0 sx_vs sx_vs None None None 0 None (mkHvs 0 [] 0 [] []) 0 None None (mkSg 0 0 0 None)
  end.
Definition sx_S0 : System.sys :=
  mkSys sx_node (fun _ => []) (fun _ => []) [] [] (fun i => (sx_vs, None, Some (sx_a (N.of_nat (i + 1))))) (fun _ => Some []).
Definition sx_B : Node.blk := mkBlk [7%N] 1 [8%N] true.
Definition sx_B' : Node.blk := mkBlk [9%N] 1 [8%N] true.
Definition sx_vote (i : Z) (t : N) (r : Z) (b : block_id) : VoteSet.vote :=
  mkVote (sx_a (Z.to_N (i + 1))) i 1 r t b [Z.to_N i; Z.to_N r; t] true.
Definition sx_script : list sevent :=
  flat_map (fun j => [EIn j (ITimeout 1 0 1); EIn j (IProposal (mkProp 1 0 (-1) 1 [8%N]) (sx_a 1) (sx_a 1));
                      EIn j (IPart 1 0 0 sx_B true (match j with O => [] | _ => sx_a 1 end))]) [0; 1; 2]%nat
  ++ [EIn 0%nat (IVote (sx_vote 3 1 0 nil_bid) (sx_a 4)); EMaj 2%nat 0 1 (sx_a 4) (blk_bid sx_B')]
  ++ flat_map (fun j => map (fun k => EIn j (IVote (sx_vote k 1 0 (blk_bid sx_B)) (sx_a (Z.to_N (k + 1))))) [0; 1; 2]) [0; 1; 2]%nat
  ++ [ERestart 1%nat; EIn 1%nat (IVote (sx_vote 3 2 0 (blk_bid sx_B')) (sx_a 4))]
  ++ flat_map (fun j => map (fun k => EIn j (IVote (sx_vote k 2 0 (blk_bid sx_B)) (sx_a (Z.to_N (k + 1))))) [0; 1; 2]) [0; 1; 2]%nat.
Notation sx_final := (exec sx_VS 1 (mkCfg false) sx_byz sx_S0 sx_script) (only parsing).

Example c01_system_premises : bounded sx_VS /\ 3 * pow_of sx_VS sx_byz < pow_of sx_VS (fun _ => true) /\ init_sys sx_VS 1 sx_byz sx_S0.
Proof.
  split; [split; [repeat constructor; cbn; lia|vm_compute; reflexivity]|]. split; [vm_compute; reflexivity|].
  split; [reflexivity|]. split; [reflexivity|]. intros i Hi. split; [reflexivity|]. split; [reflexivity|]. split; [reflexivity|].
  exists sx_vs, None, (Some (sx_a (N.of_nat (i + 1)))), (mkSg 0 0 0 None).
  split; [reflexivity|]. split; [|split; [vm_compute; reflexivity|cbn; lia]].
  cbn [System.st sx_S0]. unfold sx_node, init_node. destruct (new_hvs 1 (vals_of sx_vs)) eqn:E; [reflexivity|vm_compute in E; discriminate..].
Qed.
Example c01_system_nonvacuous :
  exists S, reachable sx_VS 1 (mkCfg false) sx_byz S /\
    cms S = [(2%nat, [7%N]); (1%nat, [7%N]); (0%nat, [7%N])] /\ length (System.tr S) = 8%nat /\
    map (fun i => height (System.st S i)) [0; 1; 2]%nat = [2; 2; 2].
Proof.
  assert (H : option_map (fun S => (cms S, length (System.tr S), map (fun i => height (System.st S i)) [0; 1; 2]%nat)) sx_final
              = Some ([(2%nat, [7%N]); (1%nat, [7%N]); (0%nat, [7%N])], 8%nat, [2; 2; 2])) by (vm_compute; reflexivity).
  destruct sx_final as [S|] eqn:E; [|discriminate H].
  exists S. split.
  - exact (exec_reachable sx_VS 1 (mkCfg false) eq_refl sx_byz sx_script sx_S0 S (reach_init _ _ _ _ _ (proj2 (proj2 c01_system_premises))) E).
  - unfold option_map in H. injection H as H1 H2 H3 H4 H5. split; [exact H1|split; [exact H2|cbn [map]; rewrite H3, H4, H5; reflexivity]].
Qed.
Example c01_forged_vote_not_admissible :
  exec sx_VS 1 (mkCfg false) sx_byz sx_S0 [EIn 0%nat (IVote (sx_vote 1 1 0 (blk_bid sx_B)) (sx_a 2))] = None.
Proof. vm_compute. reflexivity. Qed.
