(* C06  Crash-atomic commit: restart after any crash converges to the uncrashed result.
   Only property theorems (closed by [exact]), assumption reports and examples.
   Model: Model/Commit.v - the durable writes of one commit in the order the code issues them
   (block meta, parts, previous commit, seen commit, store descriptor | intermediate state, state
   trie, application last-block record, receipts, final state), a crash as a surviving prefix,
   the start of a node on what survived (the blockchain reactor stepping the store back, the
   sanity checks of RecoverFromCrash, consensus re-committing the interrupted height from its
   log), and any number of further crashes inside the recovery.  The "crash" engine kills a real
   node at every such write and compares write order and the heights the restarted node sees
   with this model. *)
From Coq Require Import List NArith Bool.
From AnnVerif Require Import Model.Commit Proofs.CommitProofs.
Import ListNotations.
Open Scope N_scope.

(* (1) for every height, every disk complete below it, every crash point k0 of the commit and
   every sequence ks of crash points of the recoveries that follow: every start succeeds (no sanity
   panic) and the node ends with store, state and application at the new height, every record of
   every height on disk, and the application state = the blocks 1..h applied once each, in order *)
Theorem c06_crash_recovery_converges :
  forall d h k0 ks, 1 <= h -> Complete d (h - 1) ->
  exists d', crash_history true d h k0 ks = Some d' /\ Complete d' h.
Proof. exact crash_recovery. Qed.
Print Assumptions c06_crash_recovery_converges.

(* (2) the uncrashed commit reaches the same description: what (1) converges to is the uncrashed
   result *)
Theorem c06_uncrashed_commit :
  forall d h, 1 <= h -> Complete d (h - 1) -> Complete (apply_writes d (commit_writes h (approot d))) h.
Proof. exact commit_complete. Qed.
Print Assumptions c06_uncrashed_commit.

(* (3) at every crash point and after every partial recovery the disk satisfies the invariant the
   start-up logic relies on (what is announced is there: descriptor => block records, application
   record => descriptor and trie, state => application record and receipts) *)
Theorem c06_every_crash_state_is_recoverable :
  forall d h k, 1 <= h -> Mid d h ->
  Mid (lifetime d (commit_writes h (chain (h - 1))) k) h /\
  ((10 <= k)%nat -> state (lifetime d (commit_writes h (chain (h - 1))) k) = h).
Proof. exact mid_commit_prefix. Qed.
Print Assumptions c06_every_crash_state_is_recoverable.

Theorem c06_start_never_panics :
  forall d h, 1 <= h -> Mid d h ->
  start_node true d h = Ready (if state d =? h then [] else commit_writes h (chain (h - 1))).
Proof. exact start_on_mid. Qed.
Print Assumptions c06_start_never_panics.

(* (4) the code before repair 4b0525d did not have the property: a node that died after the
   application's last-block record and before its own state record could never start again *)
Theorem c06_refuted_before_repair :
  Complete disk2 2 /\ crash_history false disk2 3 8 [] = None /\ crash_history false disk2 3 9 [] = None /\
  exists d', crash_history true disk2 3 8 [] = Some d' /\ complete_upto d' 3 = true.
Proof. exact unrepaired_node_does_not_restart. Qed.
Print Assumptions c06_refuted_before_repair.

(* ---- non-vacuity: a crash in every window, then a crash inside the recovery ---- *)
Example c06_nonvacuous :
  forallb (fun k0 => forallb (fun k1 =>
     match crash_history true disk2 3 k0 [k1] with Some d => complete_upto d 3 | None => false end)
     (seq 0 12)) (seq 0 12) = true.
Proof. vm_compute. reflexivity. Qed.
