(* C14  Validator-set changes need +2/3 of distinct validators and apply uniformly.
   Only property theorems (closed by [exact]), assumption reports and examples.
   Model: Model/AdminOp.v (gemmill/plugin/admin_op.go, after the F-14a and F-14c repairs) over
   Model/ValSet.v.  [wf_vals]: the plugin's current set is sorted, has non-negative powers below
   the int64 boundary and a total-power cache that is empty or right (C16 gives sortedness; the
   cache clause is what the seeded stale-cache mutations break, and the correspondence checks it). *)
From Coq Require Import List NArith ZArith Lia Bool.
From AnnVerif Require Import Base.Res Base.Bytes Model.ValSet Model.AdminOp
  Proofs.ValSetProofs Proofs.AdminProofs.
Import ListNotations.
Open Scope Z_scope.

(* (1) a request is accepted only if distinct current validators of positive power with a valid
   signature over exactly that request hold more than two thirds of the total power (every signer
   counted once: [wsum] adds each validator of the set at most once), the submitting account is the
   one named in the signed request, its nonce is the signed nonce + 1, and the command is known *)
Theorem c14_accept_needs_two_thirds_distinct :
  forall st c from nonce st', wf_vals (ad_vals st) ->
  exec_tx st c from nonce = (st', 0%N) ->
  wsum (fun _ => true) (vl (ad_vals st)) * 2 / 3 < wsum (signed_by (ac_sigs c)) (vl (ad_vals st)) /\
  ac_type_ok c = true /\ ac_parse_ok c = true /\ from = at_from (ac_attr c) /\
  u64 (at_nonce (ac_attr c) + 1) = nonce.
Proof. exact exec_tx_accept. Qed.
Print Assumptions c14_accept_needs_two_thirds_distinct.

(* (2) an under-signed, mis-addressed, wrong-nonce, malformed or unknown request changes nothing *)
Theorem c14_rejected_changes_nothing :
  forall st c from nonce st' code, exec_tx st c from nonce = (st', code) -> code <> 0%N ->
  ad_changed st' = ad_changed st /\ vl (ad_vals st') = vl (ad_vals st).
Proof. exact exec_tx_reject. Qed.
Print Assumptions c14_rejected_changes_nothing.

Theorem c14_pending_grows_by_request_only :
  forall st c from nonce st' code, exec_tx st c from nonce = (st', code) ->
  ad_changed st' = ad_changed st \/ ad_changed st' = ad_changed st ++ [ac_attr c].
Proof. exact exec_tx_pending. Qed.
Print Assumptions c14_pending_grows_by_request_only.

(* (3) a replayed request changes nothing: once the block that carried it is applied, the
   request is [settled], and a settled request leaves pending list and set untouched whatever
   checks it passes *)
Theorem c14_applied_settles :
  forall vs a vs', sorted (vl vs) -> end_block (mkAdmin vs [a]) = Ok vs' -> settled (ad_vals vs') a.
Proof. exact applied_settles. Qed.
Print Assumptions c14_applied_settles.
Theorem c14_replay_noop :
  forall st c from nonce st' code, settled (ad_vals st) (ac_attr c) ->
  exec_tx st c from nonce = (st', code) ->
  ad_changed st' = ad_changed st /\ vl (ad_vals st') = vl (ad_vals st).
Proof. exact replay_noop. Qed.
Print Assumptions c14_replay_noop.

(* (4) the change is applied by a total function of (current set, pending list) - the same on
   every replica -, never fails (two removals of one validator in a block included), and yields a
   sorted, duplicate-free set *)
Theorem c14_apply_total : forall changed next, exists next', update_validators next changed = Ok next'.
Proof. exact update_validators_total. Qed.
Print Assumptions c14_apply_total.
Theorem c14_apply_sorted :
  forall st st', sorted (vl (ad_vals st)) -> end_block st = Ok st' ->
  sorted (vl (ad_vals st')) /\ ad_changed st' = [].
Proof. exact end_block_sorted. Qed.
Print Assumptions c14_apply_sorted.

(* ---- non-vacuity: 4 validators of power 10; three distinct signers are accepted, the same
   signer three times is not ---- *)
Definition v4 : valset :=
  mkVSet [mkVal [1]%N [] 10 0 true; mkVal [2]%N [] 10 0 true; mkVal [3]%N [] 10 0 true; mkVal [4]%N [] 10 0 true] None 0.
Definition req (sigs : list siginfo) : admincmd :=
  mkCmd true true (mkAttr [9]%N [9]%N 5 CAdd [7]%N 3) true sigs.
Example c14_nonvacuous :
  wf_vals v4 /\
  snd (exec_tx (mkAdmin v4 []) (req [mkSig [1]%N true; mkSig [2]%N true; mkSig [3]%N true]) [7]%N 4) = 0%N /\
  snd (exec_tx (mkAdmin v4 []) (req [mkSig [1]%N true; mkSig [1]%N true; mkSig [1]%N true]) [7]%N 4) = 1%N /\
  snd (exec_tx (mkAdmin v4 []) (req [mkSig [1]%N true; mkSig [2]%N true; mkSig [3]%N true]) [7]%N 5) = 5%N.
Proof.
  split; [|vm_compute; auto].
  unfold wf_vals. split; [|split; [|split; [vm_compute; reflexivity|left; reflexivity]]].
  - unfold sorted, sortedA. cbn. repeat constructor.
  - intros v Hv. cbn in Hv. intuition (subst; cbn; lia).
Qed.
