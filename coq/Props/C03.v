(* C03  No equivocation: at most one signature per height/round/step, across restarts.
   Only property theorems (closed by [exact]), assumption reports and examples.
   Model: Model/Signer.v (gemmill/types/priv_validator.go signBytesHRS/save, go-common
   WriteFileAtomic).  The theorems quantify over every history of signing requests (any height,
   round, step, sign-bytes - "even when the consensus logic asks it to"), where each request may
   end normally, with a failing write, or with the process dying before or after the rename of
   WriteFileAtomic and restarting from the file, plus restarts at any other moment. *)
From Coq Require Import List NArith ZArith Lia Bool.
From AnnVerif Require Import Base.Bytes Model.Signer Proofs.SignerProofs.
Import ListNotations.
Open Scope Z_scope.

(* (1) two released signatures for one height/round/step carry the same sign-bytes (and are the
   same signature) *)
Theorem c03_no_double_sign :
  forall (sign : bytes -> bytes) ops x y,
  In x (releases (snd (srun sign signer0 ops))) -> In y (releases (snd (srun sign signer0 ops))) ->
  rl_h x = rl_h y -> rl_r x = rl_r y -> rl_s x = rl_s y -> rl_b x = rl_b y /\ rl_sig x = rl_sig y.
Proof. exact no_double_sign. Qed.
Print Assumptions c03_no_double_sign.

(* (2) released signatures never go back: each one is strictly later in (height, round, step)
   than every earlier one, or is the very same signed bytes again *)
Theorem c03_monotone :
  forall (sign : bytes -> bytes) ops pre x post,
  releases (snd (srun sign signer0 ops)) = pre ++ x :: post ->
  forall y, In y pre -> rel_le y x.
Proof. intros sign ops. exact (srun_ordered sign ops signer0 eq_refl). Qed.
Print Assumptions c03_monotone.

(* (3) a signature leaves the signer only when the durable record already forbids contradicting
   it: it is at that height/round/step with exactly those sign-bytes, or beyond it *)
Theorem c03_durable_before_release :
  forall (sign : bytes -> bytes) st o x, vol st = dur st ->
  released_of o (snd (sstep sign st o)) = Some x -> covers (dur (fst (sstep sign st o))) x.
Proof. exact durable_before_release. Qed.
Print Assumptions c03_durable_before_release.

(* in-memory and durable records agree after every operation, in every reachable state *)
Theorem c03_vol_eq_dur :
  forall (sign : bytes -> bytes) ops, vol (fst (srun sign signer0 ops)) = dur (fst (srun sign signer0 ops)).
Proof.
  intros sign ops. pose proof (srun_covers sign ops signer0 eq_refl) as H.
  destruct (srun sign signer0 ops) as [st outs]. destruct H as (H & _). exact H.
Qed.
Print Assumptions c03_vol_eq_dur.

(* ---- non-vacuity: a history with a crash after the rename, a conflicting request, a failing
   write and regressions; exactly the expected releases come out ---- *)
Definition idsign (b : bytes) : bytes := 7%N :: b.
Example c03_nonvacuous :
  let ops := [SSign 1 0 2 [1]%N SaveOk; SSign 1 0 2 [2]%N SaveOk; SSign 1 0 3 [3]%N CrashAfterRename;
              SSign 1 0 3 [4]%N SaveOk; SSign 1 0 3 [3]%N SaveOk; SSign 1 1 2 [5]%N SaveFails;
              SSign 1 1 2 [6]%N CrashBeforeRename; SSign 1 1 2 [6]%N SaveOk; SSign 1 0 3 [3]%N SaveOk; SReload] in
  map (fun x => (rl_h x, rl_r x, rl_s x, rl_b x)) (releases (snd (srun idsign signer0 ops))) =
    [(1, 0, 2, [1]%N); (1, 0, 3, [3]%N); (1, 1, 2, [6]%N)].
Proof. vm_compute. reflexivity. Qed.
