(* C19  Transaction pool: per-account nonce order, no duplicates, no loss, bounded.
   Only property theorems (closed by [exact]), assumption reports and examples.
   Model: Model/TxPool.v (chain/app/evm/tx_pool.go, tx_sort.go; gemmill/mempool/mempool.go).
   Reachable pools: any sequence of submissions, administrative requests, Update calls, commits
   (new account nonces followed by updateToState) and flushes, from an empty pool. *)
From Coq Require Import List NArith ZArith Lia Bool.
From AnnVerif Require Import Base.Res Model.TxPool Proofs.PoolProofs Proofs.MemRaceProofs.
Import ListNotations.
Open Scope N_scope.

(* (1) in every reachable pool, every account's pending queue is a non-empty run of strictly
   consecutive nonces starting at the account's current state nonce, and the pending queues stay
   within their limit *)
Theorem c19_reachable_pool :
  forall pl wl ns0 ops, let '(ns, p) := prun pl wl ns0 ops in pending_ok ns p /\ sized p.
Proof. exact reachable_pool. Qed.
Print Assumptions c19_reachable_pool.

(* (2) hence a reap offers each account's transactions in consecutive nonce order from the
   current nonce, with no two transactions for one (account, nonce) *)
Theorem c19_reap_order :
  forall ns p a m, pending_ok ns p -> In (a, m) (snd (reap_all p)) -> keys_sorted (p_pending p) ->
  m <> [] /\ is_run (nonce_of ns a) m /\ NoDup (map t_nonce m).
Proof. exact reap_order. Qed.
Print Assumptions c19_reap_order.

(* (3) exact duplicates are rejected and change nothing *)
Theorem c19_duplicate_rejected :
  forall ns p t, existsb (N.eqb (t_id t)) (p_all p) = true -> receive ns p t = (p, 1).
Proof. exact duplicate_rejected. Qed.
Print Assumptions c19_duplicate_rejected.

(* (4) gemmill/mempool: a reap never repeats a transaction; a committed one leaves the list *)
Theorem c19_mempool_reap_nodup : forall m n, mem_inv m -> NoDup (mem_reap m n).
Proof. exact mem_reap_nodup. Qed.
Print Assumptions c19_mempool_reap_nodup.
Theorem c19_mempool_inv_receive : forall m id, mem_inv m -> mem_inv (fst (mem_receive m id)).
Proof. exact mem_receive_inv. Qed.
Print Assumptions c19_mempool_inv_receive.
Theorem c19_mempool_inv_update : forall m ids, mem_inv m -> mem_inv (mem_update m ids).
Proof. exact mem_update_inv. Qed.
Print Assumptions c19_mempool_inv_update.

(* (5) full statements that are FALSE of the faithful model and of the code (known findings).
   F-19a: a transaction that a committed block contained but whose execution failed (its
   account nonce did not move) is still pending and is offered again.
   F-19c: the lookup map is not bounded: same-nonce submissions that lose the race for a pending
   slot stay in it for ever.
   F-19b: gemmill/mempool forgets committed transactions, so a re-submitted one is accepted and
   offered again. *)
Definition tx0 := mkTx 1 0 100.
Theorem c19_not_offered_after_commit_refuted :
  let '(ns1, p1) := prun 10 10 [] [PSubmit tx0] in
  (* the block contained tx0 (Update) but execution failed: nonces unchanged at the commit *)
  let '(ns2, p2) := fold_left pstep [PUpdate [100]; PCommit []] (ns1, p1) in
  snd (reap_all p2) = [(1, [tx0])].
Proof. vm_compute. reflexivity. Qed.
Print Assumptions c19_not_offered_after_commit_refuted.

Theorem c19_lookup_map_unbounded_refuted :
  let ops := map (fun k => PSubmit (mkTx 1 0 (100 + k))) [0; 1; 2; 3; 4; 5; 6; 7; 8; 9] in
  let '(_, p) := prun 2 2 [] ops in
  length (p_all p) = 10%nat /\ am_count (p_pending p) = 1%nat /\ am_count (p_waiting p) = 0%nat.
Proof. vm_compute. repeat split; reflexivity. Qed.
Print Assumptions c19_lookup_map_unbounded_refuted.

Theorem c19_mempool_reoffer_refuted :
  let m1 := fst (mem_receive (mkMem [] []) 7) in
  let m2 := mem_update m1 [7] in            (* a block containing 7 was committed *)
  let '(m3, accepted) := mem_receive m2 7 in (* the same transaction arrives again *)
  accepted = true /\ mem_reap m3 (-1) = [7].
Proof. vm_compute. split; reflexivity. Qed.
Print Assumptions c19_mempool_reoffer_refuted.

(* ---- non-vacuity: gap then fill, commit of a prefix ---- *)
Example c19_nonvacuous :
  let ops := [PSubmit (mkTx 1 1 11); PSubmit (mkTx 1 2 12); PSubmit (mkTx 1 0 10); PSubmit (mkTx 2 0 20);
              PCommit [(1, 2)]] in
  let '(ns, p) := prun 10 10 [] ops in
  snd (reap_all p) = [(1, [mkTx 1 2 12]); (2, [mkTx 2 0 20])] /\ nonce_of ns 1 = 2.
Proof. vm_compute. split; reflexivity. Qed.

(* (6) gemmill/mempool under concurrent submitters: ReceiveTx holds no lock between its first lookup
   in the cache and the test-and-set that records the transaction; for EVERY interleaving of the
   lookups and pushes of any number of goroutines with the updates of the consensus routine the
   pool invariant holds, and between two updates a transaction is accepted at most once however
   many goroutines hand it in at the same moment (the engine's "race" operations run exactly the
   schedule in which all of them pass the lookup before any of them pushes) *)
Theorem c19_mempool_any_schedule : forall evs m, mem_inv m -> mem_inv (mev_run evs m).
Proof. exact mem_inv_any_schedule. Qed.
Print Assumptions c19_mempool_any_schedule.
Theorem c19_mempool_accepted_at_most_once :
  forall x evs m, forallb (fun e => negb (is_update e)) evs = true -> (accepted x evs m <= 1)%nat.
Proof. exact accepted_at_most_once. Qed.
Print Assumptions c19_mempool_accepted_at_most_once.
Example c19_mempool_race_nonvacuous :
  let evs := [MLookup 7; MLookup 7; MLookup 7; MPush 7; MPush 7; MPush 9; MPush 7]%N in
  accepted 7%N evs (mkMem [] []) = 1%nat /\ m_txs (mev_run evs (mkMem [] [])) = [7; 9]%N.
Proof. vm_compute. split; reflexivity. Qed.
