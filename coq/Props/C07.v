(* C07  WAL replay restores the in-progress height after a crash.
   Only property theorems (closed by [exact]), assumption reports and examples.
   Model: a restart is [init_node] from the durable parts (state's validator set with the proposer
   that State persistence keeps, the last commit rebuilt from the stored commit, the signer file)
   followed by [run] over the intact records of the log (Corr/NodeCorr.v [step_entry], [keep]);
   the "consensus" engine crashes real nodes after any input, with or without a torn last record,
   and compares the replayed ConsensusState with the model after every restart.
   What is proved here holds for every log content: replay is a run of the same total function, so
   (1) it cannot panic where the live run did not and it re-establishes the lock invariant, (2) it
   cannot sign anything that contradicts an earlier signature, (3) it composes, and (4) replaying
   an intact log rebuilds exactly the state before the crash - round, step, proposal, parts,
   every vote set, the lock - whatever the signer file holds by then (the state machine's state
   is independent of the signer record: Proofs/SignerIndep.v). *)
From Coq Require Import List NArith ZArith Lia Bool.
From AnnVerif Require Import Base.Res Base.Bytes Model.VoteSet Model.ValSet Model.Node Proofs.NodeProofs Proofs.SignerIndep Proofs.SgWalk Proofs.SignerDom.
Import ListNotations.
Open Scope Z_scope.

(* (1) whatever records survive, the replayed state satisfies the lock invariant: a lock that
   replay re-establishes is backed by +2/3 prevotes in the replayed vote sets *)
Theorem c07_replay_invariant :
  forall c h vs lc me s records n0 n, init_node h vs lc me s = Ok n0 -> run c records n0 = Ok n -> inv n.
Proof. exact reachable_lock_discipline. Qed.
Print Assumptions c07_replay_invariant.

(* (2) with the signer file as the crash left it, every vote the node signs during or after replay
   is either for a later height/round/step than anything signed before or byte-for-byte the vote
   signed before for that height/round/step; the signer never moves back *)
Theorem c07_no_contradicting_signature :
  forall t b n n' o, sign_add_vote t b n = Ok (n', o) ->
  let st := if N.eqb t 1 then 2 else 3 in
  hrs_le (sg_h (sg n)) (sg_r (sg n)) (sg_s (sg n)) (sg_h (sg n')) (sg_r (sg n')) (sg_s (sg n')) /\
  (forall x, In x o -> x = OVote t (round n) b /\
     (hrs_lt (sg_h (sg n)) (sg_r (sg n)) (sg_s (sg n)) (height n) (round n) st = true \/
      (sg_h (sg n) = height n /\ sg_r (sg n) = round n /\ sg_s (sg n) = st /\ exists w, sg_what (sg n) = Some w /\ what_eqb (t, b) w = true))).
Proof. exact sign_add_vote_signer. Qed.
Print Assumptions c07_no_contradicting_signature.

(* (3) replaying a prefix and then the rest is replaying the whole log: a crash during replay,
   followed by another replay, reaches what one replay reaches *)
Theorem c07_replay_composes :
  forall c a b n, run c (a ++ b) n = match run c a n with Ok n1 => run c b n1 | Err e => Err e | Panic w => Panic w end.
Proof. exact run_app. Qed.
Print Assumptions c07_replay_composes.

(* (4) the node started a height from its durable parts with signer file s0 and handled the logged
   inputs [ins], reaching n.  Restarted from the same durable parts with the signer file as the
   crash left it (s1), replaying the same log reaches n again in every field but the signer
   record - for every input sequence and every pair of signer states *)
Theorem c07_replay_restores :
  forall c h vs lc me s0 s1 ins n0 n,
  init_node h vs lc me s0 = Ok n0 -> run c ins n0 = Ok n ->
  exists n0' n' s', init_node h vs lc me s1 = Ok n0' /\ run c ins n0' = Ok n' /\ n' = set_sg n s'.
Proof. exact replay_restores. Qed.
Print Assumptions c07_replay_restores.

(* (4b) and with the signer file exactly as the crash left it - the signer record of the state
   reached - the replay ends in exactly that state, signer record included: nothing is signed afresh
   while replaying one's own intact log (a signer record at or beyond everything the run signed is
   inert, function by function: Proofs/SignerDom.v) *)
Theorem c07_replay_is_identity :
  forall c, c_skip_commit c = false ->
  forall h vs lc me s0 ins n0 n, init_node h vs lc me s0 = Ok n0 -> run c ins n0 = Ok n ->
  exists n0', init_node h vs lc me (sg n) = Ok n0' /\ run c ins n0' = Ok n.
Proof. exact restart_is_identity. Qed.
Print Assumptions c07_replay_is_identity.
Theorem c07_dominating_signer_is_inert :
  forall c, c_skip_commit c = false ->
  forall ins n n' s, run c ins n = Ok n' -> sg_le (sg n') s -> run c ins (set_sg n s) = Ok (set_sg n' s).
Proof. exact replay_inert. Qed.
Print Assumptions c07_dominating_signer_is_inert.

(* and one input at a time: the same path, the same failure, the same state up to the signer *)
Theorem c07_step_is_signer_independent : forall c i, obl (handle c i).
Proof. exact obl_handle. Qed.
Print Assumptions c07_step_is_signer_independent.
