(* C17  Block parts and Merkle proofs: only genuine parts accepted, exact reassembly.
   This file contains only the property theorems (each closed by [exact]), their assumption
   reports and the non-vacuity examples.  Models: Model/Merkle.v, Model/PartSet.v
   (gemmill/modules/go-merkle/simple_tree.go, gemmill/types/part_set.go). *)
From Coq Require Import List NArith ZArith Lia Bool.
From AnnVerif Require Import Base.Res Base.Bytes Model.Merkle Model.PartSet
  Proofs.BytesProofs Proofs.MerkleProofs Proofs.PartSetProofs.
Import ListNotations.

(* (1) Reassembly: for every data, every part size > 0 and every arrival sequence that contains
   each genuine part at least once - in any order, with any duplicates and with any other parts
   (mutated, foreign, out of range) interleaved - a receiver that knows only the header ends up
   complete, reads back exactly the original bytes and still has the original root. *)
Theorem c17_reassembly :
  forall (hash : bytes -> bytes), (forall x y, hash x = hash y -> x = y) ->
  forall (data : bytes) (psize : nat), (0 < psize)%nat ->
  let cs := chunks psize data in
  let root := simple_root hash (map hash cs) in
  (Z.of_nat (length cs) < 4611686018427387904)%Z ->
  forall (arrivals : list part) (s0 : partset),
  data <> [] ->
  from_header (Z.of_nat (length cs)) root = Ok s0 ->
  (forall i, (i < length cs)%nat -> In (genuine hash data psize i) arrivals) ->
  let s := add_parts hash s0 arrivals in
  is_complete s = true /\ read_all s = Ok data /\ ps_hash s = root.
Proof. exact reassembly_any_order. Qed.
Print Assumptions c17_reassembly.

(* (2) A receiver that knows only the header accepts a part, in any state reachable by any
   arrival sequence, if and only if it is the genuine part at that index and not yet present. *)
Theorem c17_accept_iff_genuine :
  forall (hash : bytes -> bytes), (forall x y, hash x = hash y -> x = y) ->
  forall (data : bytes) (psize : nat), (0 < psize)%nat ->
  let cs := chunks psize data in
  let root := simple_root hash (map hash cs) in
  (Z.of_nat (length cs) < 4611686018427387904)%Z ->
  forall (arrivals : list part) (s0 : partset) (p : part),
  from_header (Z.of_nat (length cs)) root = Ok s0 ->
  let s := add_parts hash s0 arrivals in
  (snd (add_part hash s p true) = Added <->
   exists i, (i < length cs)%nat /\ p = genuine hash data psize i /\ nth i (ps_parts s) None = None).
Proof. exact accept_iff_genuine. Qed.
Print Assumptions c17_accept_iff_genuine.

(* (3) A part that is not accepted leaves the set exactly as it was (no hypotheses at all). *)
Theorem c17_rejected_unchanged :
  forall hash s p v, snd (add_part hash s p v) <> Added -> fst (add_part hash s p v) = s.
Proof. exact add_part_rejected_unchanged. Qed.
Print Assumptions c17_rejected_unchanged.

(* (4) Every generated inclusion proof verifies. *)
Theorem c17_proof_complete :
  forall (hash : bytes -> bytes) (hs : list bytes) (i : nat),
  (i < length hs)%nat -> (Z.of_nat (length hs) < 4611686018427387904)%Z ->
  verify hash (Z.of_nat i) (Z.of_nat (length hs)) (nth i hs []) (simple_root hash hs) (aunts_of hash hs i) = true.
Proof. exact verify_complete. Qed.
Print Assumptions c17_proof_complete.

(* (5) Soundness.  Full statement of the property ("no proof verifies for a different leaf,
   index or total"):
     forall hs i total leaf aunts, verify hash i total leaf (simple_root hash hs) aunts = true ->
       total = length hs /\ 0 <= i < total /\ leaf = nth i hs /\ aunts = aunts_of hs i.
   It is FALSE of the faithful model (and of the code): the root commits neither to the number of
   items nor to leaf-versus-inner position; see c17_proof_sound_cross_total_refuted below
   (DESIGN F-17d, a known finding).  What holds, and is proved for every index (negative and
   >= total included), every leaf and every aunt list, is soundness for the total the verifier
   supplies itself - which is how PartSet.AddPart uses it (total comes from the header): *)
Theorem c17_proof_sound_partial :
  forall (hash : bytes -> bytes), (forall x y, hash x = hash y -> x = y) ->
  forall (hs : list bytes) (i : Z) (leaf : bytes) (aunts : list bytes),
  (Z.of_nat (length hs) < 4611686018427387904)%Z ->
  verify hash i (Z.of_nat (length hs)) leaf (simple_root hash hs) aunts = true ->
  (0 <= i < Z.of_nat (length hs))%Z /\ leaf = nth (Z.to_nat i) hs [] /\ aunts = aunts_of hash hs (Z.to_nat i).
Proof. exact verify_sound. Qed.
Print Assumptions c17_proof_sound_partial.

(* the witness: with an injective hash (the identity), the proof of leaf 0 among 5 leaves also
   verifies for total 6, and an inner node of a 4-leaf tree verifies as "leaf 0 of 2". *)
Definition idh (x : bytes) : bytes := x.
Theorem c17_proof_sound_cross_total_refuted :
  (forall x y, idh x = idh y -> x = y) /\
  (exists hs i total' leaf aunts,
      total' <> Z.of_nat (length hs) /\
      verify idh i total' leaf (simple_root idh hs) aunts = true) /\
  (exists hs leaf aunts,
      ~ In leaf hs /\ verify idh 0 2 leaf (simple_root idh hs) aunts = true).
Proof.
  split; [intros x y H; exact H|]. split.
  - exists [[1]; [2]; [3]; [4]; [5]]%N, 0%Z, 6%Z, [1]%N, (aunts_of idh [[1]; [2]; [3]; [4]; [5]]%N 0).
    split; [discriminate|]. vm_compute. reflexivity.
  - exists [[1]; [2]; [3]; [4]]%N, (hash2 idh [1]%N [2]%N), [hash2 idh [3]%N [4]%N].
    split; [|vm_compute; reflexivity].
    vm_compute. intros [H|[H|[H|[H|[]]]]]; discriminate.
Qed.
Print Assumptions c17_proof_sound_cross_total_refuted.

(* ---- non-vacuity: the hypotheses are satisfiable and the conclusions observable ---- *)
Example c17_nonvacuous :
  let data := [10; 20; 30; 40; 50]%N in
  let psize := 2%nat in
  let snd_ps := from_data idh data psize in
  let parts := map (genuine idh data psize) (seq 0 3) in
  (forall x y, idh x = idh y -> x = y) /\ (0 < psize)%nat /\
  ps_total snd_ps = 3%Z /\
  match from_header (ps_total snd_ps) (ps_hash snd_ps) with
  | Ok s0 =>
    let s := add_parts idh s0 (rev parts ++ parts) in
    is_complete s = true /\ read_all s = Ok data
  | _ => False
  end.
Proof. split; [intros x y H; exact H|]. vm_compute. repeat split; auto. Qed.
