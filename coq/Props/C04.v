(* C04  Locking discipline: votes follow the proof-of-lock rules.
   Only property theorems (closed by [exact]), assumption reports and examples.
   Model: Model/Node.v (gemmill/consensus/pbft/state.go, height_vote_set.go) on Model/VoteSet.v and
   Model/ValSet.v; every theorem quantifies over all configurations, all node states (or all
   states reachable from the start of a height) and all inputs: proposals, parts, votes for any
   round or height, forged and conflicting votes, timeouts. *)
From Coq Require Import List NArith ZArith Lia Bool.
From AnnVerif Require Import Base.Res Base.Bytes Model.VoteSet Model.ValSet Model.Node Proofs.PowerSum Proofs.NodeProofs
  Proofs.NodeBacked Proofs.Emit Proofs.SgWalk.
Import ListNotations.
Open Scope Z_scope.

(* (1) the prevote rule: whatever state the node is in, when it prevotes while locked it prevotes
   the locked block; unlocked, the valid complete proposal block or nil.  ([do_prevote] is the
   only function of the model that signs a prevote.) *)
Theorem c04_prevote_rule :
  forall n n' o x, do_prevote n = Ok (n', o) -> In x o ->
  exists b, x = OVote 1 (round n) b /\
    match lblock n with
    | Some B => b = blk_bid B
    | None => b = nil_bid \/ exists pb, pblock n = Some pb /\ bk_valid pb = true /\ b = pparts_bid n pb
    end.
Proof. exact prevote_rule. Qed.
Print Assumptions c04_prevote_rule.

(* (2) the precommit rule: a precommit for a block is signed only when the node's own prevote set
   of that round holds +2/3 for exactly that block id, and the node is then locked on it in that
   round.  ([enter_precommit] is the only function that signs a precommit.) *)
Theorem c04_precommit_rule :
  forall h r n n' o t r' b, enter_precommit h r n = Ok (n', o) -> In (OVote t r' b) o ->
  t = 2%N /\ r' = round n /\
  (b_hash b <> [] -> polka_at (votes n) r b /\ exists B, lblock n' = Some B /\ bk_hash B = b_hash b /\ lround n' = r).
Proof. exact precommit_rule. Qed.
Print Assumptions c04_precommit_rule.

(* (3) the commit rule: a commit happens only on +2/3 precommits for the block in one single
   round, with the complete, valid block at hand *)
Theorem c04_commit_rule :
  forall c h n n' o hc hash, finalize_commit c h n = Ok (n', o) -> In (OCommit hc hash) o ->
  hc = height n /\ exists b pb, commit_at (votes n) (commit_round n) b /\ b_hash b = hash /\
     pblock n = Some pb /\ bk_hash pb = hash /\ bk_valid pb = true /\ has_header (pparts n) (b_total b) (b_phash b) = true
     /\ height n' = height n + 1.
Proof. exact commit_rule. Qed.
Print Assumptions c04_commit_rule.

(* (4) the lock invariant holds in every state reachable from the start of a height: a locked
   node holds +2/3 prevotes for its locked block in its lock round *)
Theorem c04_lock_invariant :
  forall c h vs lc me s ins n0 n, init_node h vs lc me s = Ok n0 -> run c ins n0 = Ok n -> inv n.
Proof. exact reachable_lock_discipline. Qed.
Print Assumptions c04_lock_invariant.

(* (5) the lock is kept until a later polka for something else: over any sequence of inputs that
   stays within the height, a lock held at the start is still held on the same block (lock round
   not lower), or the node's vote sets hold +2/3 prevotes for something else (nil included) in a
   round after the lock round and not after the current round *)
Theorem c04_lock_kept_or_released :
  forall c ins n n' B, inv n -> run c ins n = Ok n' -> height n' = height n -> lblock n = Some B ->
  (exists B', lblock n' = Some B' /\ bk_hash B' = bk_hash B /\ lround n <= lround n') \/
  (exists r x, lround n < r <= round n' /\ polka_at (votes n') r x /\ hashes_to (Some B) (b_hash x) = false).
Proof. exact lock_kept_or_released. Qed.
Print Assumptions c04_lock_kept_or_released.

(* (6) one step: the invariant is preserved, heights and rounds never go back, majorities seen
   never disappear, and the lock relation of (5) holds across the step *)
Theorem c04_step : forall c i n n' o, handle c i n = Ok (n', o) -> G n n'.
Proof. exact (fun c i => sat_handle c i). Qed.
Print Assumptions c04_step.

(* ---- non-vacuity: a four-validator height in which the node locks, and then releases the lock
   on a nil polka of the next round ---- *)
Definition ex_a (k : N) : bytes := [k].
Definition ex_vals : res valset :=
  new_valset [mkVal (ex_a 1) (ex_a 1) 1 0 false; mkVal (ex_a 2) (ex_a 2) 1 0 false;
              mkVal (ex_a 3) (ex_a 3) 1 0 false; mkVal (ex_a 4) (ex_a 4) 1 0 false].
Definition ex_n0 : res node :=
  match ex_vals with Ok vs => init_node 1 vs None (Some (ex_a 1)) (mkSg 0 0 0 None) | _ => Panic 0 end.
Definition ex_B : blk := mkBlk [7%N] 1 [8%N] true.
Definition ex_vote (i : Z) (who : N) (t : N) (r : Z) (b : block_id) : vote :=
  mkVote (ex_a who) i 1 r t b [who; Z.to_N r; t] true.
Definition ex_lock_inputs : list input :=
  [ITimeout 1 0 1; IProposal (mkProp 1 0 (-1) 1 [8%N]) (ex_a 1) []; IPart 1 0 0 ex_B true [];
   IVote (ex_vote 0 1 1 0 (blk_bid ex_B)) []; IVote (ex_vote 1 2 1 0 (blk_bid ex_B)) (ex_a 2);
   IVote (ex_vote 2 3 1 0 (blk_bid ex_B)) (ex_a 3)].
Definition ex_release_inputs : list input :=
  [IVote (ex_vote 1 2 1 1 nil_bid) (ex_a 2); IVote (ex_vote 2 3 1 1 nil_bid) (ex_a 3); IVote (ex_vote 3 4 1 1 nil_bid) (ex_a 4)].
Definition ex_summary (r : res node) : option (Z * Z * Z * option bytes) :=
  match r with Ok n => Some (round n, step n, lround n, option_map bk_hash (lblock n)) | _ => None end.
Example c04_nonvacuous :
  ex_summary (match ex_n0 with Ok n => run (mkCfg false) ex_lock_inputs n | _ => Panic 0 end) = Some (0, 6, 0, Some [7%N]) /\
  ex_summary (match ex_n0 with Ok n => run (mkCfg false) (ex_lock_inputs ++ ex_release_inputs) n | _ => Panic 0 end) = Some (1, 6, 0, None).
Proof. vm_compute. split; reflexivity. Qed.

(* (7b) the proposal rule: a proposer that holds a lock proposes the locked block (None: a freshly
   created block), in its current round, with the proof-of-lock round its own vote sets give *)
Theorem c04_proposal_rule :
  forall n n' o r polr lb, decide_proposal n = Ok (n', o) -> In (OProposal r polr lb) o ->
  r = round n /\ lb = lblock n /\ (exists b, pol_info (votes n) = Ok (polr, b)).
Proof. exact proposal_rule. Qed.
Print Assumptions c04_proposal_rule.

(* (8) the votes of one handled input, in terms of what was delivered to the node (every function
   of the node model walked): a precommit for a block rests on delivered valid prevotes for it, at
   its round, from more than two thirds of the power; a prevote for something else than a block
   the node precommitted earlier rests on a delivered polka for something else in a round in
   between ([goods]); and the lock bookkeeping [J] is kept.  These are R2 and R3 on delivered
   votes, the form Proofs/System.v composes. *)
Theorem c04_votes_rest_on_deliveries :
  forall (VS : list validator), bounded VS -> forall (h0 : Z) (c : cfg) (i : input), c_skip_commit c = false ->
  forall off pcs n n' o, J VS h0 off pcs n -> height n = h0 -> input_ok i n -> handle c i n = Ok (n', o) ->
    J VS h0 (delivered_of i ++ off) (pcs_after o pcs) n' /\ goods VS h0 (delivered_of i ++ off) pcs o.
Proof. exact T_handle. Qed.
Print Assumptions c04_votes_rest_on_deliveries.

(* (9) the votes of one handled input, in terms of the signer: in order, each is either fresh -
   strictly after everything signed before - or the repetition of exactly the vote last signed *)
Theorem c04_signer_discipline :
  forall (c : cfg) (i : input), c_skip_commit c = false ->
  forall n n' o, handle c i n = Ok (n', o) -> sgrel (height n) (sg n) o (sg n').
Proof. exact SG_handle. Qed.
Print Assumptions c04_signer_discipline.
