module annverif

go 1.12

require (
	github.com/dappledger/AnnChain v0.0.0
	github.com/ethereum/go-ethereum v1.8.27
	github.com/spf13/viper v0.0.0-20171207042631-1a0c4a370c3e
)

replace github.com/dappledger/AnnChain => /repo
