module annverif

go 1.12

require github.com/dappledger/AnnChain v0.0.0

replace github.com/dappledger/AnnChain => /repo
