// refhelper runs the reference go-ethereum v1.8.27 implementations in a process of their own (the
// reference and the in-tree copies cannot be linked together: both carry the secp256k1 C sources).
// Protocol: one JSON request per line on stdin, one JSON response per line on stdout.
package main

import (
	"bufio"
	"encoding/hex"
	"encoding/json"
	"fmt"
	"os"

	"github.com/ethereum/go-ethereum/common"
	"github.com/ethereum/go-ethereum/ethdb"
	"github.com/ethereum/go-ethereum/trie"
)

type req struct {
	Cmd   string `json:"cmd"` // trie-new trie-put trie-del trie-get trie-root trie-reopen
	Key   string `json:"key,omitempty"`
	Value string `json:"value,omitempty"`
}
type resp struct {
	Value string `json:"value,omitempty"`
	Err   string `json:"err,omitempty"`
}

func unhex(s string) []byte { b, _ := hex.DecodeString(s); return b }

func main() {
	in := bufio.NewReaderSize(os.Stdin, 1<<20)
	out := bufio.NewWriter(os.Stdout)
	var disk *ethdb.MemDatabase
	var tdb *trie.Database
	var t *trie.Trie
	for {
		line, err := in.ReadBytes('\n')
		if len(line) == 0 && err != nil {
			return
		}
		var q req
		var r resp
		if e := json.Unmarshal(line, &q); e != nil {
			r.Err = e.Error()
		} else {
			func() {
				defer func() {
					if p := recover(); p != nil {
						r.Err = fmt.Sprint("panic: ", p)
					}
				}()
				switch q.Cmd {
				case "trie-new":
					disk = ethdb.NewMemDatabase()
					tdb = trie.NewDatabase(disk)
					t, _ = trie.New(common.Hash{}, tdb)
				case "trie-put":
					t.Update(unhex(q.Key), unhex(q.Value))
				case "trie-del":
					t.Delete(unhex(q.Key))
				case "trie-get":
					r.Value = hex.EncodeToString(t.Get(unhex(q.Key)))
				case "trie-root":
					root, e := t.Commit(nil)
					if e != nil {
						r.Err = e.Error()
					}
					r.Value = hex.EncodeToString(root[:])
				case "trie-reopen":
					root, _ := t.Commit(nil)
					tdb.Commit(root, false)
					tdb = trie.NewDatabase(disk)
					nt, e := trie.New(root, tdb)
					if e != nil {
						r.Err = e.Error()
					} else {
						t = nt
					}
					r.Value = hex.EncodeToString(root[:])
				default:
					r.Err = "unknown command"
				}
			}()
		}
		b, _ := json.Marshal(r)
		out.Write(b)
		out.WriteByte('\n')
		out.Flush()
		if err != nil {
			return
		}
	}
}
