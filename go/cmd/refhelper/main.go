// refhelper runs the reference go-ethereum v1.8.27 implementations in a process of their own (the
// reference and the in-tree copies cannot be linked together: both carry the secp256k1 C sources).
// Protocol: one JSON request per line on stdin, one JSON response per line on stdout.
package main

import (
	"time"
	"strings"
	"bufio"
	"encoding/hex"
	"encoding/json"
	"fmt"
	"os"

	"math/big"

	"github.com/ethereum/go-ethereum/common"
	"github.com/ethereum/go-ethereum/core/state"
	"github.com/ethereum/go-ethereum/core/vm"
	"github.com/ethereum/go-ethereum/crypto"
	"github.com/ethereum/go-ethereum/ethdb"
	"github.com/ethereum/go-ethereum/params"
	"github.com/ethereum/go-ethereum/rlp"
	"github.com/ethereum/go-ethereum/trie"
)

// EvmAccount and EvmReq describe one execution for both implementations.
type EvmAccount struct {
	Addr    string      `json:"addr"`
	Code    string      `json:"code"`
	Balance string      `json:"balance"` // decimal
	Nonce   uint64      `json:"nonce"`
	Storage [][2]string `json:"storage"`
}
type EvmReq struct {
	Accounts []EvmAccount `json:"accounts"`
	Callee   string       `json:"callee"`
	Input    string       `json:"input"`
	Value    string       `json:"value"`
	Origin   string       `json:"origin"`
	Number   uint64       `json:"number"`
	Time     uint64       `json:"time"`
	Gas      uint64       `json:"gas"`
	// gas handed to the call when it is to differ from the block gas limit the GASLIMIT instruction reports
	CallGas uint64 `json:"call_gas,omitempty"`
}
type EvmRes struct {
	Err  string `json:"err"`
	Ret  string `json:"ret"`
	Root string `json:"root"`
	Logs string `json:"logs"`
	Dump string `json:"dump,omitempty"`
	InnerOog bool `json:"inner_oog,omitempty"`
}

func allForks() *params.ChainConfig {
	z := new(big.Int)
	return &params.ChainConfig{ChainID: big.NewInt(1), HomesteadBlock: z, DAOForkBlock: nil, EIP150Block: z, EIP155Block: z, EIP158Block: z,
		ByzantiumBlock: z, ConstantinopleBlock: z}
}

// oogTracer notes whether any frame ran out of gas: what follows then depends on how gas is metered
type oogTracer struct{ oog bool }

func (t *oogTracer) CaptureStart(from common.Address, to common.Address, call bool, input []byte, gas uint64, value *big.Int) error {
	return nil
}
func (t *oogTracer) CaptureState(env *vm.EVM, pc uint64, op vm.OpCode, gas, cost uint64, memory *vm.Memory, stack *vm.Stack, contract *vm.Contract, depth int, err error) error {
	if err == vm.ErrOutOfGas || err == vm.ErrCodeStoreOutOfGas {
		t.oog = true
	}
	return nil
}
func (t *oogTracer) CaptureFault(env *vm.EVM, pc uint64, op vm.OpCode, gas, cost uint64, memory *vm.Memory, stack *vm.Stack, contract *vm.Contract, depth int, err error) error {
	if err == vm.ErrOutOfGas || err == vm.ErrCodeStoreOutOfGas {
		t.oog = true
	}
	return nil
}
func (t *oogTracer) CaptureEnd(output []byte, gasUsed uint64, d time.Duration, err error) error { return nil }

func runEvm(q *EvmReq) (r EvmRes) {
	defer func() {
		if p := recover(); p != nil {
			r.Err = fmt.Sprint("panic: ", p)
		}
	}()
	st, _ := state.New(common.Hash{}, state.NewDatabase(ethdb.NewMemDatabase()))
	for _, a := range q.Accounts {
		addr := common.HexToAddress(a.Addr)
		st.CreateAccount(addr)
		st.SetCode(addr, unhex(a.Code))
		b, _ := new(big.Int).SetString(a.Balance, 10)
		st.SetBalance(addr, b)
		st.SetNonce(addr, a.Nonce)
		for _, kv := range a.Storage {
			st.SetState(addr, common.HexToHash(kv[0]), common.HexToHash(kv[1]))
		}
	}
	st.Commit(false)
	val, _ := new(big.Int).SetString(q.Value, 10)
	origin := common.HexToAddress(q.Origin)
	ctx := vm.Context{
		CanTransfer: func(db vm.StateDB, addr common.Address, amount *big.Int) bool { return db.GetBalance(addr).Cmp(amount) >= 0 },
		Transfer: func(db vm.StateDB, sender, recipient common.Address, amount *big.Int) {
			db.SubBalance(sender, amount)
			db.AddBalance(recipient, amount)
		},
		GetHash: func(n uint64) common.Hash {
			return common.BytesToHash(crypto.Keccak256([]byte(new(big.Int).SetUint64(n).String())))
		},
		Origin: origin, Coinbase: common.HexToAddress("0xc0ffee"), BlockNumber: new(big.Int).SetUint64(q.Number),
		Time: new(big.Int).SetUint64(q.Time), Difficulty: big.NewInt(7), GasLimit: q.Gas, GasPrice: new(big.Int),
	}
	var tracer *vm.StructLogger
	oogT := &oogTracer{}
	vcfg := vm.Config{Debug: true, Tracer: oogT}
	if os.Getenv("VERIF_EVM_TRACE") != "" {
		tracer = vm.NewStructLogger(&vm.LogConfig{DisableMemory: true, DisableStack: false, DisableStorage: true})
		vcfg.Debug, vcfg.Tracer = true, tracer
	}
	env := vm.NewEVM(ctx, st, allForks(), vcfg)
	sender := st.GetOrNewStateObject(origin)
	callGas := q.Gas
	if q.CallGas != 0 {
		callGas = q.CallGas
	}
	ret, _, err := env.Call(sender, common.HexToAddress(q.Callee), unhex(q.Input), callGas, val)
	if err != nil {
		switch err {
		case vm.ErrOutOfGas, vm.ErrCodeStoreOutOfGas:
			r.Err = "oog"
		default:
			if err.Error() == "evm: execution reverted" {
				r.Err = "revert"
			} else {
				r.Err = "fail"
			}
		}
	}
	r.Ret = hex.EncodeToString(ret)
	r.InnerOog = oogT.oog
	root, _ := st.Commit(true)
	r.Root = hex.EncodeToString(root[:])
	lb, _ := rlp.EncodeToBytes(st.Logs())
	r.Logs = hex.EncodeToString(crypto.Keccak256(lb))
	if tracer != nil {
		var sb strings.Builder
		for _, l := range tracer.StructLogs() {
			top := ""
			if n := len(l.Stack); n > 0 {
				top = l.Stack[n-1].Text(16)
			}
			if os.Getenv("VERIF_EVM_TRACE") == "2" {
				fmt.Fprintf(&sb, "%d %d %s %s %v gas=%d cost=%d\n", l.Depth, l.Pc, l.Op, top, l.Err, l.Gas, l.GasCost)
			} else {
				fmt.Fprintf(&sb, "%d %d %s %s %v\n", l.Depth, l.Pc, l.Op, top, l.Err)
			}
		}
		r.Dump = sb.String()
		return r
	}
	if os.Getenv("VERIF_EVM_DUMP") != "" {
		r.Dump = string(st.Dump()) + fmt.Sprintf(" logs=%x", lb)
	}
	return r
}

type req struct {
	Cmd   string  `json:"cmd"` // trie-new trie-put trie-del trie-get trie-root trie-reopen evm-run
	Key   string  `json:"key,omitempty"`
	Value string  `json:"value,omitempty"`
	Evm   *EvmReq `json:"evm,omitempty"`
}
type resp struct {
	Value string `json:"value,omitempty"`
	Err   string `json:"err,omitempty"`
}

func unhex(s string) []byte { b, _ := hex.DecodeString(s); return b }

func main() {
	in := bufio.NewReaderSize(os.Stdin, 1<<20)
	out := bufio.NewWriter(os.Stdout)
	var disk *ethdb.MemDatabase
	var tdb *trie.Database
	var t *trie.Trie
	var sdisk *ethdb.MemDatabase
	var sdb *state.StateDB
	saddr := func(k string) common.Address { return common.BytesToAddress(append([]byte("verif-account-"), unhex(k)...)) }
	for {
		line, err := in.ReadBytes('\n')
		if len(line) == 0 && err != nil {
			return
		}
		var q req
		var r resp
		if e := json.Unmarshal(line, &q); e != nil {
			r.Err = e.Error()
		} else {
			func() {
				defer func() {
					if p := recover(); p != nil {
						r.Err = fmt.Sprint("panic: ", p)
					}
				}()
				switch q.Cmd {
				case "trie-new":
					disk = ethdb.NewMemDatabase()
					tdb = trie.NewDatabase(disk)
					t, _ = trie.New(common.Hash{}, tdb)
				case "trie-put":
					t.Update(unhex(q.Key), unhex(q.Value))
				case "trie-del":
					t.Delete(unhex(q.Key))
				case "trie-get":
					r.Value = hex.EncodeToString(t.Get(unhex(q.Key)))
				case "trie-root":
					root, e := t.Commit(nil)
					if e != nil {
						r.Err = e.Error()
					}
					r.Value = hex.EncodeToString(root[:])
				case "trie-reopen":
					root, _ := t.Commit(nil)
					tdb.Commit(root, false)
					tdb = trie.NewDatabase(disk)
					nt, e := trie.New(root, tdb)
					if e != nil {
						r.Err = e.Error()
					} else {
						t = nt
					}
					r.Value = hex.EncodeToString(root[:])
				case "sdb-new":
					sdisk = ethdb.NewMemDatabase()
					sdb, _ = state.New(common.Hash{}, state.NewDatabase(sdisk))
				case "sdb-setnonce":
					sdb.SetNonce(saddr(q.Key), new(big.Int).SetBytes(unhex(q.Value)).Uint64())
				case "sdb-addbal":
					sdb.AddBalance(saddr(q.Key), new(big.Int).SetBytes(unhex(q.Value)))
				case "sdb-setstate":
					kv := unhex(q.Value)
					sdb.SetState(saddr(q.Key), common.BytesToHash(kv[:1]), common.BytesToHash(kv[1:]))
				case "sdb-suicide":
					sdb.Suicide(saddr(q.Key))
				case "sdb-create":
					sdb.CreateAccount(saddr(q.Key))
				case "sdb-snapshot":
					r.Value = fmt.Sprint(sdb.Snapshot())
				case "sdb-revert":
					sdb.RevertToSnapshot(int(new(big.Int).SetBytes(unhex(q.Value)).Int64()))
				case "sdb-finalise":
					sdb.Finalise(true)
				case "sdb-finalise0":
					sdb.Finalise(false)
				case "sdb-root", "sdb-root0":
					root := sdb.IntermediateRoot(q.Cmd == "sdb-root")
					r.Value = hex.EncodeToString(root[:])
				case "sdb-commit", "sdb-commit0":
					root, e := sdb.Commit(q.Cmd == "sdb-commit")
					if e != nil {
						r.Err = e.Error()
					}
					sdb.Database().TrieDB().Commit(root, false)
					nsdb, e := state.New(root, state.NewDatabase(sdisk))
					if e != nil {
						r.Err = e.Error()
					} else {
						sdb = nsdb
					}
					r.Value = hex.EncodeToString(root[:])
				case "evm-run":
					res := runEvm(q.Evm)
					b, _ := json.Marshal(res)
					r.Value = string(b)
				default:
					r.Err = "unknown command"
				}
			}()
		}
		b, _ := json.Marshal(r)
		out.Write(b)
		out.WriteByte('\n')
		out.Flush()
		if err != nil {
			return
		}
	}
}
