package main

// Engines "pool" (evm.ethTxPool through the verif shim) and "mempool" (gemmill/mempool), property C19.

import (
	"crypto/ecdsa"
	"flag"
	"fmt"
	"io/ioutil"
	"math/big"
	"path/filepath"
	"sort"
	"strings"
	"sync"
	"time"

	"github.com/spf13/viper"

	"github.com/dappledger/AnnChain/chain/app/evm"
	"github.com/dappledger/AnnChain/eth/common"
	etypes "github.com/dappledger/AnnChain/eth/core/types"
	ecrypto "github.com/dappledger/AnnChain/eth/crypto"
	"github.com/dappledger/AnnChain/eth/rlp"
	"github.com/dappledger/AnnChain/gemmill/mempool"
	"github.com/dappledger/AnnChain/gemmill/types"
)

type PoolOp struct {
	Op      string `json:"op"` // submit admin reap commit flush maxnonce
	Acct    int    `json:"acct,omitempty"`
	Nonce   uint64 `json:"nonce,omitempty"`
	Variant int    `json:"variant,omitempty"` // payload variant: same (acct, nonce), different hash
	Admin   int    `json:"admin,omitempty"`
	Take    int    `json:"take,omitempty"`    // commit: how many of the last reap go into the block
	FailAt  int    `json:"fail_at,omitempty"` // commit: position (in the block) of a tx whose execution fails; 0 = none
}
type PoolCase struct {
	Accounts int      `json:"accounts"`
	PLimit   int      `json:"plimit"`
	WLimit   int      `json:"wlimit"`
	Ops      []PoolOp `json:"ops"`
}

func genPoolCase(r *Rng, directed int) PoolCase {
	c := PoolCase{Accounts: 1 + r.Intn(3), PLimit: 40, WLimit: 40}
	if directed%5 == 0 { // limits that bind: single account so that map order cannot matter
		c.Accounts = 1
		c.PLimit = 2 + r.Intn(4)
		c.WLimit = 2 + r.Intn(4)
	}
	next := make([]uint64, c.Accounts) // generator's idea of the next fresh nonce per account
	n := 8 + r.Intn(40)
	for i := 0; i < n; i++ {
		a := r.Intn(c.Accounts)
		switch roll := r.Intn(100); {
		case roll < 45:
			op := PoolOp{Op: "submit", Acct: a, Nonce: next[a]}
			switch r.Intn(8) {
			case 0: // gap
				op.Nonce = next[a] + 1 + uint64(r.Intn(3))
			case 1: // stale or repeated nonce, other payload
				if next[a] > 0 {
					op.Nonce = next[a] - 1 - uint64(r.Intn(int(next[a])))
				}
				op.Variant = 1 + r.Intn(2)
			case 2: // exact duplicate of something earlier
				if next[a] > 0 {
					op.Nonce = next[a] - 1
				}
			default:
				next[a]++
			}
			if op.Nonce >= next[a] {
				next[a] = op.Nonce + 1
			}
			c.Ops = append(c.Ops, op)
		case roll < 52:
			c.Ops = append(c.Ops, PoolOp{Op: "admin", Admin: r.Intn(6)})
		case roll < 68:
			c.Ops = append(c.Ops, PoolOp{Op: "reap"})
		case roll < 90:
			op := PoolOp{Op: "commit", Take: r.Intn(8)}
			if r.Chance(1, 4) {
				op.FailAt = 1 + r.Intn(4)
			}
			c.Ops = append(c.Ops, PoolOp{Op: "reap"}, op)
		case roll < 93:
			c.Ops = append(c.Ops, PoolOp{Op: "flush"})
		default:
			c.Ops = append(c.Ops, PoolOp{Op: "maxnonce", Acct: a})
		}
	}
	c.Ops = append(c.Ops, PoolOp{Op: "reap"})
	return c
}

type poolTx struct {
	acct  int
	nonce uint64
	id    int
	raw   []byte
}

func runPoolCase(idx int, c PoolCase) (string, []MonitorHit, map[string]int, bool) {
	var hits []MonitorHit
	dist := map[string]int{}
	hit := func(sig, what string) { hits = append(hits, MonitorHit{Case: idx, Sig: sig, What: what}) }
	vp, err := evm.NewVerifPool(c.PLimit, c.WLimit)
	if err != nil {
		hit("pool-init", err.Error())
		return "(0 0 ())", hits, dist, false
	}
	keys := make([]*ecdsa.PrivateKey, c.Accounts)
	addrs := make([]common.Address, c.Accounts)
	acctOf := map[common.Address]int{}
	for i := range keys {
		k, _ := ecrypto.ToECDSA(ecrypto.Keccak256([]byte(fmt.Sprintf("verif-account-%d", i))))
		keys[i] = k
		addrs[i] = ecrypto.PubkeyToAddress(k.PublicKey)
		acctOf[addrs[i]] = i
	}
	stateNonce := make([]uint64, c.Accounts)
	byHash := map[common.Hash]*poolTx{}
	byRaw := map[string]*poolTx{}
	made := map[string]*poolTx{}
	nextID := 1
	adminID := func(k int) int { return 100000 + k }
	mkTx := func(a int, nonce uint64, variant int) *poolTx {
		key := fmt.Sprintf("%d/%d/%d", a, nonce, variant)
		if t, ok := made[key]; ok {
			return t
		}
		tx := etypes.NewTransaction(nonce, common.BytesToAddress([]byte{0xaa}), big.NewInt(int64(variant)), 21000, big.NewInt(1), nil)
		signed, err := etypes.SignTx(tx, vp.Signer(), keys[a])
		if err != nil {
			panic(err)
		}
		raw, _ := rlp.EncodeToBytes(signed)
		t := &poolTx{acct: a, nonce: nonce, id: nextID, raw: raw}
		nextID++
		byHash[signed.Hash()] = t
		byRaw[string(raw)] = t
		made[key] = t
		return t
	}
	nonces := func() string {
		var s []string
		for i, n := range stateNonce {
			s = append(s, sxL(sxZ(int64(i)), sxU(n)))
		}
		return sxL(s...)
	}
	queueSx := func(q map[common.Address][]evm.VerifPoolTx) (string, int) {
		type row struct {
			a   int
			txs []evm.VerifPoolTx
		}
		var rows []row
		cnt := 0
		for a, l := range q {
			rows = append(rows, row{acctOf[a], l})
			cnt += len(l)
		}
		sort.Slice(rows, func(i, j int) bool { return rows[i].a < rows[j].a })
		var out []string
		for _, rw := range rows {
			var ts []string
			for _, t := range rw.txs {
				id := 0
				if p, ok := byHash[t.Hash]; ok {
					id = p.id
				}
				ts = append(ts, sxL(sxU(t.Nonce), sxZ(int64(id))))
			}
			out = append(out, sxL(sxZ(int64(rw.a)), sxL(ts...)))
		}
		return sxL(out...), cnt
	}
	snapshot := func() string {
		pend, wait, all, ext := vp.Snapshot()
		ps, pc := queueSx(pend)
		ws, wc := queueSx(wait)
		var ids []int
		for _, h := range all {
			if p, ok := byHash[h]; ok {
				ids = append(ids, p.id)
			}
		}
		sort.Ints(ids)
		as := make([]string, len(ids))
		for i, id := range ids {
			as[i] = sxZ(int64(id))
		}
		var es []string
		for _, e := range ext {
			var k int
			fmt.Sscanf(string(e[4:]), "admin-%d", &k)
			es = append(es, sxZ(int64(adminID(k))))
		}
		// bounds
		if pc > c.PLimit {
			hit("pending-over-limit", fmt.Sprintf("%d pending transactions with limit %d", pc, c.PLimit))
		}
		if wc > c.WLimit {
			hit("waiting-over-limit", fmt.Sprintf("%d waiting transactions with limit %d", wc, c.WLimit))
		}
		if len(all) > pc+wc {
			hit("lookup-map-leak", fmt.Sprintf("the lookup map holds %d transactions but only %d are queued (pending %d + waiting %d): entries that can never be offered or evicted", len(all), pc+wc, pc, wc))
		}
		if len(ext) > c.PLimit {
			hit("ext-over-limit", "administrative list over its limit")
		}
		return sxL(ps, ws, sxL(as...), sxL(es...), sxZ(int64(vp.Size())))
	}
	var ops []string
	committed := map[int]bool{}   // ids contained in some committed block
	resubmitted := map[int]bool{} // administrative requests submitted again after a block contained them
	var lastReap []*poolTx
	var lastReapRaw [][]byte
	nontrivial := false
	for _, op := range c.Ops {
		dist["op:"+op.Op]++
		switch op.Op {
		case "submit":
			t := mkTx(op.Acct, op.Nonce, op.Variant)
			ns := nonces()
			err := vp.ReceiveTx(t.raw)
			code := 0
			switch {
			case err == nil:
			case strings.Contains(err.Error(), "tx already exist in cache"):
				code = 1
			case strings.Contains(err.Error(), "different with getNonce"):
				code = 2
			case strings.Contains(err.Error(), "waiting queue is full"):
				code = 3
			case strings.Contains(err.Error(), "tx nonce already exist"):
				code = 4
			default:
				code = 5
			}
			dist[fmt.Sprintf("submit-code:%d", code)]++
			ops = append(ops, sxL("0", sxL(sxZ(int64(t.acct)), sxU(t.nonce), sxZ(int64(t.id))), ns, sxZ(int64(code)), snapshot()))
		case "admin":
			raw := types.TagAdminOPTx([]byte(fmt.Sprintf("admin-%d", op.Admin)))
			if committed[adminID(op.Admin)] {
				resubmitted[adminID(op.Admin)] = true
			}
			err := vp.ReceiveTx(raw)
			code := 0
			if err != nil {
				code = 1
			}
			ops = append(ops, sxL("1", sxZ(int64(adminID(op.Admin))), sxZ(int64(code)), snapshot()))
		case "reap":
			raws := vp.Reap(1 << 20)
			lastReap = nil
			lastReapRaw = raws
			var ext []string
			per := map[int][]*poolTx{}
			seen := map[string]bool{}
			for _, raw := range raws {
				if types.IsAdminOP(raw) {
					var k int
					fmt.Sscanf(string(raw[4:]), "admin-%d", &k)
					ext = append(ext, sxZ(int64(adminID(k))))
					if committed[adminID(k)] {
						if resubmitted[adminID(k)] {
							hit("reoffer-after-commit kind=admin-resubmitted", "an administrative request contained in a committed block was accepted again and is offered again")
						} else {
							hit("reoffer-after-commit kind=admin", "an administrative request contained in a committed block is still offered")
						}
					}
					continue
				}
				t := byRaw[string(raw)]
				if t == nil {
					hit("reap-unknown-tx", "Reap returned bytes that were never submitted")
					continue
				}
				lastReap = append(lastReap, t)
				per[t.acct] = append(per[t.acct], t)
				k := fmt.Sprintf("%d/%d", t.acct, t.nonce)
				if seen[k] {
					hit("reap-duplicate-nonce", fmt.Sprintf("two transactions of account %d with nonce %d in one reap", t.acct, t.nonce))
				}
				seen[k] = true
				if committed[t.id] {
					hit("reoffer-after-commit kind=failed-execution", fmt.Sprintf("transaction %d (account %d nonce %d) was contained in a committed block and is offered again", t.id, t.acct, t.nonce))
				}
			}
			var accts []int
			for a := range per {
				accts = append(accts, a)
			}
			sort.Ints(accts)
			var q []string
			for _, a := range accts {
				var ts []string
				for i, t := range per[a] {
					ts = append(ts, sxL(sxU(t.nonce), sxZ(int64(t.id))))
					if t.nonce != stateNonce[a]+uint64(i) {
						hit("reap-not-consecutive", fmt.Sprintf("account %d: offered nonce %d at position %d with state nonce %d", a, t.nonce, i, stateNonce[a]))
					}
				}
				q = append(q, sxL(sxZ(int64(a)), sxL(ts...)))
			}
			ops = append(ops, sxL("2", sxL(ext...), sxL(q...)))
		case "commit":
			// the block is a prefix of the last reap (kept in the order offered)
			take := op.Take
			if take > len(lastReapRaw) {
				take = len(lastReapRaw)
			}
			block := lastReapRaw[:take]
			var ids []string
			okSoFar := map[int]bool{}
			pos := 0
			for _, raw := range block {
				pos++
				if types.IsAdminOP(raw) {
					var k int
					fmt.Sscanf(string(raw[4:]), "admin-%d", &k)
					ids = append(ids, sxZ(int64(adminID(k))))
					committed[adminID(k)] = true
					continue
				}
				t := byRaw[string(raw)]
				ids = append(ids, sxZ(int64(t.id)))
				committed[t.id] = true
				failed, known := okSoFar[t.acct]
				if !known {
					failed = false
				}
				if op.FailAt == pos {
					failed = true // e.g. transfer above balance: reported invalid, nonce not advanced
				}
				if !failed && t.nonce == stateNonce[t.acct] {
					stateNonce[t.acct]++
				} else {
					failed = true
				}
				okSoFar[t.acct] = failed
			}
			if take > 0 {
				nontrivial = true
			}
			vp.Update(1, block)
			ops = append(ops, sxL("3", sxL(ids...), snapshot()))
			for i, a := range addrs {
				vp.SetNonce(a, stateNonce[i])
			}
			vp.UpdateToState()
			ops = append(ops, sxL("4", nonces(), snapshot()))
			lastReap, lastReapRaw = nil, nil
		case "flush":
			vp.Flush()
			ops = append(ops, sxL("5", snapshot()))
		case "maxnonce":
			v, _ := vp.GetPendingMaxNonce(addrs[op.Acct].Bytes())
			ops = append(ops, sxL("6", sxZ(int64(op.Acct)), nonces(), sxU(v)))
		}
	}
	return sxL(sxZ(int64(c.PLimit)), sxZ(int64(c.WLimit)), sxL(ops...)), hits, dist, nontrivial
}

// ---------------------------------------------------------------- gemmill/mempool

type MemOp struct {
	Op  string `json:"op"` // submit reap commit race (N goroutines hand in transaction ID at the same moment)
	ID  int    `json:"id,omitempty"`
	N   int    `json:"n,omitempty"`
	IDs []int  `json:"ids,omitempty"`
}
type MemCase struct {
	Ops []MemOp `json:"ops"`
}

func genMemCase(r *Rng, directed int) MemCase {
	var c MemCase
	n := 6 + r.Intn(30)
	fresh := 1
	for i := 0; i < n; i++ {
		switch roll := r.Intn(100); {
		case roll < 50:
			id := fresh
			if fresh > 1 && r.Chance(1, 3) {
				id = 1 + r.Intn(fresh-1) // resubmission
			} else {
				fresh++
			}
			if r.Chance(1, 5) {
				// the same bytes from several sides at once (RPC and gossiping peers, one goroutine each)
				c.Ops = append(c.Ops, MemOp{Op: "race", ID: id, N: 2 + r.Intn(3)})
			} else {
				c.Ops = append(c.Ops, MemOp{Op: "submit", ID: id})
			}
		case roll < 75:
			c.Ops = append(c.Ops, MemOp{Op: "reap", N: []int{-1, 0, 1, 2, 5, 100}[r.Intn(6)]})
		default:
			c.Ops = append(c.Ops, MemOp{Op: "commit", N: r.Intn(4)})
		}
	}
	c.Ops = append(c.Ops, MemOp{Op: "reap", N: -1})
	return c
}

func runMemCase(idx int, c MemCase) (string, []MonitorHit, map[string]int, bool) {
	var hits []MonitorHit
	dist := map[string]int{}
	hit := func(sig, what string) { hits = append(hits, MonitorHit{Case: idx, Sig: sig, What: what}) }
	mp := mempool.NewMempool(viper.New())
	// the application's CheckTx, registered as a filter: during a "race" it holds every submitter
	// until all of them are inside ReceiveTx (or 200 ms have passed), so that the schedule in which
	// they all pass the first duplicate lookup before any of them records the transaction is the
	// one that runs
	var gate struct {
		sync.Mutex
		want, have int
		open       chan struct{}
	}
	mp.RegisterFilter(types.NewTxpoolFilter(func([]byte) (bool, error) {
		gate.Lock()
		if gate.want == 0 {
			gate.Unlock()
			return true, nil
		}
		gate.have++
		ch := gate.open
		if gate.have == gate.want {
			close(ch)
			gate.want = 0
		}
		gate.Unlock()
		select {
		case <-ch:
		case <-time.After(200 * time.Millisecond):
		}
		return true, nil
	}))
	raw := func(id int) types.Tx { return types.Tx(fmt.Sprintf("tx-%d", id)) }
	idOf := func(t types.Tx) int { var k int; fmt.Sscanf(string(t), "tx-%d", &k); return k }
	committed := map[int]bool{}
	var ops []string
	nontrivial := false
	for _, op := range c.Ops {
		dist["op:"+op.Op]++
		switch op.Op {
		case "submit":
			err := mp.ReceiveTx(raw(op.ID))
			ops = append(ops, sxL("0", sxZ(int64(op.ID)), sxBool(err == nil)))
		case "race":
			gate.Lock()
			gate.want, gate.have, gate.open = op.N, 0, make(chan struct{})
			gate.Unlock()
			var wg sync.WaitGroup
			var amtx sync.Mutex
			accepted := 0
			for g := 0; g < op.N; g++ {
				wg.Add(1)
				go func() {
					defer wg.Done()
					if mp.ReceiveTx(raw(op.ID)) == nil {
						amtx.Lock()
						accepted++
						amtx.Unlock()
					}
				}()
			}
			wg.Wait()
			gate.Lock()
			gate.want = 0
			gate.Unlock()
			if accepted > 1 {
				hit("duplicate-accepted", fmt.Sprintf("%d of %d simultaneous submissions of the same transaction were accepted", accepted, op.N))
			}
			// to the model: the same submissions one after the other, the accepted ones first
			for g := 0; g < op.N; g++ {
				ops = append(ops, sxL("0", sxZ(int64(op.ID)), sxBool(g < accepted)))
			}
		case "reap":
			txs := mp.Reap(op.N)
			ids := make([]string, len(txs))
			seen := map[int]bool{}
			for i, t := range txs {
				id := idOf(t)
				ids[i] = sxZ(int64(id))
				if seen[id] {
					hit("reap-duplicate", "the same transaction twice in one reap")
				}
				seen[id] = true
				if committed[id] {
					hit("reoffer-after-commit kind=resubmitted", fmt.Sprintf("transaction %d was contained in a committed block, was accepted again and is offered again", id))
				}
			}
			ops = append(ops, sxL("1", sxZ(int64(op.N)), sxL(ids...)))
		case "commit":
			txs := mp.Reap(op.N)
			var ids []string
			for _, t := range txs {
				committed[idOf(t)] = true
				ids = append(ids, sxZ(int64(idOf(t))))
			}
			mp.Update(1, txs)
			ops = append(ops, sxL("2", sxL(ids...)))
			if len(txs) > 0 {
				nontrivial = true
			}
		}
	}
	return sxL(ops...), hits, dist, nontrivial
}

// engines whose cases mostly wait (child processes, timers) run them concurrently
var genericParallel = 1

func runGenericEngine(name, rule string, args []string, gen func(*Rng, int) interface{}, load func(string) (interface{}, error),
	run func(int, interface{}, string) (string, []MonitorHit, map[string]int, bool)) error {
	var corpus string
	c, err := commonFlags(name, args, func(fs *flag.FlagSet) { fs.StringVar(&corpus, "corpus", "", "") })
	if err != nil {
		return err
	}
	meta := NewMeta(name, c.Seed)
	meta.Rule = rule
	var cases []interface{}
	if c.Replay != "" {
		x, err := load(c.Replay)
		if err != nil {
			return err
		}
		cases = append(cases, x)
	} else {
		var fs []string
		if corpus != "" {
			fs, _ = filepath.Glob(filepath.Join(corpus, "*.json"))
		}
		for _, f := range fs {
			if x, err := load(f); err == nil {
				cases = append(cases, x)
				meta.Dist["corpus"]++
			}
		}
		r := NewRng(c.Seed)
		for i := 0; i < c.N; i++ {
			cases = append(cases, gen(r.Fork(), i))
		}
	}
	dist := NewDistinct()
	var sb strings.Builder
	type caseRes struct {
		line string
		hits []MonitorHit
		d    map[string]int
		nt   bool
	}
	results := make([]caseRes, len(cases))
	if genericParallel > 1 {
		sem := make(chan struct{}, genericParallel)
		var wg sync.WaitGroup
		for i := range cases {
			wg.Add(1)
			sem <- struct{}{}
			go func(i int) {
				defer wg.Done()
				defer func() { <-sem }()
				r := &results[i]
				r.line, r.hits, r.d, r.nt = run(i, cases[i], c.Out)
			}(i)
		}
		wg.Wait()
	}
	for i, cs := range cases {
		var line string
		var hits []MonitorHit
		var d map[string]int
		var nt bool
		if genericParallel > 1 {
			line, hits, d, nt = results[i].line, results[i].hits, results[i].d, results[i].nt
		} else {
			line, hits, d, nt = run(i, cs, c.Out)
		}
		sb.WriteString(line + "\n")
		meta.Monitor = append(meta.Monitor, hits...)
		for k, v := range d {
			meta.Dist[k] += v
		}
		writeCase(c.Out, i, cs)
		meta.Evaluations++
		if nt {
			dist.Add(line)
		}
		if i < 1 {
			meta.Samples = append(meta.Samples, cs)
		}
	}
	meta.Distinct = dist.Len()
	if err := ioutil.WriteFile(filepath.Join(c.Out, "cases.sx"), []byte(sb.String()), 0644); err != nil {
		return err
	}
	return meta.Write(c.Out)
}

func init() {
	engines["pool"] = func(args []string) error {
		return runGenericEngine("pool",
			"case = operation history on the EVM application's pool (through the verif constructor, account nonces in an in-memory state): submissions with fresh, gapped, stale and repeated nonces and exact duplicates from 1..3 accounts, administrative requests, full reaps, commits of a prefix of the last reap in which one transaction may fail execution (nonce not advanced), flushes, pending-max-nonce queries; one case in five uses a single account with limits of 2..5 so that the limits bind; the whole pool is observed after every operation; distinct = case line; non-trivial = a non-empty block was committed",
			args,
			func(r *Rng, i int) interface{} { return genPoolCase(r, i) },
			func(f string) (interface{}, error) {
				var rc struct {
					Case PoolCase `json:"case"`
				}
				err := readJSON(f, &rc)
				if err == nil && len(rc.Case.Ops) == 0 {
					err = fmt.Errorf("not a pool case")
				}
				return rc.Case, err
			},
			func(i int, x interface{}, out string) (string, []MonitorHit, map[string]int, bool) {
				return runPoolCase(i, x.(PoolCase))
			})
	}
	engines["mempool"] = func(args []string) error {
		return runGenericEngine("mempool",
			"case = operation history on gemmill/mempool: submissions (one in three a resubmission of an earlier transaction; one in five handed in by 2..4 goroutines at the same moment, all held inside the registered CheckTx filter until every one of them has passed the first duplicate lookup), reaps with limits -1, 0, 1, 2, 5, 100, commits of the first 0..3 transactions; distinct = case line; non-trivial = a non-empty block was committed",
			args,
			func(r *Rng, i int) interface{} { return genMemCase(r, i) },
			func(f string) (interface{}, error) {
				var rc struct {
					Case MemCase `json:"case"`
				}
				err := readJSON(f, &rc)
				if err == nil && len(rc.Case.Ops) == 0 {
					err = fmt.Errorf("not a mempool case")
				}
				return rc.Case, err
			},
			func(i int, x interface{}, out string) (string, []MonitorHit, map[string]int, bool) {
				return runMemCase(i, x.(MemCase))
			})
	}
}
