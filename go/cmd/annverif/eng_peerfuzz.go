package main

// Engine "peerfuzz" (C08): a complete single-validator node (child process: Angine with the
// consensus, block-sync, mempool and peer-exchange reactors, real MConnections over loopback TCP)
// that keeps producing blocks while scripted peers - real p2p.Switches in the harness - put bytes
// in front of every reactor's Receive: raw and mutated bytes, and structurally valid messages of
// every registered message type of the channel with boundary and adversarial fields, on the
// consensus state / data / vote / vote-bits channels, the block-sync channel, the mempool channel
// and the peer-exchange channel.  The node may drop the message or the peer; it must not die and
// must keep committing blocks during and after the barrage.  No model: monitors only (the decoding
// of every message type is C18's model; what the consensus state machine does with a decoded
// message is the peerinput engine's).

import (
	"bufio"
	"bytes"
	"encoding/json"
	"fmt"
	"io/ioutil"
	"os"
	"os/exec"
	"reflect"
	"strings"
	"sync"
	"time"

	crypto "github.com/dappledger/AnnChain/gemmill/go-crypto"
	"github.com/dappledger/AnnChain/gemmill/go-wire"
	"github.com/dappledger/AnnChain/gemmill/p2p"
	"github.com/dappledger/AnnChain/gemmill/types"
	"github.com/spf13/viper"
)

type fuzzCase struct {
	Seed     uint64 `json:"seed"`
	Messages int    `json:"messages"`
	Pex      bool   `json:"pex"`
	Note     string `json:"note,omitempty"`
}

func genFuzzCase(r *Rng, i int) *fuzzCase {
	return &fuzzCase{Seed: r.U64(), Messages: 40 + r.Intn(120), Pex: r.Chance(2, 3)}
}

type sprayReactor struct {
	p2p.BaseReactor
	ids   []byte
	onAdd func(*p2p.Peer)
	gone  chan struct{}
	once  sync.Once
}

func (s *sprayReactor) GetChannels() []*p2p.ChannelDescriptor {
	var ds []*p2p.ChannelDescriptor
	for _, id := range s.ids {
		ds = append(ds, &p2p.ChannelDescriptor{ID: id, Priority: 1, SendQueueCapacity: 200})
	}
	return ds
}
func (s *sprayReactor) AddPeer(peer *p2p.Peer) {
	if s.onAdd != nil {
		go s.onAdd(peer)
	}
}
func (s *sprayReactor) RemovePeer(peer *p2p.Peer, reason interface{}) {
	s.once.Do(func() { close(s.gone) })
}
func (s *sprayReactor) Receive(chID byte, src *p2p.Peer, msg []byte) {}

// the message interface carried by each channel
var fuzzChannels = []struct {
	id   byte
	name string
	typ  string
}{
	{0x00, "pex", "p2p.PexMessage"},
	{0x20, "consensus-state", "pbft.ConsensusMessage"},
	{0x21, "consensus-data", "pbft.ConsensusMessage"},
	{0x22, "consensus-vote", "pbft.ConsensusMessage"},
	{0x23, "consensus-votebits", "pbft.ConsensusMessage"},
	{0x30, "mempool", "mempool.MempoolMessage"},
	{0x40, "blocksync", "blockchain.BlockchainMessage"},
}

func runFuzzCase(idx int, c *fuzzCase) (string, []MonitorHit, map[string]int, bool) {
	dist := map[string]int{}
	var hits []MonitorHit
	var hmtx sync.Mutex
	hit := func(sig, what string) {
		hmtx.Lock()
		hits = append(hits, MonitorHit{Case: idx, Sig: sig, What: what})
		hmtx.Unlock()
	}
	count := func(k string) { hmtx.Lock(); dist[k]++; hmtx.Unlock() }
	r := NewRng(c.Seed)
	dir, _ := ioutil.TempDir("", "annverif-fuzz")
	defer func() {
		if len(hits) > 0 && os.Getenv("VERIF_KEEP") != "" {
			fmt.Fprintf(os.Stderr, "KEPT %s for case %d\n", dir, idx)
			return
		}
		os.RemoveAll(dir)
	}()
	secret := fmt.Sprintf("fuzz-val-%d", c.Seed)
	pk := crypto.GenPrivKeyEd25519FromSecret([]byte(secret))
	gd := &types.GenesisDoc{ChainID: "verif-chain", Plugins: "adminOp,querycache"}
	gd.Validators = append(gd.Validators, types.GenesisValidator{PubKey: pk.PubKey(), Amount: 10, IsCA: true})
	gfile := dir + "-genesis.json"
	gd.SaveAs(gfile)
	defer os.Remove(gfile)
	genesisJSON := gd.JSONBytes()
	sf := dir + "-script.json"
	g := genCrashCase(r.Fork(), idx)
	writeJSONFile(sf, &nodeScript{Target: 1 << 40, TimeoutMS: 45000, TxsAtHeight: g.Txs})
	defer os.Remove(sf)
	stopFile := dir + "-stop"
	defer os.Remove(stopFile)
	args := []string{"node", "--dir", dir, "--script", sf, "--genesis", gfile, "--key-secret", secret, "--stop-file", stopFile}
	if c.Pex {
		args = append(args, "--pex")
		dist["pex=on"]++
	}
	cmd := exec.Command(os.Args[0], args...)
	var stderr bytes.Buffer
	cmd.Stderr = &stderr
	out, _ := cmd.StdoutPipe()
	if err := cmd.Start(); err != nil {
		hit("harness-error", err.Error())
		return "(9)", hits, dist, false
	}
	killer := time.AfterFunc(70*time.Second, func() { cmd.Process.Kill() })
	defer killer.Stop()
	listen := make(chan string, 1)
	var rep *nodeReport
	var mtx sync.Mutex
	top := int64(0)
	done := make(chan struct{})
	go func() {
		defer close(done)
		sc := bufio.NewScanner(out)
		sc.Buffer(make([]byte, 1<<20), 1<<26)
		for sc.Scan() {
			line := sc.Text()
			if strings.HasPrefix(line, "NODE-LISTEN ") {
				select {
				case listen <- strings.TrimPrefix(line, "NODE-LISTEN "):
				default:
				}
			} else if strings.HasPrefix(line, "NODE-BLOCK ") {
				var h int64
				var hash string
				fmt.Sscanf(line, "NODE-BLOCK %d %s", &h, &hash)
				mtx.Lock()
				if h > top {
					top = h
				}
				mtx.Unlock()
			} else if strings.HasPrefix(line, "NODE-REPORT ") {
				var x nodeReport
				if json.Unmarshal([]byte(line[len("NODE-REPORT "):]), &x) == nil {
					rep = &x
				}
			}
		}
	}()
	height := func() int64 { mtx.Lock(); defer mtx.Unlock(); return top }
	finish := func() {
		ioutil.WriteFile(stopFile, []byte("stop"), 0644)
		select {
		case <-done:
		case <-time.After(20 * time.Second):
			cmd.Process.Kill()
			<-done
		}
		cmd.Wait()
	}
	var addr string
	select {
	case addr = <-listen:
	case <-time.After(15 * time.Second):
		cmd.Process.Kill()
		<-done
		cmd.Wait()
		hit("harness-error", "the node did not come up: "+tailOf(stderr.String(), 800))
		return "(9)", hits, dist, false
	}
	// wait for the first blocks
	for t0 := time.Now(); height() < 2 && time.Since(t0) < 15*time.Second; {
		time.Sleep(50 * time.Millisecond)
	}
	if height() < 2 {
		finish()
		hit("harness-error", "the node does not produce blocks on its own: "+tailOf(stderr.String(), 600))
		return "(9)", hits, dist, false
	}
	// the message types
	tys, _ := wireTypes()
	byName := map[string]wireType{}
	for _, t := range tys {
		byName[t.Name] = t
	}
	// the first peers send only well-formed messages (a node drops a peer at the first message it
	// cannot decode), later ones also mutated and raw bytes
	mode := 0
	payload := func(rr *Rng, chName, typ string) ([]byte, string) {
		t, ok := byName[typ]
		if !ok || (mode >= 2 && rr.Chance(1, 4)) {
			n := []int{0, 1, 2, 7, 64, 1000, 5000}[rr.Intn(7)]
			return rr.Bytes(n), "raw"
		}
		var enc []byte
		v := genWVal(t.D, rr, 0, genOpts{extreme: rr.Chance(1, 8)})
		p := reflect.New(t.RT)
		if pan, _ := catchPanic(func() { buildW(t.D, v, p.Elem()); enc = wire.BinaryBytes(p.Elem().Interface()) }); pan || len(enc) == 0 {
			return rr.Bytes(3), "raw"
		}
		if mode >= 1 && rr.Chance(1, 3) {
			m, _ := mutateW(rr, enc)
			return m, "mutated"
		}
		return enc, "well-formed"
	}
	sent := 0
	startH := height()
	for round := 0; round < 6 && sent < c.Messages; round++ {
		rr := r.Fork()
		mode = round % 3
		sp := &sprayReactor{gone: make(chan struct{})}
		for _, ch := range fuzzChannels {
			if ch.id == 0x00 && !c.Pex && rr.Bool() {
				continue // sometimes also a channel the node does not know
			}
			sp.ids = append(sp.ids, ch.id)
		}
		finished := make(chan struct{})
		sp.onAdd = func(peer *p2p.Peer) {
			defer close(finished)
			quota := sent + c.Messages/3 + 1
			for sent < c.Messages && sent < quota {
				ch := fuzzChannels[rr.Intn(len(fuzzChannels))]
				known := false
				for _, id := range sp.ids {
					if id == ch.id {
						known = true
					}
				}
				if !known {
					continue
				}
				b, kind := payload(rr, ch.name, ch.typ)
				ok := false
				catchPanic(func() { ok = peer.VerifSendRaw(ch.id, b) })
				if !ok {
					select {
					case <-sp.gone:
						return
					default:
					}
					if !peer.IsRunning() {
						return
					}
					time.Sleep(5 * time.Millisecond)
					continue
				}
				sent++
				count("sent=" + ch.name + "/" + kind)
				if rr.Chance(1, 5) {
					time.Sleep(time.Duration(rr.Intn(15)) * time.Millisecond)
				}
			}
		}
		sw := p2p.NewSwitch(viper.New())
		seed := make([]byte, 32)
		copy(seed, fmt.Sprintf("fuzz-peer-%d-%d", c.Seed, round))
		ppk := crypto.GenPrivKeyEd25519FromSecret(seed)
		sw.SetNodeInfo(&p2p.NodeInfo{PubKey: ppk.PubKey(), Moniker: fmt.Sprintf("fuzz%d", round), Network: "", Version: "0.9.0", ListenAddr: "127.0.0.1:0"})
		sw.SetNodePrivKey(ppk)
		sw.SetExchangeData(&p2p.ExchangeData{GenesisJSON: genesisJSON})
		sp.BaseReactor = *p2p.NewBaseReactor("SPRAY", sp)
		sw.AddReactor("SPRAY", sp)
		sw.Start()
		na, err := p2p.NewNetAddressString(addr)
		dialed := false
		if err == nil {
			catchPanic(func() {
				_, derr := sw.DialPeerWithAddress(na)
				dialed = derr == nil
			})
		}
		if dialed {
			count("peers-admitted")
			select {
			case <-finished:
			case <-time.After(8 * time.Second):
			}
			select {
			case <-sp.gone:
				count("peer-dropped-by-node")
			case <-time.After(150 * time.Millisecond):
			}
		} else {
			count("dial-refused")
			time.Sleep(100 * time.Millisecond)
		}
		catchPanic(func() { sw.Stop() })
	}
	dist["messages-sent"] += sent
	// the node must still be alive and committing
	endH := height()
	deadline := time.Now().Add(12 * time.Second)
	for height() < endH+2 && time.Now().Before(deadline) {
		select {
		case <-done:
			deadline = time.Now()
		default:
			time.Sleep(50 * time.Millisecond)
		}
	}
	after := height()
	alive := true
	select {
	case <-done:
		alive = false
	default:
	}
	// what the node printed before it was asked to stop (a stop that falls into a commit can end in
	// a "leveldb: closed" panic of the commit in flight: a crash like any other, C06's business)
	before := stderr.String()
	finish()
	if !alive {
		hit("node-died-on-peer-input", fmt.Sprintf("the node process ended during the barrage (%d messages sent): %s", sent, tailOf(stderr.String(), 700)))
	} else if after < endH+2 {
		hit("node-wedged-by-peer-input", fmt.Sprintf("no two more blocks within 12 s after %d messages: height %d -> %d (before the barrage %d)", sent, endH, after, startH))
	}
	if strings.Contains(before, "panic:") || strings.Contains(before, "fatal error:") {
		hit("node-panic at=peer-input", tailOf(before, 6000))
	}
	if rep == nil && alive {
		if strings.Contains(stderr.String(), "leveldb: closed") {
			count("stop-fell-into-a-commit")
		} else {
			hit("node-wedged-by-peer-input", "the node did not stop in order when asked: "+tailOf(stderr.String(), 1500))
		}
	}
	c.Note = fmt.Sprintf("sent=%d heights %d..%d..%d pex=%v", sent, startH, endH, after, c.Pex)
	return sxL(sxZ(int64(sent)), sxZ(after-startH)), hits, dist, sent > 0
}

func init() {
	engines["peerfuzz"] = func(args []string) error {
		genericParallel = 8
		return runGenericEngine("peerfuzz",
			"case = a complete single-validator node (child process, all reactors, peer exchange on or off) producing blocks while up to six scripted peers in turn connect over loopback TCP (real handshake, secret connection, MConnection) and send 40..160 messages on the peer-exchange, consensus state/data/vote/vote-bits, mempool and block-sync channels (and sometimes on a channel the node does not have): a quarter raw bytes of 0..5000 bytes, the rest structurally valid messages of the channel's registered message types generated from their reflected go-wire descriptors with boundary and adversarial fields (nil pointers, negative and huge integers, long and empty byte strings, absurd counts), a third of those mutated after encoding; monitors: the node process must not end, no panic or fatal error may reach its stderr, two more blocks must be committed within 12 s after the barrage, and it must stop in order when asked; what each peer experiences (dropped by the node or not) is only counted; distinct = case; non-trivial = something was sent",
			args,
			func(r *Rng, i int) interface{} { return genFuzzCase(r, i) },
			func(f string) (interface{}, error) {
				var c fuzzCase
				if err := readCase(f, &c); err != nil {
					return nil, err
				}
				return &c, nil
			},
			func(i int, ci interface{}, out string) (string, []MonitorHit, map[string]int, bool) {
				return runFuzzCase(i, ci.(*fuzzCase))
			})
	}
}
