package main

// Engine "parts" (property C17): drives gemmill/types.PartSet and go-merkle's simple tree.

import (
	"bytes"
	"flag"
	"fmt"
	"io/ioutil"
	"os"
	"path/filepath"
	"strings"

	ghash "github.com/dappledger/AnnChain/gemmill/go-hash"
	merkle "github.com/dappledger/AnnChain/gemmill/modules/go-merkle"
	"github.com/dappledger/AnnChain/gemmill/types"
)

type PartJ struct {
	Index int      `json:"index"`
	Bytes string   `json:"bytes"`
	Aunts []string `json:"aunts"`
	Kind  string   `json:"kind"` // how it was derived (genuine, dup, flip-bytes, ...)
}
type VerifyJ struct {
	Index int      `json:"index"`
	Total int      `json:"total"`
	Leaf  string   `json:"leaf"`
	Root  string   `json:"root"`
	Aunts []string `json:"aunts"`
	Kind  string   `json:"kind"`
}
type PartsCase struct {
	Data     string     `json:"data"`
	PartSize int        `json:"part_size"`
	HdrTotal int        `json:"hdr_total"`
	HdrHash  string     `json:"hdr_hash"`
	HdrKind  string     `json:"hdr_kind"`
	Adds     []PartJ    `json:"adds"`
	Verifies []VerifyJ  `json:"verifies"`
	Roots    [][]string `json:"roots"`
}

type hashItem []byte

func (h hashItem) Hash() []byte { return []byte(h) }

func toPart(p PartJ) *types.Part {
	au := make([][]byte, len(p.Aunts))
	for i, a := range p.Aunts {
		au[i] = unhex(a)
	}
	return &types.Part{Index: p.Index, Bytes: unhex(p.Bytes), Proof: merkle.SimpleProof{Aunts: au}}
}
func fromPart(p *types.Part, kind string) PartJ {
	au := make([]string, len(p.Proof.Aunts))
	for i, a := range p.Proof.Aunts {
		au[i] = hexs(a)
	}
	return PartJ{Index: p.Index, Bytes: hexs(p.Bytes), Aunts: au, Kind: kind}
}

func mutateBytes(r *Rng, b []byte) []byte {
	c := append([]byte{}, b...)
	switch {
	case len(c) == 0 || r.Chance(1, 6):
		c = append(c, byte(r.U64()))
	case r.Chance(1, 6):
		c = c[:len(c)-1]
	default:
		c[r.Intn(len(c))] ^= byte(1 << uint(r.Intn(8)))
	}
	return c
}

// genPartsCase builds the inputs of one case (using the implementation only to obtain genuine parts).
func genPartsCase(r *Rng, directed int) PartsCase {
	var c PartsCase
	psize := 1 + r.Intn(24)
	var dlen int
	switch directed % 8 {
	case 0:
		dlen = psize * (1 + r.Intn(6)) // exact multiple
	case 1:
		dlen = psize*(1+r.Intn(6)) + 1
	case 2:
		dlen = psize*(1+r.Intn(6)) - 1
	case 3:
		dlen = 1
	case 4:
		psize = 1
		dlen = 1 + r.Intn(12)
	default:
		dlen = 1 + r.Intn(120)
	}
	if dlen < 1 {
		dlen = 1
	}
	if directed == 5 {
		dlen = 0 // empty data: total 0, reader panics (modelled)
	}
	if directed%100 == 7 {
		// a block cut into many small parts: the tree is deeper than with the default part size
		// (more than 512 parts: ten aunts and more), every genuine part must still be accepted
		psize = 1 + r.Intn(2)
		dlen = psize * []int{513, 514, 515, 520, 600}[r.Intn(5)]
	}
	data := r.Bytes(dlen)
	c.Data = hexs(data)
	c.PartSize = psize
	ps := types.NewPartSetFromData(data, psize)
	total := ps.Total()
	c.HdrTotal = total
	c.HdrHash = hexs(ps.Hash())
	c.HdrKind = "genuine"
	if r.Chance(1, 12) {
		switch r.Intn(4) {
		case 0:
			c.HdrTotal = total + 1
			c.HdrKind = "total+1"
		case 1:
			if total > 1 {
				c.HdrTotal = total - 1
				c.HdrKind = "total-1"
			}
		case 2:
			c.HdrTotal = -1 - r.Intn(3)
			c.HdrKind = "negative-total"
		case 3:
			c.HdrHash = hexs(mutateBytes(r, ps.Hash()))
			c.HdrKind = "hash-mutated"
		}
	}
	genuine := make([]PartJ, total)
	for i := 0; i < total; i++ {
		genuine[i] = fromPart(ps.GetPart(i), "genuine")
	}
	// arrival order with duplicates and mutated parts interleaved
	if total > 0 {
		order := r.Perm(total)
		if r.Chance(1, 5) && total > 1 {
			order = order[:total-1-r.Intn(total-1)] // incomplete delivery
		}
		for _, i := range order {
			nm := r.Intn(3)
			for k := 0; k < nm; k++ {
				c.Adds = append(c.Adds, mutatePart(r, genuine, i, total))
			}
			c.Adds = append(c.Adds, genuine[i])
			if r.Chance(1, 4) {
				d := genuine[r.Intn(total)]
				d.Kind = "dup-or-early"
				c.Adds = append(c.Adds, d)
			}
		}
	}
	// direct Verify calls: every genuine proof plus mutations, and cross-total attempts
	for i := 0; i < total && i < 6; i++ {
		p := ps.GetPart(i)
		g := VerifyJ{Index: i, Total: total, Leaf: hexs(p.Hash()), Root: hexs(ps.Hash()), Aunts: genuine[i].Aunts, Kind: "genuine"}
		c.Verifies = append(c.Verifies, g)
		m := g
		m.Aunts = append([]string{}, g.Aunts...)
		switch r.Intn(7) {
		case 0:
			m.Index = -1 - r.Intn(total+1)
			m.Kind = "neg-index"
		case 1:
			m.Index = total + r.Intn(2)
			m.Kind = "index>=total"
		case 2:
			m.Index = (i + 1 + r.Intn(total)) % total
			m.Kind = "other-index"
			if m.Index == i {
				m.Index = -total
				m.Kind = "neg-index"
			}
		case 3:
			m.Total = total + 1 + r.Intn(2)
			m.Kind = "other-total"
		case 4:
			if total > 1 {
				m.Total = total - 1
			} else {
				m.Total = 0
			}
			m.Kind = "other-total"
		case 5:
			m.Leaf = hexs(mutateBytes(r, p.Hash()))
			m.Kind = "other-leaf"
		case 6:
			if len(m.Aunts) > 0 {
				k := r.Intn(len(m.Aunts))
				m.Aunts[k] = hexs(mutateBytes(r, unhex(m.Aunts[k])))
				m.Kind = "aunt-mutated"
			} else {
				m.Aunts = []string{hexs(r.Bytes(20))}
				m.Kind = "extra-aunt"
			}
		}
		c.Verifies = append(c.Verifies, m)
	}
	// bare roots over arbitrary hash lists
	nr := r.Intn(3)
	for k := 0; k < nr; k++ {
		n := r.Intn(14)
		var hs []string
		for j := 0; j < n; j++ {
			hs = append(hs, hexs(r.Bytes(1+r.Intn(24))))
		}
		c.Roots = append(c.Roots, hs)
	}
	return c
}

func mutatePart(r *Rng, genuine []PartJ, i, total int) PartJ {
	p := genuine[i]
	p.Aunts = append([]string{}, p.Aunts...)
	switch r.Intn(10) {
	case 0:
		p.Bytes = hexs(mutateBytes(r, unhex(p.Bytes)))
		p.Kind = "flip-bytes"
	case 1:
		p.Index = -1 - r.Intn(total+1)
		p.Kind = "neg-index"
	case 2:
		p.Index = total + r.Intn(3)
		p.Kind = "index>=total"
	case 3:
		if total > 1 {
			p.Index = (i + 1 + r.Intn(total-1)) % total
			p.Kind = "other-index"
		} else {
			p.Index = -1
			p.Kind = "neg-index"
		}
	case 4:
		if len(p.Aunts) > 0 {
			k := r.Intn(len(p.Aunts))
			p.Aunts[k] = hexs(mutateBytes(r, unhex(p.Aunts[k])))
			p.Kind = "aunt-mutated"
		} else {
			p.Aunts = []string{hexs(r.Bytes(20))}
			p.Kind = "extra-aunt"
		}
	case 5:
		if len(p.Aunts) > 0 {
			p.Aunts = p.Aunts[:len(p.Aunts)-1]
			p.Kind = "missing-aunt"
		} else {
			p.Aunts = []string{hexs(r.Bytes(20))}
			p.Kind = "extra-aunt"
		}
	case 6:
		p.Aunts = append(p.Aunts, hexs(r.Bytes(20)))
		p.Kind = "extra-aunt"
	case 7:
		if len(p.Aunts) > 1 {
			p.Aunts[0], p.Aunts[len(p.Aunts)-1] = p.Aunts[len(p.Aunts)-1], p.Aunts[0]
			p.Kind = "aunts-swapped"
		} else {
			p.Bytes = hexs(mutateBytes(r, unhex(p.Bytes)))
			p.Kind = "flip-bytes"
		}
	case 8:
		if total > 1 {
			j := (i + 1 + r.Intn(total-1)) % total
			p.Aunts = append([]string{}, genuine[j].Aunts...)
			p.Kind = "proof-of-other"
		} else {
			p.Bytes = hexs(mutateBytes(r, unhex(p.Bytes)))
			p.Kind = "flip-bytes"
		}
	case 9:
		if total > 1 {
			j := (i + 1 + r.Intn(total-1)) % total
			p.Bytes = genuine[j].Bytes
			p.Kind = "bytes-of-other"
		} else {
			p.Bytes = ""
			p.Kind = "flip-bytes"
		}
	}
	// a mutation may coincide with the genuine part (e.g. equal aunts); label it so
	if p.Index >= 0 && p.Index < total && partEq(p, genuine[p.Index]) {
		p.Kind = "genuine"
	}
	return p
}

func partEq(a, b PartJ) bool {
	if a.Index != b.Index || a.Bytes != b.Bytes || len(a.Aunts) != len(b.Aunts) {
		return false
	}
	for i := range a.Aunts {
		if a.Aunts[i] != b.Aunts[i] {
			return false
		}
	}
	return true
}

// PartsObs: what the implementation did on a case.
type PartsObs struct {
	Total     int
	Hash      []byte
	Parts     []PartJ
	HdrPanic  bool
	AddCodes  []int
	Complete  bool
	Read      []byte
	ReadPanic bool
	VerCodes  []int
	Roots     [][]byte
	Tbl       *HashRec
	Hits      []MonitorHit
	Locked    bool // the run reached a state where some part was rejected
}

func runPartsCase(idx int, c PartsCase) *PartsObs {
	o := &PartsObs{Tbl: NewHashRec()}
	orig := ghash.DoHash
	ghash.DoHash = o.Tbl.Wrap(orig)
	defer func() { ghash.DoHash = orig }()
	hit := func(sig, what string) { o.Hits = append(o.Hits, MonitorHit{Case: idx, Sig: sig, What: what}) }

	data := unhex(c.Data)
	ps := types.NewPartSetFromData(data, c.PartSize)
	o.Total = ps.Total()
	o.Hash = ps.Hash()
	genuine := make([]PartJ, o.Total)
	for i := 0; i < o.Total; i++ {
		genuine[i] = fromPart(ps.GetPart(i), "genuine")
	}
	o.Parts = genuine
	// monitor: determinism of the root
	ps2 := types.NewPartSetFromData(append([]byte{}, data...), c.PartSize)
	if !bytes.Equal(ps2.Hash(), ps.Hash()) {
		hit("root-nondeterministic", "two splits of the same data give different roots")
	}
	hdrGenuine := c.HdrTotal == o.Total && c.HdrHash == hexs(o.Hash)

	var recv *types.PartSet
	o.HdrPanic, _ = catchPanic(func() {
		recv = types.NewPartSetFromHeader(types.PartSetHeader{Total: c.HdrTotal, Hash: unhex(c.HdrHash)})
	})
	if !o.HdrPanic { // a negative total panics in make(); modelled (Panic), judged under C08
		have := map[int]bool{}
		for _, pj := range c.Adds {
			p := toPart(pj)
			var added bool
			var err error
			cntBefore := recv.Count()
			bitsBefore := recv.BitArray().String()
			pan, msg := catchPanic(func() { added, err = recv.AddPart(p, true) })
			code := 0
			switch {
			case pan:
				code = 9
				hit("addpart-panic kind="+pj.Kind, "AddPart panicked: "+msg)
			case added:
				code = 0
			case err == nil:
				code = 1
			case err == types.ErrPartSetUnexpectedIndex:
				code = 2
			case err == types.ErrPartSetInvalidProof:
				code = 3
			default:
				code = 8
			}
			o.AddCodes = append(o.AddCodes, code)
			if hdrGenuine {
				isGen := pj.Index >= 0 && pj.Index < o.Total && partEq(pj, genuine[pj.Index])
				// accept iff genuine and not yet present
				if code == 0 && !isGen {
					hit("accepted-non-genuine kind="+pj.Kind, fmt.Sprintf("AddPart accepted a part that is not the genuine part at index %d", pj.Index))
				}
				if isGen && !have[pj.Index] && code != 0 {
					hit("rejected-genuine", fmt.Sprintf("AddPart rejected the genuine part %d (code %d)", pj.Index, code))
				}
				if isGen && have[pj.Index] && code != 1 {
					hit("dup-not-ignored", fmt.Sprintf("duplicate of part %d gave code %d", pj.Index, code))
				}
			}
			if code != 0 {
				o.Locked = true
				if recv.Count() != cntBefore || recv.BitArray().String() != bitsBefore {
					hit("rejected-part-changed-set kind="+pj.Kind, "a rejected part changed the part set")
				}
			} else {
				have[pj.Index] = true
			}
		}
		o.Complete = recv.IsComplete()
		if o.Complete {
			o.ReadPanic, _ = catchPanic(func() {
				b, _ := ioutil.ReadAll(recv.GetReader())
				o.Read = b
			})
			if hdrGenuine {
				if o.ReadPanic && len(data) > 0 {
					hit("read-panic", "reading a complete part set panicked")
				}
				if !o.ReadPanic && !bytes.Equal(o.Read, data) {
					hit("reassembly-differs", "reassembled bytes differ from the original data")
				}
			}
		} else if hdrGenuine && len(have) == o.Total {
			hit("not-complete", "all genuine parts were added but the set is not complete")
		}
	}
	for _, v := range c.Verifies {
		au := make([][]byte, len(v.Aunts))
		for i, a := range v.Aunts {
			au[i] = unhex(a)
		}
		sp := &merkle.SimpleProof{Aunts: au}
		var ok bool
		pan, msg := catchPanic(func() { ok = sp.Verify(v.Index, v.Total, unhex(v.Leaf), unhex(v.Root)) })
		code := 0
		if pan {
			code = 9
			hit("verify-panic kind="+v.Kind, "SimpleProof.Verify panicked: "+msg)
		} else if ok {
			code = 1
		}
		o.VerCodes = append(o.VerCodes, code)
		if v.Kind == "genuine" && code != 1 {
			hit("genuine-proof-rejected", fmt.Sprintf("generated proof for index %d of %d does not verify", v.Index, v.Total))
		}
		if v.Kind != "genuine" && code == 1 {
			// only a violation if it really differs from the genuine statement (same root)
			if v.Root == hexs(o.Hash) && !(v.Index >= 0 && v.Index < o.Total && v.Total == o.Total &&
				v.Leaf == hexs(ghashOf(orig, unhex(genuine[v.Index].Bytes)))) {
				hit("foreign-proof-verifies kind="+v.Kind, fmt.Sprintf("proof verifies for index %d total %d (genuine total %d)", v.Index, v.Total, o.Total))
			}
		}
	}
	for _, hs := range c.Roots {
		items := make([][]byte, len(hs))
		for i, h := range hs {
			items[i] = unhex(h)
		}
		o.Roots = append(o.Roots, merkle.SimpleHashFromHashes(items))
	}
	return o
}

func ghashOf(f func([]byte) []byte, b []byte) []byte { return f(b) }

func sxPart(p PartJ) string {
	au := make([][]byte, len(p.Aunts))
	for i, a := range p.Aunts {
		au[i] = unhex(a)
	}
	return sxL(sxZ(int64(p.Index)), sxB(unhex(p.Bytes)), sxBs(au))
}

func partsCaseSx(c PartsCase, o *PartsObs) string {
	ps := make([]string, len(o.Parts))
	for i, p := range o.Parts {
		ps[i] = sxPart(p)
	}
	ads := []string{}
	for i, code := range o.AddCodes {
		ads = append(ads, sxL(sxPart(c.Adds[i]), sxZ(int64(code))))
	}
	vs := []string{}
	for i, v := range c.Verifies {
		au := make([][]byte, len(v.Aunts))
		for k, a := range v.Aunts {
			au[k] = unhex(a)
		}
		vs = append(vs, sxL(sxZ(int64(v.Index)), sxZ(int64(v.Total)), sxB(unhex(v.Leaf)), sxB(unhex(v.Root)), sxBs(au), sxZ(int64(o.VerCodes[i]))))
	}
	rs := []string{}
	for i, hs := range c.Roots {
		items := make([][]byte, len(hs))
		for k, h := range hs {
			items[k] = unhex(h)
		}
		rs = append(rs, sxL(sxBs(items), sxB(o.Roots[i])))
	}
	return sxL(o.Tbl.Sx(), sxB(unhex(c.Data)), sxZ(int64(c.PartSize)), sxZ(int64(o.Total)), sxB(o.Hash), sxL(ps...),
		sxZ(int64(c.HdrTotal)), sxB(unhex(c.HdrHash)), sxBool(o.HdrPanic), sxL(ads...), sxBool(o.Complete),
		sxOpt(sxB(o.Read), o.Complete && !o.ReadPanic), sxL(vs...), sxL(rs...))
}

func loadCorpus(dir string, into interface{}) []string {
	// returns file names; caller unmarshals
	fs, _ := filepath.Glob(filepath.Join(dir, "*.json"))
	return fs
}

func engParts(args []string) error {
	var corpus string
	c, err := commonFlags("parts", args, func(fs *flag.FlagSet) { fs.StringVar(&corpus, "corpus", "", "corpus directory") })
	if err != nil {
		return err
	}
	meta := NewMeta("parts", c.Seed)
	meta.Rule = "case = data (1..120 bytes in parts of 1..24 bytes; one case in a hundred 513..1200 bytes in parts of 1..2 bytes, i.e. more than 512 parts and proofs of ten aunts and more) split by the real NewPartSetFromData, a receiver built from the (possibly mutated) header, an arrival sequence of genuine, duplicated and mutated parts, direct Verify calls and bare root computations; distinct = canonical JSON of the case; non-trivial = at least one part was rejected or duplicated or one non-genuine proof was checked"
	var cases []PartsCase
	if c.Replay != "" {
		var rc struct{ Case PartsCase `json:"case"` }
		if err := readJSON(c.Replay, &rc); err != nil {
			return err
		}
		cases = append(cases, rc.Case)
	} else {
		for _, f := range loadCorpus(corpus, nil) {
			var rc struct{ Case PartsCase `json:"case"` }
			if err := readJSON(f, &rc); err == nil && rc.Case.PartSize > 0 {
				cases = append(cases, rc.Case)
				meta.Dist["corpus"]++
			}
		}
		r := NewRng(c.Seed)
		for i := 0; i < c.N; i++ {
			cases = append(cases, genPartsCase(r.Fork(), i))
		}
	}
	dist := NewDistinct()
	var sb strings.Builder
	os.MkdirAll(filepath.Join(c.Out, "cases"), 0755)
	for i, pc := range cases {
		o := runPartsCase(i, pc)
		meta.Monitor = append(meta.Monitor, o.Hits...)
		sb.WriteString(partsCaseSx(pc, o))
		sb.WriteString("\n")
		writeJSON(filepath.Join(c.Out, "cases", fmt.Sprintf("%d.json", i)), pc)
		meta.Evaluations++
		meta.Dist["hdr:"+pc.HdrKind]++
		for _, a := range pc.Adds {
			meta.Dist["add:"+a.Kind]++
		}
		for _, code := range o.AddCodes {
			meta.Dist[fmt.Sprintf("addcode:%d", code)]++
		}
		for _, v := range pc.Verifies {
			meta.Dist["verify:"+v.Kind]++
		}
		meta.Dist[fmt.Sprintf("total:%d", min(o.Total, 10))]++
		if o.Locked || len(pc.Verifies) > 1 {
			dist.Add(fmt.Sprint(pc))
		}
		if i < 2 {
			meta.Samples = append(meta.Samples, pc)
		}
		if a, b, col := o.Tbl.Collision(); col {
			meta.Hit(i, "hash-collision", "two preimages share a digest: "+hexs([]byte(a))+" "+hexs([]byte(b)))
		}
	}
	meta.Distinct = dist.Len()
	if err := ioutil.WriteFile(filepath.Join(c.Out, "cases.sx"), []byte(sb.String()), 0644); err != nil {
		return err
	}
	return meta.Write(c.Out)
}

func min(a, b int) int {
	if a < b {
		return a
	}
	return b
}

func init() { engines["parts"] = engParts }
