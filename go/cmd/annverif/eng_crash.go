package main

// Engine "crash" (C06): a complete node (Angine + EVM application, single validator) runs as a
// child process on a fresh runtime directory and is killed (os.Exit inside the failpoint, no
// deferred function runs) immediately before the k-th durable write counted from the first write
// of the commit of a chosen height; optionally it is killed a second time a few writes into its
// recovery.  Then it runs undisturbed.  Observed: the order of the durable writes of the commit
// (for the model), the three heights (block store, consensus state, application) the restarted
// node sees before it starts consensus, whether it starts and goes on committing, whether every
// block seen before is still there unchanged, and whether re-executing the recovered chain on a
// fresh application reproduces every hash recorded in it and the nonces the node reports.

import (
	"bufio"
	"bytes"
	"encoding/json"
	"fmt"
	"io/ioutil"
	"math/big"
	"os"
	"os/exec"
	"regexp"
	"strings"
	"time"

	rtypes "github.com/dappledger/AnnChain/chain/types"
	"github.com/dappledger/AnnChain/eth/common"
	etypes "github.com/dappledger/AnnChain/eth/core/types"
	"github.com/dappledger/AnnChain/eth/rlp"
	"github.com/dappledger/AnnChain/gemmill/go-wire"
	gtypes "github.com/dappledger/AnnChain/gemmill/types"
)

type crashCase struct {
	Txs        map[string][]string `json:"txs_at_height"` // submitted when the node has reached that height
	CrashBlock int64               `json:"crash_block"`   // the height whose commit is interrupted
	K          int                 `json:"k"`             // die before the k-th write, counted from the block's first store write
	K2         int                 `json:"k2"`            // >0: die again before the k2-th write of the restarted process
	Kind       string              `json:"kind"`
}

func genCrashCase(r *Rng, i int) *crashCase {
	c := &crashCase{Txs: map[string][]string{}, CrashBlock: int64(3 + r.Intn(2)), K: 1 + r.Intn(16)}
	if r.Chance(1, 3) {
		c.K2 = 1 + r.Intn(30)
	}
	counterInit := common.Hex2Bytes("600a600c600039600a6000f3" + "60005460010160005500")
	next := []uint64{0, 0, 0}
	switch r.Intn(4) {
	case 0:
		c.Kind = "empty"
	default:
		c.Kind = "txs"
		// transactions offered early enough to be in the blocks around the crash
		for _, at := range []string{"1", "2", "3"} {
			for t := 0; t < 1+r.Intn(3); t++ {
				key := r.Intn(3)
				var tx *etypes.Transaction
				switch r.Intn(4) {
				case 0:
					tx = etypes.NewContractCreation(next[key], big.NewInt(0), 1000000, big.NewInt(0), counterInit)
				case 1:
					payload, _ := rlp.EncodeToBytes(&rtypes.KV{Key: []byte(fmt.Sprintf("k%d", r.Intn(3))), Value: r.Bytes(1 + r.Intn(6))})
					data := append(append([]byte{}, rtypes.KVTxType...), payload...)
					tx = etypes.NewTransaction(next[key], common.Address{}, big.NewInt(0), 1000000, big.NewInt(0), data)
				default:
					tx = etypes.NewTransaction(next[key], common.BytesToAddress([]byte{0xc1}), big.NewInt(0), 1000000, big.NewInt(0), r.Bytes(r.Intn(8)))
				}
				next[key]++
				c.Txs[at] = append(c.Txs[at], hexs(signAppTx(tx, key, false)))
			}
		}
	}
	return c
}

type childRun struct {
	exit      int
	recovered []int64 // store, state, app as seen before consensus starts
	blocks    map[int64]string
	report    *nodeReport
	points    []string // names of the durable-write points, in order
	tail      string
}

var reRecovered = regexp.MustCompile(`^NODE-RECOVERED store=(\d+) state=(\d+) app=(\d+)`)

func runChild(dir string, script *nodeScript, env []string) childRun {
	return runChildArgs(dir, script, env, nil)
}

func runChildArgs(dir string, script *nodeScript, env []string, extra []string) childRun {
	res := childRun{blocks: map[int64]string{}, exit: -1}
	sf := dir + "-script.json"
	bs, _ := json.Marshal(script)
	ioutil.WriteFile(sf, bs, 0644)
	defer os.Remove(sf)
	cmd := exec.Command(os.Args[0], append([]string{"node", "--dir", dir, "--script", sf}, extra...)...)
	cmd.Env = append(os.Environ(), env...)
	var stderr bytes.Buffer
	cmd.Stderr = &stderr
	out, err := cmd.StdoutPipe()
	if err != nil {
		res.tail = err.Error()
		return res
	}
	if err := cmd.Start(); err != nil {
		res.tail = err.Error()
		return res
	}
	timer := time.AfterFunc(time.Duration(script.TimeoutMS+15000)*time.Millisecond, func() { cmd.Process.Kill() })
	sc := bufio.NewScanner(out)
	sc.Buffer(make([]byte, 1<<20), 1<<26)
	for sc.Scan() {
		line := sc.Text()
		if m := reRecovered.FindStringSubmatch(line); m != nil {
			var a, b, c int64
			fmt.Sscan(m[1], &a)
			fmt.Sscan(m[2], &b)
			fmt.Sscan(m[3], &c)
			res.recovered = []int64{a, b, c}
		} else if strings.HasPrefix(line, "NODE-BLOCK ") {
			var h int64
			var hash string
			fmt.Sscanf(line, "NODE-BLOCK %d %s", &h, &hash)
			res.blocks[h] = hash
		} else if strings.HasPrefix(line, "NODE-REPORT ") {
			var rep nodeReport
			if json.Unmarshal([]byte(line[len("NODE-REPORT "):]), &rep) == nil {
				res.report = &rep
			}
		}
	}
	err = cmd.Wait()
	timer.Stop()
	res.exit = 0
	if ee, ok := err.(*exec.ExitError); ok {
		res.exit = ee.ExitCode()
	} else if err != nil {
		res.exit = -2
	}
	for _, l := range strings.Split(stderr.String(), "\n") {
		if strings.HasPrefix(l, "VERIF_POINT ") {
			f := strings.SplitN(l, " ", 3)
			if len(f) == 3 && f[1] != "-" {
				res.points = append(res.points, f[2])
			}
		}
	}
	t := stderr.String()
	if len(t) > 1500 {
		t = t[len(t)-1500:]
	}
	res.tail = t
	return res
}

// the durable writes of one commit, as classes the model knows; anything else (signer file, log
// lines of the next height, caches) is dropped
func classifyPoint(name string, h int64) string {
	switch {
	case name == fmt.Sprintf("gdb:set:H:%d", h):
		return "meta"
	case strings.HasPrefix(name, fmt.Sprintf("gdb:set:P:%d:", h)):
		return "part"
	case name == fmt.Sprintf("gdb:set:C:%d", h-1):
		return "lastcommit"
	case name == fmt.Sprintf("gdb:set:SC:%d", h):
		return "seencommit"
	case name == "gdb:setsync:blockStore":
		return "descriptor"
	case name == "gdb:setsync:stateIntermediateKey":
		return "intermediate"
	case name == "ethdb:batch" || strings.HasPrefix(name, "ethdb:put"):
		return "appdata"
	case name == "gdb:setsync:lastblock":
		return "lastblock"
	case name == "gdb:setsync:stateKey":
		return "state"
	case strings.HasPrefix(name, "autofile:cs.wal"):
		return "wal"
	}
	return ""
}

func runCrashCase(idx int, c *crashCase) (string, []MonitorHit, map[string]int, bool) {
	dist := map[string]int{}
	var hits []MonitorHit
	hit := func(sig, what string) { hits = append(hits, MonitorHit{Case: idx, Sig: sig, What: what}) }
	dir, _ := ioutil.TempDir("", "annverif-crash")
	defer func() {
		if len(hits) > 0 && os.Getenv("VERIF_KEEP") != "" {
			fmt.Fprintf(os.Stderr, "KEPT %s for case %d\n", dir, idx)
			return
		}
		os.RemoveAll(dir)
	}()
	dist["kind="+c.Kind]++
	dist[fmt.Sprintf("k=%d", c.K)]++
	// 1. run until the process dies before write k of the commit of block CrashBlock
	sc := &nodeScript{TxsAtHeight: c.Txs, Target: c.CrashBlock + 50, TimeoutMS: 20000}
	r1 := runChild(dir, sc, []string{"VERIF_CRASH_TRACE=1", fmt.Sprintf("VERIF_CRASH_ARM=gdb:set:H:%d", c.CrashBlock), fmt.Sprintf("VERIF_CRASH_AT=%d", c.K)})
	if r1.exit != 77 {
		hit("harness-error", fmt.Sprintf("the child did not die at the failpoint (exit %d): %s", r1.exit, r1.tail))
		return "(9)", hits, dist, false
	}
	seen := r1.blocks
	// the writes of the interrupted commit, as classes
	var classes []string
	// the trace names a point before the failpoint decides: the last one is the write that did not happen
	done := r1.points
	if len(done) > 0 {
		done = done[:len(done)-1]
	}
	for _, p := range done {
		if cl := classifyPoint(p, c.CrashBlock); cl != "" && cl != "wal" {
			classes = append(classes, cl)
		}
	}
	died := "none"
	if len(r1.points) > 0 {
		died = classifyPoint(r1.points[len(r1.points)-1], c.CrashBlock)
		if died == "" {
			died = "other"
		}
	}
	dist["died-before="+died]++
	// 2. optionally die again during recovery
	if c.K2 > 0 {
		r2 := runChild(dir, &nodeScript{Target: c.CrashBlock + 50, TimeoutMS: 20000}, []string{"VERIF_CRASH_TRACE=1", fmt.Sprintf("VERIF_CRASH_AT=%d", c.K2)})
		dist["second-crash"]++
		if r2.exit != 77 {
			hit("node-does-not-recover at=second-crash", fmt.Sprintf("crash before write %d (%s) of block %d, then restarted with a crash before its write %d: exit %d: %s", c.K, died, c.CrashBlock, c.K2, r2.exit, r2.tail))
			return "(9)", hits, dist, false
		}
		for h, x := range r2.blocks {
			if old, ok := seen[h]; ok && old != x {
				hit("block-changed-after-crash", fmt.Sprintf("height %d: %s before, %s after", h, old, x))
			}
			seen[h] = x
		}
	}
	// 3. undisturbed: the node must start and commit two more blocks
	var top int64
	for h := range seen {
		if h > top {
			top = h
		}
	}
	r3 := runChild(dir, &nodeScript{Target: c.CrashBlock + 2, TimeoutMS: 20000}, nil)
	ctx := fmt.Sprintf("crash before write %d (%s) of the commit of block %d (%s), second crash %d", c.K, died, c.CrashBlock, c.Kind, c.K2)
	if r3.report == nil || !r3.report.Started || r3.report.Error != "" {
		e := r3.tail
		if r3.report != nil {
			e = r3.report.Error + " " + e
		}
		hit("node-does-not-recover at=start", fmt.Sprintf("%s: exit %d %s", ctx, r3.exit, e))
		return "(9)", hits, dist, false
	}
	rec := r3.recovered
	if r3.report.Height < c.CrashBlock+2 {
		hit("node-does-not-recover at=progress", fmt.Sprintf("%s: restarted at store/state/app %v and reached height %d only", ctx, rec, r3.report.Height))
	}
	for h, x := range r3.blocks {
		if old, ok := seen[h]; ok && old != x {
			hit("block-changed-after-crash", fmt.Sprintf("%s: height %d was %s, now %s", ctx, h, old, x))
		}
	}
	for h := range seen {
		if _, ok := r3.blocks[h]; !ok && h <= r3.report.Height {
			hit("block-lost-after-crash", fmt.Sprintf("%s: height %d", ctx, h))
		}
	}
	// 4. quiescent heights after an orderly stop
	r4 := runChild(dir, &nodeScript{Target: 0, TimeoutMS: 5000}, nil)
	if len(r4.recovered) == 3 && !(r4.recovered[0] == r4.recovered[1] && r4.recovered[1] == r4.recovered[2]) {
		// an orderly stop may fall into a commit as well; what must hold is that the next start reconciles
		dist["heights-differ-after-orderly-stop"]++
	}
	if r4.report == nil || !r4.report.Started {
		hit("node-does-not-recover at=start", fmt.Sprintf("%s: after an orderly stop: %s", ctx, r4.tail))
		return "(9)", hits, dist, false
	}
	final := r4.report
	// 5. re-execute the recovered chain on a fresh application
	adir, _ := ioutil.TempDir("", "annverif-crash-app")
	defer os.RemoveAll(adir)
	app, err := openApp(adir)
	if err != nil {
		hit("harness-error", err.Error())
		return "(9)", hits, dist, false
	}
	defer func() { catchPanic(func() { app.Stop() }) }()
	var blocks []*gtypes.Block
	for _, w := range final.Wire {
		var n int
		var derr error
		b := wire.ReadBinary(&gtypes.Block{}, bytes.NewReader(unhex(w)), 0, &n, &derr).(*gtypes.Block)
		if derr != nil {
			hit("block-unreadable-after-crash", fmt.Sprintf("%s: %v", ctx, derr))
			return "(9)", hits, dist, false
		}
		blocks = append(blocks, b)
	}
	ntx := 0
	var lastApp []byte
	for i, b := range blocks {
		if int64(i+1) != b.Height {
			hit("chain-not-contiguous-after-crash", fmt.Sprintf("%s: position %d holds height %d", ctx, i+1, b.Height))
			break
		}
		if i > 0 && !bytes.Equal(b.Header.LastBlockID.Hash, blocks[i-1].Hash()) {
			hit("chain-not-linked-after-crash", fmt.Sprintf("%s: block %d does not name block %d", ctx, b.Height, b.Height-1))
		}
		o := execBlock(app, b)
		if o.panic != "" {
			hit("re-execution-failed", fmt.Sprintf("%s: block %d: %s", ctx, b.Height, o.panic))
			break
		}
		ntx += len(o.valid)
		lastApp = o.app
		if i+1 < len(blocks) {
			nx := blocks[i+1]
			if !bytes.Equal(nx.Header.AppHash, o.app) {
				hit("recorded-hash-not-reproduced kind=app-hash", fmt.Sprintf("%s: block %d records app hash %x for block %d, re-execution gives %x", ctx, nx.Height, nx.Header.AppHash, b.Height, o.app))
			} else if !bytes.Equal(nx.Header.ReceiptsHash, o.rcpt) {
				hit("recorded-hash-not-reproduced kind=receipts-hash", fmt.Sprintf("%s: block %d records receipts hash %x for block %d, re-execution gives %x", ctx, nx.Height, nx.Header.ReceiptsHash, b.Height, o.rcpt))
			}
		}
		if i+1 == len(blocks) && fmt.Sprint(o.nonces) != fmt.Sprint(final.Nonces) {
			hit("transactions-not-applied-exactly-once", fmt.Sprintf("%s: the node reports nonces %v, re-execution of its chain gives %v", ctx, final.Nonces, o.nonces))
		}
	}
	if len(blocks) > 0 && int64(len(blocks)) == final.AppHeight && hexs(lastApp) != final.AppHash {
		hit("recorded-hash-not-reproduced kind=final-app-hash", fmt.Sprintf("%s: node %s, re-execution %x", ctx, final.AppHash, lastApp))
	}
	dist[fmt.Sprintf("txs-in-chain=%d", ntx/3*3)]++
	// for the model: the classes of the writes seen of the interrupted commit, where the process
	// died, and the heights the restarted node saw before starting consensus (relative to the block)
	var cl []string
	for _, x := range classes {
		cl = append(cl, fmt.Sprintf("%d", crashClassCode[x]))
	}
	relh := func(v int64) string { return sxZ(v - c.CrashBlock) }
	recSx := "()"
	if c.K2 == 0 && len(rec) == 3 {
		recSx = sxL(relh(rec[0]), relh(rec[1]), relh(rec[2]))
	}
	return sxL(sxL(cl...), recSx), hits, dist, c.Kind == "txs" && ntx > 0
}

var crashClassCode = map[string]int{"meta": 1, "part": 2, "lastcommit": 3, "seencommit": 4, "descriptor": 5,
	"intermediate": 6, "appdata": 7, "lastblock": 8, "state": 9}

func init() {
	engines["crash"] = func(args []string) error {
		genericParallel = 16
		defer func() { genericParallel = 1 }()
		return runGenericEngine("crash",
			"case = a complete single-validator node (Angine + EVM application on LevelDB, consensus WAL, signer file) as a child process; transactions (transfers, creations, key-value) are offered while it runs; the process exits inside the failpoint immediately before the k-th durable write (k = 1..16) counted from the first block-store write of the commit of block 3 or 4 (empty or with transactions); in a third of the cases the restarted process is killed again before its k2-th write (k2 = 1..30); then it runs undisturbed until two further blocks are committed, is stopped in an orderly way and started once more; checked: it starts, it progresses, blocks seen before are present and unchanged, the chain is contiguous and linked, and re-executing the chain on a fresh application reproduces every app hash and receipts hash recorded in the following headers, the final app hash and the nonces the node reports; for the model: the order of the write classes of the interrupted commit and the store/state/app heights the restarted node sees; distinct = case line; non-trivial = the chain holds applied transactions",
			args,
			func(r *Rng, i int) interface{} { return genCrashCase(r, i) },
			func(f string) (interface{}, error) {
				var c crashCase
				if err := readCase(f, &c); err != nil {
					return nil, err
				}
				return &c, nil
			},
			func(i int, ci interface{}, out string) (string, []MonitorHit, map[string]int, bool) {
				return runCrashCase(i, ci.(*crashCase))
			})
	}
}
