package main

import (
	"crypto/sha256"
	"encoding/hex"
	"encoding/json"
	"flag"
	"fmt"
	"io/ioutil"
	"os"
	"path/filepath"
	"runtime/debug"
	"sort"
	"strings"
)

// ---------------------------------------------------------------- PRNG (SplitMix64)

type Rng struct{ s uint64 }

func NewRng(seed uint64) *Rng { return &Rng{s: seed*0x9E3779B97F4A7C15 + 0x1234567} }
func (r *Rng) U64() uint64 {
	r.s += 0x9E3779B97F4A7C15
	z := r.s
	z = (z ^ (z >> 30)) * 0xBF58476D1CE4E5B9
	z = (z ^ (z >> 27)) * 0x94D049BB133111EB
	return z ^ (z >> 31)
}
func (r *Rng) Intn(n int) int {
	if n <= 0 {
		return 0
	}
	return int(r.U64() % uint64(n))
}
func (r *Rng) Range(lo, hi int) int { return lo + r.Intn(hi-lo+1) } // inclusive
func (r *Rng) Bool() bool           { return r.U64()&1 == 1 }
func (r *Rng) Chance(num, den int) bool {
	return r.Intn(den) < num
}
func (r *Rng) Bytes(n int) []byte {
	b := make([]byte, n)
	for i := range b {
		b[i] = byte(r.U64())
	}
	return b
}
func (r *Rng) Perm(n int) []int {
	p := make([]int, n)
	for i := range p {
		p[i] = i
	}
	for i := n - 1; i > 0; i-- {
		j := r.Intn(i + 1)
		p[i], p[j] = p[j], p[i]
	}
	return p
}
func (r *Rng) Fork() *Rng { return NewRng(r.U64()) }

// ---------------------------------------------------------------- s-expression case format

func sxZ(i int64) string {
	if i < 0 {
		return fmt.Sprintf("-%x", uint64(-i)) // -MinInt64 wraps to 2^63 as uint64: correct magnitude
	}
	return fmt.Sprintf("%x", i)
}
func sxU(i uint64) string { return fmt.Sprintf("%x", i) }
func sxB(b []byte) string { return "#" + hex.EncodeToString(b) }
func sxBool(b bool) string {
	if b {
		return "1"
	}
	return "0"
}
func sxL(items ...string) string { return "(" + strings.Join(items, " ") + ")" }
func sxBs(bs [][]byte) string {
	s := make([]string, len(bs))
	for i, b := range bs {
		s[i] = sxB(b)
	}
	return sxL(s...)
}
func sxOpt(s string, some bool) string {
	if some {
		return "(" + s + ")"
	}
	return "()"
}

// ---------------------------------------------------------------- common flags and output

type Common struct {
	Seed   uint64
	N      int
	Out    string
	Tier   string
	Replay string
}

func commonFlags(name string, args []string, extra func(fs *flag.FlagSet)) (*Common, error) {
	fs := flag.NewFlagSet(name, flag.ContinueOnError)
	c := &Common{}
	fs.Uint64Var(&c.Seed, "seed", 1, "PRNG seed")
	fs.IntVar(&c.N, "n", 100, "number of generated cases")
	fs.StringVar(&c.Out, "out", "", "output directory")
	fs.StringVar(&c.Tier, "tier", "quick", "quick|thorough")
	fs.StringVar(&c.Replay, "replay", "", "replay file (JSON case) instead of generating")
	if extra != nil {
		extra(fs)
	}
	if err := fs.Parse(args); err != nil {
		return nil, err
	}
	if c.Out == "" {
		return nil, fmt.Errorf("-out required")
	}
	if err := os.MkdirAll(c.Out, 0755); err != nil {
		return nil, err
	}
	return c, nil
}

// MonitorHit is a model-independent property violation observed on the implementation.
type MonitorHit struct {
	Case int    `json:"case"`
	What string `json:"what"`
	Sig  string `json:"sig"` // stable signature used for known-finding matching
}

// Meta is what an engine reports about its own run.
type Meta struct {
	Engine      string                 `json:"engine"`
	Seed        uint64                 `json:"seed"`
	Evaluations int                    `json:"evaluations"`
	Distinct    int                    `json:"distinct_nontrivial"`
	Rule        string                 `json:"rule"`
	Samples     []interface{}          `json:"samples"`
	Dist        map[string]int         `json:"distribution"`
	Monitor     []MonitorHit           `json:"monitor_hits"`
	CaseNames   []string               `json:"case_names"`
	Extra       map[string]interface{} `json:"extra,omitempty"`
}

func NewMeta(engine string, seed uint64) *Meta {
	return &Meta{Engine: engine, Seed: seed, Dist: map[string]int{}, Extra: map[string]interface{}{}}
}

func (m *Meta) Hit(c int, sig, what string) {
	m.Monitor = append(m.Monitor, MonitorHit{Case: c, What: what, Sig: sig})
}

func (m *Meta) Write(dir string) error {
	if m.Samples == nil {
		m.Samples = []interface{}{}
	}
	if m.Monitor == nil {
		m.Monitor = []MonitorHit{}
	}
	b, err := json.MarshalIndent(m, "", " ")
	if err != nil {
		return err
	}
	return ioutil.WriteFile(filepath.Join(dir, "meta.json"), b, 0644)
}

// Distinct counter: hash of canonical text of each nontrivial case.
type DistinctSet struct{ m map[[32]byte]bool }

func NewDistinct() *DistinctSet { return &DistinctSet{m: map[[32]byte]bool{}} }
func (d *DistinctSet) Add(canon string) {
	d.m[sha256.Sum256([]byte(canon))] = true
}
func (d *DistinctSet) Len() int { return len(d.m) }

func writeJSON(path string, v interface{}) error {
	b, err := json.MarshalIndent(v, "", " ")
	if err != nil {
		return err
	}
	return ioutil.WriteFile(path, b, 0644)
}

func readJSON(path string, v interface{}) error {
	b, err := ioutil.ReadFile(path)
	if err != nil {
		return err
	}
	return json.Unmarshal(b, v)
}

// readCase reads a case either bare or wrapped as the "case" member of a replay file.
func readCase(path string, v interface{}) error {
	b, err := ioutil.ReadFile(path)
	if err != nil {
		return err
	}
	var w struct {
		Case json.RawMessage `json:"case"`
	}
	if json.Unmarshal(b, &w) == nil && len(w.Case) > 0 {
		return json.Unmarshal(w.Case, v)
	}
	return json.Unmarshal(b, v)
}

// ---------------------------------------------------------------- hash oracle recording

type HashRec struct {
	seen map[string][]byte
	keys []string
}

func NewHashRec() *HashRec { return &HashRec{seen: map[string][]byte{}} }
func (h *HashRec) Wrap(f func([]byte) []byte) func([]byte) []byte {
	return func(b []byte) []byte {
		out := f(b)
		k := string(b)
		if _, ok := h.seen[k]; !ok {
			h.seen[k] = append([]byte{}, out...)
			h.keys = append(h.keys, k)
		}
		return out
	}
}
func (h *HashRec) Sx() string {
	items := make([]string, 0, len(h.keys))
	for _, k := range h.keys {
		items = append(items, sxL(sxB([]byte(k)), sxB(h.seen[k])))
	}
	return sxL(items...)
}
func (h *HashRec) Len() int { return len(h.keys) }

// sanity check of the injectivity idealisation on the run: no two preimages share a digest
func (h *HashRec) Collision() (string, string, bool) {
	inv := map[string]string{}
	ks := append([]string{}, h.keys...)
	sort.Strings(ks)
	for _, k := range ks {
		d := string(h.seen[k])
		if o, ok := inv[d]; ok && o != k {
			return o, k, true
		}
		inv[d] = k
	}
	return "", "", false
}

func hexs(b []byte) string { return hex.EncodeToString(b) }
func unhex(s string) []byte {
	b, _ := hex.DecodeString(s)
	return b
}

// where the last recovered panic came from: the innermost frames inside the repository
var lastPanicWhere string

func panicSite(stack string) string {
	var fr []string
	for _, l := range strings.Split(stack, "\n") {
		l = strings.TrimSpace(l)
		if strings.HasPrefix(l, "/repo/") {
			if i := strings.Index(l, " +0x"); i > 0 {
				l = l[:i]
			}
			fr = append(fr, strings.TrimPrefix(l, "/repo/"))
			if len(fr) == 3 {
				break
			}
		}
	}
	return strings.Join(fr, " < ")
}

// run f, reporting whether it panicked
func catchPanic(f func()) (panicked bool, msg string) {
	defer func() {
		if r := recover(); r != nil {
			panicked = true
			msg = fmt.Sprint(r)
			lastPanicWhere = panicSite(string(debug.Stack()))
		}
	}()
	f()
	return
}

// writeCase stores the inputs of case i so that a violation can name it as its replay.
func writeCase(out string, i int, c interface{}) {
	os.MkdirAll(filepath.Join(out, "cases"), 0755)
	writeJSON(filepath.Join(out, "cases", fmt.Sprintf("%d.json", i)), c)
}
