package main

// Engine "voteset" (property C15): drives types.VoteSet, MakeCommit and ValidatorSet.VerifyCommit.

import (
	"bytes"
	"flag"
	"fmt"
	"io/ioutil"
	"path/filepath"
	"strings"

	crypto "github.com/dappledger/AnnChain/gemmill/go-crypto"
	"github.com/dappledger/AnnChain/gemmill/types"
)

const vsChainID = "verif-chain"

type BidJ struct {
	Hash  string `json:"hash"`
	Total int    `json:"total"`
	PHash string `json:"phash"`
}
type VoteJ struct {
	Addr   string `json:"addr"`
	Index  int    `json:"index"`
	Height int64  `json:"height"`
	Round  int64  `json:"round"`
	Type   byte   `json:"type"`
	Bid    BidJ   `json:"bid"`
	Sig    string `json:"sig"`
	Kind   string `json:"kind"`
}
type VSOp struct {
	Op   string `json:"op"` // "add" | "peer"
	Vote *VoteJ `json:"vote,omitempty"`
	Peer string `json:"peer,omitempty"`
	Bid  *BidJ  `json:"bid,omitempty"`
}
type ValJ struct {
	PubKey string `json:"pubkey"` // 32 bytes hex
	Power  int64  `json:"power"`
}
type CommitJ struct {
	Bid  BidJ     `json:"bid"`
	Pre  []*VoteJ `json:"pre"`
	Kind string   `json:"kind"`
}
type VSCase struct {
	Vals    []ValJ    `json:"vals"`
	Height  int64     `json:"height"`
	Round   int64     `json:"round"`
	Type    byte      `json:"type"`
	Pool    []BidJ    `json:"pool"`
	Ops     []VSOp    `json:"ops"`
	Commits []CommitJ `json:"commits"` // extra (tampered) commits for VerifyCommit, besides MakeCommit's
	CHeight int64     `json:"cheight"`
}

func (b BidJ) toBid() types.BlockID {
	return types.BlockID{Hash: unhex(b.Hash), PartsHeader: types.PartSetHeader{Total: b.Total, Hash: unhex(b.PHash)}}
}
func bidJ(b types.BlockID) BidJ {
	return BidJ{Hash: hexs(b.Hash), Total: b.PartsHeader.Total, PHash: hexs(b.PartsHeader.Hash)}
}
func (v *VoteJ) toVote() *types.Vote {
	var sig crypto.Signature
	sb := unhex(v.Sig)
	if len(sb) == 64 {
		var s crypto.SignatureEd25519
		copy(s[:], sb)
		sig = s
	} else {
		var s crypto.SignatureEd25519 // short/odd signatures are padded: still a SignatureEd25519
		copy(s[:], sb)
		sig = s
	}
	return &types.Vote{ValidatorAddress: unhex(v.Addr), ValidatorIndex: v.Index, Height: v.Height, Round: v.Round,
		Type: v.Type, BlockID: v.Bid.toBid(), Signature: sig}
}
func sigBytes(s crypto.Signature) []byte {
	if e, ok := s.(crypto.SignatureEd25519); ok {
		return e[:]
	}
	return nil
}
func voteJ(v *types.Vote, kind string) *VoteJ {
	return &VoteJ{Addr: hexs(v.ValidatorAddress), Index: v.ValidatorIndex, Height: v.Height, Round: v.Round, Type: v.Type,
		Bid: bidJ(v.BlockID), Sig: hexs(sigBytes(v.Signature)), Kind: kind}
}

type vsKeys struct {
	privs []crypto.PrivKeyEd25519 // sorted like the validator set
	set   *types.ValidatorSet
}

func mkValSet(vals []ValJ) *types.ValidatorSet {
	vs := make([]*types.Validator, len(vals))
	for i, v := range vals {
		var pk crypto.PubKeyEd25519
		copy(pk[:], unhex(v.PubKey))
		vs[i] = &types.Validator{Address: pk.Address(), PubKey: pk, VotingPower: v.Power}
	}
	return types.NewValidatorSet(vs)
}

// generator ----------------------------------------------------------------

func genPowers(r *Rng, n int, directed int) []int64 {
	p := make([]int64, n)
	switch directed % 6 {
	case 0:
		for i := range p {
			p[i] = 1
		}
	case 1:
		for i := range p {
			p[i] = int64(1 + r.Intn(5))
		}
	case 2: // exact thirds: total divisible by 3
		for i := range p {
			p[i] = 3
		}
	case 3: // one heavy validator
		for i := range p {
			p[i] = 1
		}
		p[r.Intn(n)] = int64(1 + r.Intn(3*n))
	case 4: // near the overflow boundary: total just below 2^62
		each := (int64(1)<<62 - 1) / int64(n)
		for i := range p {
			p[i] = each - int64(r.Intn(3))
		}
	default:
		for i := range p {
			p[i] = int64(1 + r.Intn(100))
		}
	}
	return p
}

func genVSCase(r *Rng, directed int) (VSCase, []crypto.PrivKeyEd25519) {
	var c VSCase
	n := 1 + r.Intn(7)
	if directed%9 == 0 {
		n = 4
	}
	pows := genPowers(r, n, directed)
	privs := make([]crypto.PrivKeyEd25519, n)
	for i := 0; i < n; i++ {
		privs[i] = crypto.GenPrivKeyEd25519FromSecret(r.Bytes(16))
		pk := privs[i].PubKey().(crypto.PubKeyEd25519)
		c.Vals = append(c.Vals, ValJ{PubKey: hexs(pk[:]), Power: pows[i]})
	}
	set := mkValSet(c.Vals)
	// private keys in validator-set order
	sorted := make([]crypto.PrivKeyEd25519, n)
	for i, v := range set.Validators {
		for _, p := range privs {
			if bytes.Equal(p.PubKey().Address(), v.Address) {
				sorted[i] = p
			}
		}
	}
	c.Height = int64(1 + r.Intn(5))
	c.Round = int64(r.Intn(3))
	c.Type = types.VoteTypePrevote
	if r.Chance(2, 3) {
		c.Type = types.VoteTypePrecommit
	}
	c.CHeight = c.Height
	// block-id pool: nil id, two or three ordinary ids, sometimes a pair whose legacy keys collide
	c.Pool = append(c.Pool, BidJ{})
	nb := 2 + r.Intn(2)
	for i := 0; i < nb; i++ {
		c.Pool = append(c.Pool, BidJ{Hash: hexs(r.Bytes(20)), Total: 1 + r.Intn(3), PHash: hexs(r.Bytes(20))})
	}
	if directed%5 == 1 {
		// string(Hash)+BinaryBytes(PartsHeader) is equal for these two different ids
		c.Pool = append(c.Pool, BidJ{Hash: "", Total: 0, PHash: "0000"}, BidJ{Hash: "000102", Total: 0, PHash: ""})
	}
	mkVote := func(i int, b BidJ) *types.Vote {
		v := &types.Vote{ValidatorAddress: set.Validators[i].Address, ValidatorIndex: i, Height: c.Height, Round: c.Round,
			Type: c.Type, BlockID: b.toBid()}
		v.Signature = sorted[i].Sign(types.SignBytes(vsChainID, v))
		return v
	}
	fav := 1 + r.Intn(len(c.Pool)-1)
	if directed%5 == 1 && r.Bool() {
		fav = len(c.Pool) - 2
	}
	var sent []*VoteJ
	nops := 3 + r.Intn(4*n+4)
	order := r.Perm(n)
	oi := 0
	for k := 0; k < nops; k++ {
		roll := r.Intn(100)
		switch {
		case roll < 45: // valid vote, mostly for the favourite id, validators in a permuted order
			i := order[oi%n]
			oi++
			b := c.Pool[fav]
			if r.Chance(1, 4) {
				b = c.Pool[r.Intn(len(c.Pool))]
			}
			if directed%5 == 1 && r.Chance(1, 2) {
				b = c.Pool[len(c.Pool)-1-r.Intn(2)]
			}
			vj := voteJ(mkVote(i, b), "valid")
			sent = append(sent, vj)
			c.Ops = append(c.Ops, VSOp{Op: "add", Vote: vj})
		case roll < 55 && len(sent) > 0: // duplicate
			d := *sent[r.Intn(len(sent))]
			d.Kind = "duplicate"
			c.Ops = append(c.Ops, VSOp{Op: "add", Vote: &d})
		case roll < 65: // conflicting valid vote by a random validator
			i := r.Intn(n)
			vj := voteJ(mkVote(i, c.Pool[r.Intn(len(c.Pool))]), "valid-any")
			sent = append(sent, vj)
			c.Ops = append(c.Ops, VSOp{Op: "add", Vote: vj})
		case roll < 75: // peer claims
			b := c.Pool[r.Intn(len(c.Pool))]
			c.Ops = append(c.Ops, VSOp{Op: "peer", Peer: fmt.Sprintf("peer%d", r.Intn(4)), Bid: &b})
		default: // malformed / mis-signed
			i := r.Intn(n)
			b := c.Pool[r.Intn(len(c.Pool))]
			v := mkVote(i, b)
			kind := ""
			switch r.Intn(11) {
			case 0:
				s := v.Signature.(crypto.SignatureEd25519)
				s[r.Intn(64)] ^= 1 << uint(r.Intn(8))
				v.Signature = s
				kind = "sig-flipped"
			case 1:
				v.Signature = sorted[(i+1)%n].Sign(types.SignBytes(vsChainID, v))
				kind = "sig-other-key"
				if n == 1 {
					kind = "valid-any"
				}
			case 2:
				v.Signature = sorted[i].Sign(types.SignBytes("other-chain", v))
				kind = "sig-other-chain"
			case 3:
				o := *v
				o.BlockID = c.Pool[(r.Intn(len(c.Pool)-1)+1)%len(c.Pool)].toBid()
				v.Signature = sorted[i].Sign(types.SignBytes(vsChainID, &o))
				kind = "sig-other-block"
				if o.BlockID.Equals(v.BlockID) {
					kind = "valid-any"
				}
			case 4:
				v.ValidatorIndex = -1 - r.Intn(3)
				kind = "index-negative"
			case 5:
				v.ValidatorIndex = n + r.Intn(3)
				kind = "index>=size"
			case 6:
				v.ValidatorIndex = (i + 1) % n
				kind = "index-other"
				if n == 1 {
					kind = "valid-any"
				}
			case 7:
				if r.Bool() {
					v.ValidatorAddress = nil
					kind = "addr-empty"
				} else {
					v.ValidatorAddress = r.Bytes(20)
					kind = "addr-wrong"
				}
			case 8:
				v.Height += int64(1 + r.Intn(2))
				v.Signature = sorted[i].Sign(types.SignBytes(vsChainID, v))
				kind = "other-height"
			case 9:
				v.Round += int64(1 + r.Intn(2))
				v.Signature = sorted[i].Sign(types.SignBytes(vsChainID, v))
				kind = "other-round"
			case 10:
				v.Type = 3 - v.Type
				v.Signature = sorted[i].Sign(types.SignBytes(vsChainID, v))
				kind = "other-type"
			}
			vj := voteJ(v, kind)
			if kind == "valid-any" {
				sent = append(sent, vj)
			}
			c.Ops = append(c.Ops, VSOp{Op: "add", Vote: vj})
		}
	}
	// tampered commits for VerifyCommit, built from scratch: full commit for pool[fav] then one mutation
	if n >= 1 {
		base := CommitJ{Bid: c.Pool[fav], Kind: "full"}
		for i := 0; i < n; i++ {
			v := mkVote(i, c.Pool[fav])
			v.Type = types.VoteTypePrecommit
			v.Signature = sorted[i].Sign(types.SignBytes(vsChainID, v))
			base.Pre = append(base.Pre, voteJ(v, "valid"))
		}
		c.Commits = append(c.Commits, base)
		for m := 0; m < 4; m++ {
			t := CommitJ{Bid: base.Bid}
			for _, p := range base.Pre {
				q := *p
				t.Pre = append(t.Pre, &q)
			}
			i := r.Intn(n)
			resign := func(v *VoteJ) {
				vv := v.toVote()
				vv.Signature = sorted[i].Sign(types.SignBytes(vsChainID, vv))
				v.Sig = hexs(sigBytes(vv.Signature))
			}
			switch r.Intn(11) {
			case 0:
				t.Pre[i] = nil
				t.Kind = "one-nil"
			case 1:
				for k := range t.Pre {
					if r.Chance(1, 2) {
						t.Pre[k] = nil
					}
				}
				t.Kind = "some-nil"
			case 2:
				for k := range t.Pre {
					t.Pre[k] = nil
				}
				t.Kind = "all-nil"
			case 3:
				t.Pre = t.Pre[:n-1]
				t.Kind = "short"
			case 4:
				d := *t.Pre[i]
				t.Pre = append(t.Pre, &d)
				t.Kind = "long"
			case 5:
				t.Pre[i].Height++
				resign(t.Pre[i])
				t.Kind = "foreign-height"
			case 6:
				t.Pre[i].Round++
				resign(t.Pre[i])
				t.Kind = "foreign-round"
			case 7:
				t.Pre[i].Bid = c.Pool[0]
				resign(t.Pre[i])
				t.Kind = "nil-precommit"
			case 8:
				sb := unhex(t.Pre[i].Sig)
				sb[r.Intn(64)] ^= 4
				t.Pre[i].Sig = hexs(sb)
				t.Kind = "bad-sig"
			case 9:
				if n > 1 {
					j := (i + 1) % n
					d := *t.Pre[j]
					t.Pre[i] = &d // duplicated validator's vote in another slot
				}
				t.Kind = "wrong-signer-slot"
			case 10:
				t.Pre[i].Type = types.VoteTypePrevote
				resign(t.Pre[i])
				t.Kind = "prevote-in-commit"
			}
			c.Commits = append(c.Commits, t)
		}
	}
	return c, sorted
}

// runner ---------------------------------------------------------------------

func vcCode(err error) int {
	if err == nil {
		return 0
	}
	s := err.Error()
	switch {
	case strings.Contains(s, "wrong set size"):
		return 1
	case strings.Contains(s, "wrong height"):
		return 2
	case strings.Contains(s, "wrong round"):
		return 3
	case strings.Contains(s, "not precommit"):
		return 4
	case strings.Contains(s, "invalid signature"):
		return 5
	case strings.Contains(s, "insufficient voting power"):
		return 6
	}
	return 8
}

func sxBid(b BidJ) string { return sxL(sxB(unhex(b.Hash)), sxZ(int64(b.Total)), sxB(unhex(b.PHash))) }
func sxVote(v *VoteJ, sigok bool) string {
	return sxL(sxB(unhex(v.Addr)), sxZ(int64(v.Index)), sxZ(v.Height), sxZ(v.Round), sxZ(int64(v.Type)), sxBid(v.Bid), sxB(unhex(v.Sig)), sxBool(sigok))
}

func runVSCase(idx int, c VSCase) (string, []MonitorHit, map[string]int, bool) {
	var hits []MonitorHit
	dist := map[string]int{}
	hit := func(sig, what string) { hits = append(hits, MonitorHit{Case: idx, Sig: sig, What: what}) }
	set := mkValSet(c.Vals)
	n := set.Size()
	total := int64(0)
	for _, v := range set.Validators {
		total += v.VotingPower
	}
	sigokFor := func(v *VoteJ, slot int) bool {
		if slot < 0 || slot >= n {
			return false
		}
		vv := v.toVote()
		return set.Validators[slot].PubKey.VerifyBytes(types.SignBytes(vsChainID, vv), vv.Signature)
	}
	vals := make([]string, n)
	for i, v := range set.Validators {
		vals[i] = sxL(sxB(v.Address), sxZ(v.VotingPower))
	}
	pool := make([]string, len(c.Pool))
	for i, b := range c.Pool {
		pool[i] = sxBid(b)
	}
	var vs *types.VoteSet
	newPanic, _ := catchPanic(func() { vs = types.NewVoteSet(vsChainID, c.Height, c.Round, c.Type, set) })
	snapshot := func() (string, *types.BlockID, []string) {
		maj, ok := vs.TwoThirdsMajority()
		var mp *types.BlockID
		ms := "()"
		if ok {
			mp = &maj
			ms = "(" + sxBid(bidJ(maj)) + ")"
		}
		ba := vs.BitArray()
		bits := make([]string, n)
		sigs := make([]string, n)
		prim := make([]string, n)
		for i := 0; i < n; i++ {
			bits[i] = sxBool(ba.GetIndex(i))
			if v := vs.GetByIndex(i); v != nil {
				sigs[i] = "(" + sxB(sigBytes(v.Signature)) + ")"
				prim[i] = hexs(sigBytes(v.Signature))
			} else {
				sigs[i] = "()"
			}
		}
		bb := make([]string, len(c.Pool))
		for i, b := range c.Pool {
			x := vs.BitArrayByBlockID(b.toBid())
			if x == nil {
				bb[i] = "()"
			} else {
				bs := make([]string, n)
				for k := 0; k < n; k++ {
					bs[k] = sxBool(x.GetIndex(k))
				}
				bb[i] = "(" + sxL(bs...) + ")"
			}
		}
		return sxL(ms, sxBool(vs.HasTwoThirdsAny()), sxBool(vs.HasAll()), sxL(bits...), sxL(sigs...), sxL(bb...)), mp, prim
	}
	var ops []string
	nontrivial := false
	mk := "()"
	if !newPanic {
		// monitor bookkeeping: valid offered votes per validator
		type offered struct {
			bid types.BlockID
			sig string
		}
		validBy := make([][]offered, n)
		var prevMaj *types.BlockID
		prevSnap, _, _ := snapshot()
		for _, op := range c.Ops {
			if op.Op == "peer" {
				vs.SetPeerMaj23(op.Peer, op.Bid.toBid())
				sn, _, _ := snapshot()
				ops = append(ops, sxL("1", sxB([]byte(op.Peer)), sxBid(*op.Bid), sn))
				prevSnap = sn
				dist["op:peer"]++
				continue
			}
			v := op.Vote
			dist["vote:"+v.Kind]++
			slotOK := sigokFor(v, v.Index)
			isValid := v.Index >= 0 && v.Index < n && bytes.Equal(unhex(v.Addr), set.Validators[v.Index].Address) &&
				len(unhex(v.Addr)) > 0 && v.Height == c.Height && v.Round == c.Round && v.Type == c.Type && slotOK
			var added bool
			var err error
			pan, msg := catchPanic(func() { added, err = vs.AddVote(v.toVote()) })
			code := 0
			switch {
			case pan:
				code = 9
				hit("addvote-panic kind="+v.Kind, "VoteSet.AddVote panicked: "+msg)
			case err == nil:
				code = 0
			case strings.Contains(err.Error(), types.ErrVoteUnexpectedStep.Error()):
				code = 1
			case err == types.ErrVoteInvalidValidatorIndex:
				code = 2
			case err == types.ErrVoteInvalidValidatorAddress:
				code = 3
			case err == types.ErrVoteInvalidSignature:
				code = 4
			default:
				if _, ok := err.(*types.ErrVoteConflictingVotes); ok {
					code = 5
				} else {
					code = 8
				}
			}
			dist[fmt.Sprintf("addcode:%d", code)]++
			sn, maj, prim := snapshot()
			ops = append(ops, sxL("0", sxVote(v, slotOK), sxBool(added), sxZ(int64(code)), sn))
			// ---- monitors (model independent)
			if !isValid {
				if added {
					hit("invalid-vote-added kind="+v.Kind, "an invalid vote was added")
				}
				if sn != prevSnap {
					hit("invalid-vote-changed-state kind="+v.Kind, "a rejected vote changed the vote set's observable state")
				}
			} else {
				conflict := false
				dup := false
				for _, o := range validBy[v.Index] {
					if o.bid.Equals(v.Bid.toBid()) {
						dup = true
					} else {
						conflict = true
					}
				}
				if conflict && !dup && code != 5 && prim[v.Index] != v.Sig {
					// a valid vote contradicting an earlier valid vote of the same validator must be reported
					hit("conflict-not-reported", fmt.Sprintf("validator %d: conflicting valid vote returned code %d", v.Index, code))
				}
				if !conflict && !dup && !(added && code == 0) {
					hit("first-valid-vote-not-added", fmt.Sprintf("validator %d: first valid vote gave added=%v code %d", v.Index, added, code))
				}
				if !dup {
					validBy[v.Index] = append(validBy[v.Index], offered{v.Bid.toBid(), v.Sig})
				}
				if conflict {
					nontrivial = true
				}
			}
			if prevMaj != nil && (maj == nil || !maj.Equals(*prevMaj)) {
				hit("maj23-changed", "a reported two-thirds majority changed or disappeared")
			}
			if maj != nil {
				nontrivial = true
				pw := int64(0)
				for i := 0; i < n; i++ {
					for _, o := range validBy[i] {
						if o.bid.Equals(*maj) {
							pw += set.Validators[i].VotingPower
							break
						}
					}
				}
				if !(pw > total*2/3) {
					hit("maj23-without-two-thirds", fmt.Sprintf("majority reported for %v with valid power %d of %d", bidJ(*maj), pw, total))
				}
			}
			// completeness for non-equivocating signers: validators whose every valid vote is for b
			for _, b := range c.Pool {
				pw := int64(0)
				for i := 0; i < n; i++ {
					if len(validBy[i]) == 1 && validBy[i][0].bid.Equals(b.toBid()) {
						pw += set.Validators[i].VotingPower
					}
				}
				if pw > total*2/3 && maj == nil {
					hit("majority-not-reported", fmt.Sprintf("non-equivocating valid power %d of %d for one block but no majority reported", pw, total))
				}
			}
			// each validator's power counted at most once
			sum := int64(0)
			for i := 0; i < n; i++ {
				if prim[i] != "" {
					sum += set.Validators[i].VotingPower
				}
			}
			if vs.HasAll() != (sum == total) || vs.HasTwoThirdsAny() != (sum > total*2/3) {
				hit("sum-miscounted", "HasAll/HasTwoThirdsAny disagree with the power of validators holding a primary vote")
			}
			prevMaj = maj
			prevSnap = sn
		}
		if c.Type == types.VoteTypePrecommit && vs.HasTwoThirdsMajority() {
			var cm *types.Commit
			pan, _ := catchPanic(func() { cm = vs.MakeCommit() })
			if pan {
				mk = "(" + sxL(sxL(sxBid(BidJ{}), "()"), "9") + ")"
				hit("makecommit-panic", "MakeCommit panicked with a majority present")
			} else {
				var err error
				pan2, _ := catchPanic(func() { err = set.VerifyCommit(vsChainID, cm.BlockID, c.Height, cm) })
				code := vcCode(err)
				if pan2 {
					code = 9
				}
				if code != 0 {
					hit("made-commit-does-not-verify", fmt.Sprintf("commit assembled from a majority fails VerifyCommit (code %d)", code))
				}
				pre := make([]string, len(cm.Precommits))
				for i, p := range cm.Precommits {
					if p == nil {
						pre[i] = "()"
					} else {
						pj := voteJ(p, "")
						pre[i] = "(" + sxVote(pj, sigokFor(pj, i)) + ")"
					}
				}
				mk = "(" + sxL(sxL(sxBid(bidJ(cm.BlockID)), sxL(pre...)), sxZ(int64(code))) + ")"
			}
		}
	}
	// extra commits
	var vcs []string
	for _, cj := range c.Commits {
		cm := &types.Commit{BlockID: cj.Bid.toBid()}
		pre := make([]string, len(cj.Pre))
		good := int64(0)
		wellFormed := len(cj.Pre) == n
		for i, p := range cj.Pre {
			if p == nil {
				cm.Precommits = append(cm.Precommits, nil)
				pre[i] = "()"
				continue
			}
			cm.Precommits = append(cm.Precommits, p.toVote())
			ok := sigokFor(p, i)
			pre[i] = "(" + sxVote(p, ok) + ")"
			if i < n && ok && p.Height == c.CHeight && p.Type == types.VoteTypePrecommit && p.Bid.toBid().Equals(cj.Bid.toBid()) {
				good += set.Validators[i].VotingPower
			}
		}
		var err error
		pan, msg := catchPanic(func() { err = set.VerifyCommit(vsChainID, cj.Bid.toBid(), c.CHeight, cm) })
		code := vcCode(err)
		if pan {
			code = 9
			hit("verifycommit-panic kind="+cj.Kind, "VerifyCommit panicked: "+msg)
		}
		dist["commit:"+cj.Kind]++
		dist[fmt.Sprintf("vccode:%d", code)]++
		if code == 0 && !(wellFormed && good > total*2/3) {
			hit("commit-accepted-without-two-thirds kind="+cj.Kind, fmt.Sprintf("VerifyCommit accepted a commit with valid power %d of %d", good, total))
		}
		if code == 0 {
			// single round
			var r0 *int64
			for _, p := range cj.Pre {
				if p != nil {
					if r0 == nil {
						x := p.Round
						r0 = &x
					} else if *r0 != p.Round {
						hit("commit-mixed-rounds", "VerifyCommit accepted precommits of different rounds")
					}
				}
			}
		}
		vcs = append(vcs, sxL(sxBid(cj.Bid), sxZ(c.CHeight), sxL(sxBid(cj.Bid), sxL(pre...)), sxZ(int64(code))))
	}
	line := sxL(sxL(vals...), sxZ(c.Height), sxZ(c.Round), sxZ(int64(c.Type)), sxBool(newPanic), sxL(pool...), sxL(ops...), mk, sxL(vcs...))
	return line, hits, dist, nontrivial
}

func engVoteSet(args []string) error {
	var corpus string
	c, err := commonFlags("voteset", args, func(fs *flag.FlagSet) { fs.StringVar(&corpus, "corpus", "", "corpus directory") })
	if err != nil {
		return err
	}
	meta := NewMeta("voteset", c.Seed)
	meta.Rule = "case = validator set (1..7 validators; equal, skewed, exact-thirds and near-2^62 powers), one VoteSet, a stream of valid/duplicate/conflicting/mis-signed/mis-indexed/other-step votes and peer majority claims over a pool of block ids (nil id included), all queries after every op, MakeCommit+VerifyCommit, and tampered commits; distinct = canonical JSON; non-trivial = a majority was reached or a conflicting valid vote was offered"
	var cases []VSCase
	if c.Replay != "" {
		var rc struct{ Case VSCase `json:"case"` }
		if err := readJSON(c.Replay, &rc); err != nil {
			return err
		}
		cases = append(cases, rc.Case)
	} else {
		fs, _ := filepath.Glob(filepath.Join(corpus, "*.json"))
		for _, f := range fs {
			var rc struct{ Case VSCase `json:"case"` }
			if err := readJSON(f, &rc); err == nil && len(rc.Case.Vals) > 0 {
				cases = append(cases, rc.Case)
				meta.Dist["corpus"]++
			}
		}
		r := NewRng(c.Seed)
		for i := 0; i < c.N; i++ {
			vc, _ := genVSCase(r.Fork(), i)
			cases = append(cases, vc)
		}
	}
	dist := NewDistinct()
	var sb strings.Builder
	for i, vc := range cases {
		line, hits, d, nontrivial := runVSCase(i, vc)
		sb.WriteString(line + "\n")
		meta.Monitor = append(meta.Monitor, hits...)
		for k, v := range d {
			meta.Dist[k] += v
		}
		writeCase(c.Out, i, vc)
		meta.Evaluations++
		if nontrivial {
			dist.Add(fmt.Sprint(line))
		}
		if i < 1 {
			meta.Samples = append(meta.Samples, vc)
		}
	}
	meta.Distinct = dist.Len()
	if err := ioutil.WriteFile(filepath.Join(c.Out, "cases.sx"), []byte(sb.String()), 0644); err != nil {
		return err
	}
	return meta.Write(c.Out)
}

func init() { engines["voteset"] = engVoteSet }
