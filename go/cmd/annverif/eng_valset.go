package main

// Engine "valset" (property C16): drives types.ValidatorSet over handles (copies, persisted twins).

import (
	"bytes"
	"flag"
	"fmt"
	"io/ioutil"
	"path/filepath"
	"sort"
	"strings"

	crypto "github.com/dappledger/AnnChain/gemmill/go-crypto"
	ghash "github.com/dappledger/AnnChain/gemmill/go-hash"
	wire "github.com/dappledger/AnnChain/gemmill/go-wire"
	"github.com/dappledger/AnnChain/gemmill/types"
)

type Val16J struct {
	Addr  string `json:"addr"`
	Pub   string `json:"pub"`
	Power int64  `json:"power"`
	Accum int64  `json:"accum"`
	IsCA  bool   `json:"is_ca"`
}
type VSetOp struct {
	Op    string   `json:"op"` // new incr copy add update remove roundtrip obs
	H     int      `json:"h"`
	H2    int      `json:"h2,omitempty"`
	Vals  []Val16J `json:"vals,omitempty"`
	Val   *Val16J  `json:"val,omitempty"`
	Addr  string   `json:"addr,omitempty"`
	Times int64    `json:"times,omitempty"`
}
type VSetCase struct {
	Ops   []VSetOp `json:"ops"`
	Twins [][2]int `json:"twins"` // (original, persisted twin) pairs that receive the same ops
}

func (v Val16J) toVal() *types.Validator {
	var pk crypto.PubKeyEd25519
	copy(pk[:], unhex(v.Pub))
	return &types.Validator{Address: unhex(v.Addr), PubKey: pk, VotingPower: v.Power, Accum: v.Accum, IsCA: v.IsCA}
}
func val16J(v *types.Validator) Val16J {
	pk, _ := v.PubKey.(crypto.PubKeyEd25519)
	return Val16J{Addr: hexs(v.Address), Pub: hexs(pk[:]), Power: v.VotingPower, Accum: v.Accum, IsCA: v.IsCA}
}
func sxVal(v Val16J) string {
	return sxL(sxB(unhex(v.Addr)), sxB(unhex(v.Pub)), sxZ(v.Power), sxZ(v.Accum), sxBool(v.IsCA))
}

func genVal(r *Rng, addrLen int, power int64) Val16J {
	return Val16J{Addr: hexs(r.Bytes(addrLen)), Pub: hexs(r.Bytes(32)), Power: power, IsCA: r.Chance(1, 4)}
}

func genVSetCase(r *Rng, directed int) VSetCase {
	var c VSetCase
	n := 1 + r.Intn(6)
	addrLen := 1 + r.Intn(3) // short addresses: shared prefixes, different lengths
	if directed%4 == 0 {
		addrLen = 20
	}
	var vals []Val16J
	seen := map[string]bool{}
	pw := genPowers(r, n, directed)
	for i := 0; i < n; i++ {
		v := genVal(r, addrLen, pw[i])
		if directed%6 == 4 || directed%6 == 5 {
			v.Power = int64(1 + r.Intn(4)) // small totals for the fairness window
		}
		if seen[v.Addr] {
			continue
		}
		seen[v.Addr] = true
		vals = append(vals, v)
	}
	c.Ops = append(c.Ops, VSetOp{Op: "new", H: 0, Vals: vals})
	c.Ops = append(c.Ops, VSetOp{Op: "obs", H: 0})
	handles := []int{0}
	next := 1
	twinOf := map[int]int{}
	pool := append([]Val16J{}, vals...)
	nops := 4 + r.Intn(30)
	if directed%6 == 4 {
		nops = 0
		tot := int64(0)
		for _, v := range vals {
			tot += v.Power
		}
		for k := int64(0); k < 2*tot+3; k++ { // two full windows of single increments
			c.Ops = append(c.Ops, VSetOp{Op: "incr", H: 0, Times: 1}, VSetOp{Op: "obs", H: 0})
		}
	}
	if directed%6 == 5 && len(vals) >= 2 {
		nops = 0
		// change the membership once, then run two full windows of single increments
		switch r.Intn(3) {
		case 0:
			c.Ops = append(c.Ops, VSetOp{Op: "remove", H: 0, Addr: vals[r.Intn(len(vals))].Addr})
		case 1:
			v := genVal(r, addrLen, int64(1+r.Intn(4)))
			c.Ops = append(c.Ops, VSetOp{Op: "add", H: 0, Val: &v})
		case 2:
			v := vals[r.Intn(len(vals))]
			v.Power = int64(1 + r.Intn(4))
			c.Ops = append(c.Ops, VSetOp{Op: "update", H: 0, Val: &v})
		}
		for k := 0; k < 60; k++ {
			c.Ops = append(c.Ops, VSetOp{Op: "incr", H: 0, Times: 1})
		}
		c.Ops = append(c.Ops, VSetOp{Op: "obs", H: 0})
	}
	emit := func(op VSetOp) {
		c.Ops = append(c.Ops, op)
		if t, ok := twinOf[op.H]; ok && op.Op != "obs" && op.Op != "copy" && op.Op != "roundtrip" {
			o2 := op
			o2.H = t
			c.Ops = append(c.Ops, o2)
		}
	}
	for k := 0; k < nops; k++ {
		h := handles[r.Intn(len(handles))]
		if _, isTwin := func() (int, bool) {
			for o, t := range twinOf {
				if t == h {
					return o, true
				}
			}
			return 0, false
		}(); isTwin {
			continue // twins are only driven through their original
		}
		switch roll := r.Intn(100); {
		case roll < 30:
			t := int64(1)
			if r.Chance(1, 3) {
				t = int64(r.Intn(5))
			}
			emit(VSetOp{Op: "incr", H: h, Times: t})
		case roll < 40:
			c.Ops = append(c.Ops, VSetOp{Op: "copy", H: h, H2: next})
			handles = append(handles, next)
			next++
		case roll < 52:
			v := genVal(r, addrLen, int64(1+r.Intn(10)))
			if r.Chance(1, 4) && len(pool) > 0 {
				v = pool[r.Intn(len(pool))] // already present (or removed earlier)
			}
			if r.Chance(1, 3) { // greater than everything: append path
				v.Addr = "ff" + v.Addr
			}
			pool = append(pool, v)
			emit(VSetOp{Op: "add", H: h, Val: &v})
		case roll < 62:
			if len(pool) > 0 {
				v := pool[r.Intn(len(pool))]
				v.Power = int64(r.Intn(12))
				v.Accum = int64(r.Intn(7) - 3)
				emit(VSetOp{Op: "update", H: h, Val: &v})
			}
		case roll < 72:
			if len(pool) > 0 {
				emit(VSetOp{Op: "remove", H: h, Addr: pool[r.Intn(len(pool))].Addr})
			}
		case roll < 80:
			if _, has := twinOf[h]; !has {
				c.Ops = append(c.Ops, VSetOp{Op: "roundtrip", H: h, H2: next})
				twinOf[h] = next
				c.Twins = append(c.Twins, [2]int{h, next})
				handles = append(handles, next)
				next++
			}
		default:
		}
		// observe every handle most of the time (copy independence), sometimes only one, sometimes none
		switch r.Intn(4) {
		case 0:
		case 1:
			c.Ops = append(c.Ops, VSetOp{Op: "obs", H: h})
		default:
			for _, x := range handles {
				c.Ops = append(c.Ops, VSetOp{Op: "obs", H: x})
			}
		}
	}
	for _, x := range handles {
		c.Ops = append(c.Ops, VSetOp{Op: "obs", H: x})
	}
	return c
}

type vsetObs struct {
	total int64
	prop  string
	hash  string
	vals  []Val16J
}

func observe(vs *types.ValidatorSet) vsetObs {
	var o vsetObs
	o.total = vs.TotalVotingPower()
	if p := vs.Proposer(); p != nil {
		o.prop = hexs(p.Address)
	} else {
		o.prop = "nil"
	}
	o.hash = hexs(vs.Hash())
	for _, v := range vs.Validators {
		o.vals = append(o.vals, val16J(v))
	}
	return o
}

func runVSetCase(idx int, c VSetCase) (string, []MonitorHit, map[string]int, bool) {
	var hits []MonitorHit
	dist := map[string]int{}
	hit := func(sig, what string) { hits = append(hits, MonitorHit{Case: idx, Sig: sig, What: what}) }
	tbl := NewHashRec()
	orig := ghash.DoHash
	ghash.DoHash = tbl.Wrap(orig)
	defer func() { ghash.DoHash = orig }()
	sets := map[int]*types.ValidatorSet{}
	lastObs := map[int]vsetObs{}
	twin := map[int]int{}
	for _, t := range c.Twins {
		twin[t[0]] = t[1]
	}
	var ops []string
	nontrivial := false
	// fairness bookkeeping for handle 0 while its membership is unchanged
	fairCount := map[string]int64{}
	fairSteps := int64(0)
	fairOK := true
	changed := false // membership of handle 0 changed since it was created
	checkWindow := func() {
		s := sets[0]
		if s == nil || !fairOK || fairSteps == 0 {
			return
		}
		total := int64(0)
		for _, v := range s.Validators {
			total += v.VotingPower
		}
		if total <= 0 || fairSteps != total {
			return
		}
		for _, v := range s.Validators {
			if fairCount[hexs(v.Address)] != v.VotingPower {
				sig := "unfair-window"
				if changed {
					sig = "unfair-window-after-change"
				}
				hit(sig, fmt.Sprintf("validator with power %d was selected %d times in a run of %d consecutive selections", v.VotingPower, fairCount[hexs(v.Address)], total))
				break
			}
		}
		nontrivial = true
		fairCount = map[string]int64{}
		fairSteps = 0
	}
	snapshotOthers := func(except int) map[int]string {
		m := map[int]string{}
		for h, s := range sets {
			if h == except {
				continue
			}
			var sb strings.Builder
			for _, v := range s.Validators {
				fmt.Fprintf(&sb, "%x:%d:%d;", v.Address, v.VotingPower, v.Accum)
			}
			m[h] = sb.String()
		}
		return m
	}
	for _, op := range c.Ops {
		dist["op:"+op.Op]++
		before := snapshotOthers(op.H)
		if t, ok := twin[op.H]; ok {
			delete(before, t)
		}
		for o, t := range twin {
			if t == op.H {
				delete(before, o)
			}
		}
		switch op.Op {
		case "new":
			vals := make([]*types.Validator, len(op.Vals))
			for i, v := range op.Vals {
				vals[i] = v.toVal()
			}
			pan, _ := catchPanic(func() { sets[op.H] = types.NewValidatorSet(vals) })
			vs := make([]string, len(op.Vals))
			for i, v := range op.Vals {
				vs[i] = sxVal(v)
			}
			ops = append(ops, sxL("0", sxZ(int64(op.H)), sxL(vs...), sxBool(pan)))
			if pan {
				delete(sets, op.H)
			}
		case "incr":
			s := sets[op.H]
			if s == nil {
				continue
			}
			pan, _ := catchPanic(func() { s.IncrementAccum(op.Times) })
			ops = append(ops, sxL("1", sxZ(int64(op.H)), sxZ(op.Times), sxBool(pan)))
			if op.H == 0 && fairOK && !pan && op.Times == 1 {
				if p := s.Proposer(); p != nil {
					fairCount[hexs(p.Address)]++
					fairSteps++
					checkWindow()
				}
			} else if op.H == 0 && op.Times != 1 {
				fairCount = map[string]int64{}
				fairSteps = 0
			}
		case "copy":
			s := sets[op.H]
			if s == nil {
				continue
			}
			sets[op.H2] = s.Copy()
			ops = append(ops, sxL("2", sxZ(int64(op.H)), sxZ(int64(op.H2))))
		case "add", "update":
			s := sets[op.H]
			if s == nil {
				continue
			}
			var r bool
			code := "3"
			if op.Op == "add" {
				r = s.Add(op.Val.toVal())
			} else {
				r = s.Update(op.Val.toVal())
				code = "4"
			}
			ops = append(ops, sxL(code, sxZ(int64(op.H)), sxVal(*op.Val), sxBool(r)))
			if r {
				nontrivial = true
				if op.H == 0 {
					changed = true
					fairCount = map[string]int64{}
					fairSteps = 0
				}
			}
		case "remove":
			s := sets[op.H]
			if s == nil {
				continue
			}
			_, r := s.Remove(unhex(op.Addr))
			ops = append(ops, sxL("5", sxZ(int64(op.H)), sxB(unhex(op.Addr)), sxBool(r)))
			if r {
				nontrivial = true
				if op.H == 0 {
					changed = true
					fairCount = map[string]int64{}
					fairSteps = 0
				}
			}
		case "roundtrip":
			s := sets[op.H]
			if s == nil {
				continue
			}
			bz := wire.BinaryBytes(s)
			var s2 *types.ValidatorSet
			if err := wire.ReadBinaryBytes(bz, &s2); err != nil || s2 == nil {
				hit("roundtrip-failed", fmt.Sprint("validator set does not survive the wire round trip: ", err))
				continue
			}
			sets[op.H2] = s2
			ops = append(ops, sxL("6", sxZ(int64(op.H)), sxZ(int64(op.H2))))
			nontrivial = true
		case "obs":
			s := sets[op.H]
			if s == nil {
				continue
			}
			o := observe(s)
			lastObs[op.H] = o
			vs := make([]string, len(o.vals))
			for i, v := range o.vals {
				vs[i] = sxVal(v)
			}
			pr := "()"
			if o.prop != "nil" {
				pr = "(" + sxB(unhex(o.prop)) + ")"
			}
			ops = append(ops, sxL("7", sxZ(int64(op.H)), sxZ(o.total), pr, sxB(unhex(o.hash)), sxL(vs...)))
			// monitors: sorted, duplicate-free, total = sum, proposer is a member
			addrs := make([][]byte, len(o.vals))
			sum := int64(0)
			member := o.prop == "nil" && len(o.vals) == 0
			for i, v := range o.vals {
				addrs[i] = unhex(v.Addr)
				sum += v.Power
				if v.Addr == o.prop {
					member = true
				}
			}
			if !sort.SliceIsSorted(addrs, func(i, j int) bool { return bytes.Compare(addrs[i], addrs[j]) < 0 }) {
				hit("not-sorted", "validator set is not sorted by address")
			}
			for i := 1; i < len(addrs); i++ {
				if bytes.Equal(addrs[i-1], addrs[i]) {
					hit("duplicate-validator", "validator set contains an address twice")
				}
			}
			if o.total != sum {
				hit("total-power-stale", fmt.Sprintf("TotalVotingPower() = %d but the members' powers add up to %d", o.total, sum))
			}
			if !member {
				hit("proposer-not-member", "Proposer() is not a member of the set")
			}
			// replica agreement: a persisted-and-reloaded twin that received the same operations
			for a, b := range twin {
				oa, okA := lastObs[a]
				ob, okB := lastObs[b]
				if (op.H == a || op.H == b) && okA && okB && sameVals(oa.vals, ob.vals) {
					if oa.prop != ob.prop {
						hit("restart-divergence proposer", fmt.Sprintf("a replica that reloaded the set from its persisted form names proposer %s, the running one %s", ob.prop, oa.prop))
					}
					if oa.hash != ob.hash {
						hit("restart-divergence hash", "equal validator lists hash differently on a reloaded replica")
					}
					if oa.total != ob.total {
						hit("restart-divergence total", fmt.Sprintf("total voting power %d on the running replica, %d on the reloaded one", oa.total, ob.total))
					}
				}
			}
		}
		// copy independence: an operation on one handle leaves every unrelated handle's validators alone
		after := snapshotOthers(op.H)
		for h, s := range before {
			if after[h] != s {
				hit("copy-not-independent op="+op.Op, fmt.Sprintf("operation %s on handle %d changed handle %d", op.Op, op.H, h))
			}
		}
	}
	return sxL(tbl.Sx(), sxL(ops...)), hits, dist, nontrivial
}

func sameVals(a, b []Val16J) bool {
	if len(a) != len(b) {
		return false
	}
	for i := range a {
		if a[i] != b[i] {
			return false
		}
	}
	return true
}

func engValSet(args []string) error {
	var corpus string
	c, err := commonFlags("valset", args, func(fs *flag.FlagSet) { fs.StringVar(&corpus, "corpus", "", "corpus directory") })
	if err != nil {
		return err
	}
	meta := NewMeta("valset", c.Seed)
	meta.Rule = "case = operation sequence over handles of a ValidatorSet: new, single/batched IncrementAccum, Copy, Add/Update/Remove (append, insert, present, absent), persisted twins (wire round trip) receiving the same operations, observations (total, proposer, hash, list) of all handles; directed cases run two full windows of single increments; distinct = case line; non-trivial = membership changed, a twin exists or a full fairness window was run"
	var cases []VSetCase
	if c.Replay != "" {
		var rc struct{ Case VSetCase `json:"case"` }
		if err := readJSON(c.Replay, &rc); err != nil {
			return err
		}
		cases = append(cases, rc.Case)
	} else {
		fs, _ := filepath.Glob(filepath.Join(corpus, "*.json"))
		for _, f := range fs {
			var rc struct{ Case VSetCase `json:"case"` }
			if err := readJSON(f, &rc); err == nil && len(rc.Case.Ops) > 0 {
				cases = append(cases, rc.Case)
				meta.Dist["corpus"]++
			}
		}
		r := NewRng(c.Seed)
		for i := 0; i < c.N; i++ {
			cases = append(cases, genVSetCase(r.Fork(), i))
		}
	}
	dist := NewDistinct()
	var sb strings.Builder
	for i, vc := range cases {
		line, hits, d, nontrivial := runVSetCase(i, vc)
		sb.WriteString(line + "\n")
		meta.Monitor = append(meta.Monitor, hits...)
		for k, v := range d {
			meta.Dist[k] += v
		}
		writeCase(c.Out, i, vc)
		meta.Evaluations++
		if nontrivial {
			dist.Add(line)
		}
		if i < 1 {
			meta.Samples = append(meta.Samples, vc)
		}
	}
	meta.Distinct = dist.Len()
	if err := ioutil.WriteFile(filepath.Join(c.Out, "cases.sx"), []byte(sb.String()), 0644); err != nil {
		return err
	}
	return meta.Write(c.Out)
}

func init() { engines["valset"] = engValSet }
