package main

// Engine "evmapp" (C09, C05): the real EVM application (chain/app/evm) executing blocks of
// arbitrary transaction bytes: well-formed signed transfers, calls (every precompile address
// included), creations, key-value transactions, stale / future / repeated nonces, bad signatures,
// garbage and empty byte strings.  A second replica executes the same blocks with another number
// of signature-verifier routines and with restarts between blocks.  Per transaction the verdict
// (applied / invalid) and per block the sender nonces are compared with Model/TxExec.v.

import (
	"bytes"
	"fmt"
	"io/ioutil"
	"math/big"
	"os"
	"time"

	"github.com/spf13/viper"

	evmapp "github.com/dappledger/AnnChain/chain/app/evm"
	rtypes "github.com/dappledger/AnnChain/chain/types"
	"github.com/dappledger/AnnChain/eth/common"
	etypes "github.com/dappledger/AnnChain/eth/core/types"
	"github.com/dappledger/AnnChain/eth/crypto"
	"github.com/dappledger/AnnChain/eth/rlp"
	gtypes "github.com/dappledger/AnnChain/gemmill/types"
)

type appTxJ struct {
	Kind  string `json:"kind"` // evm kv garbage empty
	From  int    `json:"from"` // key index, -1 when no sender is recoverable
	Nonce uint64 `json:"nonce"`
	Ok    bool   `json:"ok"` // everything but the nonce is in order
	Raw   string `json:"raw"`
	Note  string `json:"note"`
	KVKey string `json:"kv_key,omitempty"`
	KVVal string `json:"kv_val,omitempty"`
}
type appCase struct {
	Blocks   [][]appTxJ `json:"blocks"`
	Restarts []bool     `json:"restarts"` // replica B restarts before block i
	Reexec   []bool     `json:"reexec,omitempty"` // replica B is stopped after committing block i, reopened, and executes block i once more (what recovery does after a crash between the application's commit and the node's own)
	Workers  int        `json:"workers"`  // replica B's verifier routines
}

var appKeys = []string{
	"7d73c3dafd3c0215b8526b26f8dbdb93242fc7dcfbdfa1000d93436d577c3b94",
	"b71c71a67e1177ad4e901695e1b4b9ee17ae16c6668d313eac2f96dbcda3f291",
	"45a915e4d060149eb4365960e6a7a45f334393093061116b197e3240065ff2d8",
	// a fourth sender no source chain uses: its first transaction is valid wherever it is slipped in
	"8a1f9a8f95be41cd7ccb6168179afb4504aefe388d1e14474d32c45c72ce7b7a",
}

func signAppTx(tx *etypes.Transaction, key int, badV bool) []byte {
	k, _ := crypto.HexToECDSA(appKeys[key])
	signer := etypes.HomesteadSigner{}
	sig, _ := crypto.Sign(signer.Hash(tx).Bytes(), k)
	if badV {
		sig[64] = 2
	}
	stx, err := tx.WithSignature(signer, sig)
	if err != nil {
		return nil
	}
	bs, _ := rlp.EncodeToBytes(stx)
	return bs
}

func genAppCase(r *Rng, i int) *appCase {
	c := &appCase{Workers: []int{1, 2, 4, 8, 16}[r.Intn(5)]}
	next := []uint64{0, 0, 0}
	nb := 2 + r.Intn(5)
	var earlier []appTxJ
	counterInit := common.Hex2Bytes("600a600c600039600a6000f3" + "60005460010160005500")
	// runtime: c = sload(0)+1; sstore(0,c); mstore(0,c); log0(0,32)
	loggerInit := common.Hex2Bytes("6013600c60003960136000f3" + "6000546001018060005560005260206000a000")
	// runtime: sstore(k, blockhash(number-d)) for d = 2, 1, 3: what BLOCKHASH answers becomes part of the state
	hashrecInit := common.Hex2Bytes("601c600c600039601c6000f3" + "4360029003406000554360019003406001554360039003406002" + "5500")
	type created struct {
		key   int
		nonce uint64
	}
	var creations []created
	for b := 0; b < nb; b++ {
		var blk []appTxJ
		pending := append([]uint64{}, next...)
		if b == 0 && i < 2*len(modexpPats) {
			// the first cases walk through every combination of length words of the modexp precompile
			tx := etypes.NewTransaction(0, common.BytesToAddress([]byte{5}), big.NewInt(0), 1000000, big.NewInt(0), modexpPayloadPat(r, i%len(modexpPats), i/len(modexpPats)))
			blk = append(blk, appTxJ{Kind: "evm", From: 0, Nonce: 0, Ok: true, Raw: hexs(signAppTx(tx, 0, false)), Note: "next-nonce call modexp modexp-lengths directed"})
			pending[0]++
		}
		for t := 0; t < r.Intn(7); t++ {
			key := r.Intn(3)
			nonce := pending[key]
			note := "next-nonce"
			switch r.Intn(8) {
			case 0:
				if nonce > 0 {
					nonce = uint64(r.Intn(int(nonce)))
					note = "stale-nonce"
				}
			case 1:
				nonce += uint64(1 + r.Intn(3))
				note = "future-nonce"
			}
			var tj appTxJ
			switch k := r.Intn(20); {
			case k < 5 && len(creations) > 0 && r.Bool(): // call a contract an earlier transaction (may have) created
				cr := creations[r.Intn(len(creations))]
				to := crypto.CreateAddress(appAddr(cr.key), cr.nonce)
				tx := etypes.NewTransaction(nonce, to, big.NewInt(0), 1000000, big.NewInt(0), nil)
				tj = appTxJ{Kind: "evm", From: key, Nonce: nonce, Ok: true, Raw: hexs(signAppTx(tx, key, false)), Note: note + " call-created"}
			case k < 5: // transfer / call to an arbitrary address, precompiles included
				to := common.BytesToAddress([]byte{byte([]int{1, 2, 3, 4, 5, 6, 7, 8, 9, 254, 0xc1, 0}[r.Intn(12)])})
				payload := r.Bytes(r.Intn(70))
				pnote := ""
				if r.Bool() {
					// payloads in the shape the precompiles parse: 32-byte words holding lengths and field
					// elements at and beyond every boundary, followed by some data
					payload, pnote = precompilePayload(r), " structured-payload"
					if r.Bool() {
						to = common.BytesToAddress([]byte{byte([]int{5, 5, 5, 1, 6, 7, 8, 8, 2, 4}[r.Intn(10)])})
						if to[19] == 5 {
							payload, pnote = modexpPayload(r), " modexp-lengths"
						}
					}
				}
				tx := etypes.NewTransaction(nonce, to, big.NewInt(0), 1000000, big.NewInt(0), payload)
				tj = appTxJ{Kind: "evm", From: key, Nonce: nonce, Ok: true, Raw: hexs(signAppTx(tx, key, false)), Note: note + " call " + to.Hex() + pnote}
			case k < 8: // creation, succeeding or failing
				init := counterInit
				switch r.Intn(7) {
				case 0:
					init = []byte{0xfe}
				case 1, 2:
					init = loggerInit
				case 3, 4:
					init = hashrecInit
				}
				creations = append(creations, created{key, nonce})
				tx := etypes.NewContractCreation(nonce, big.NewInt(0), 1000000, big.NewInt(0), init)
				tj = appTxJ{Kind: "evm", From: key, Nonce: nonce, Ok: true, Raw: hexs(signAppTx(tx, key, false)), Note: note + " create"}
			case k < 12: // key-value transaction
				kvk, kvv := []byte(fmt.Sprintf("k%d", r.Intn(4))), r.Bytes(1+r.Intn(8))
				payload, _ := rlp.EncodeToBytes(&rtypes.KV{Key: kvk, Value: kvv})
				ok := true
				if r.Chance(1, 4) {
					payload = r.Bytes(r.Intn(6))
					ok = false
				}
				data := append(append([]byte{}, rtypes.KVTxType...), payload...)
				tx := etypes.NewTransaction(nonce, common.Address{}, big.NewInt(0), 1000000, big.NewInt(0), data)
				tj = appTxJ{Kind: "kv", From: key, Nonce: nonce, Ok: ok, Raw: hexs(signAppTx(tx, key, false)), Note: note + " kv"}
				if ok {
					tj.KVKey, tj.KVVal = hexs(kvk), hexs(kvv)
				}
			case k < 14: // unrecoverable signature
				data := r.Bytes(r.Intn(10))
				kind := "evm"
				if r.Bool() {
					payload, _ := rlp.EncodeToBytes(&rtypes.KV{Key: []byte("kbad"), Value: []byte("v")})
					data = append(append([]byte{}, rtypes.KVTxType...), payload...)
					kind = "kv"
				}
				tx := etypes.NewTransaction(nonce, common.BytesToAddress([]byte{9}), big.NewInt(0), 1000000, big.NewInt(0), data)
				tj = appTxJ{Kind: kind, From: -1, Nonce: nonce, Ok: true, Raw: hexs(signAppTx(tx, key, true)), Note: "bad-signature"}
			case k < 15:
				tj = appTxJ{Kind: "garbage", From: -1, Raw: hexs(r.Bytes(1 + r.Intn(40))), Note: "garbage"}
			case k < 16:
				tj = appTxJ{Kind: "empty", From: -1, Raw: "", Note: "empty"}
			case k < 18 && len(earlier) > 0: // the bytes of an earlier transaction again
				tj = earlier[r.Intn(len(earlier))]
				tj.Note = "replayed: " + tj.Note
			default: // value the sender cannot pay
				tx := etypes.NewTransaction(nonce, common.BytesToAddress([]byte{0xc1}), big.NewInt(5), 1000000, big.NewInt(0), nil)
				tj = appTxJ{Kind: "evm", From: key, Nonce: nonce, Ok: false, Raw: hexs(signAppTx(tx, key, false)), Note: note + " value-without-funds"}
			}
			blk = append(blk, tj)
			if tj.From >= 0 && tj.Ok && tj.Nonce == pending[tj.From] {
				pending[tj.From]++
			}
		}
		earlier = append(earlier, blk...)
		copy(next, pending)
		c.Blocks = append(c.Blocks, blk)
		c.Restarts = append(c.Restarts, r.Chance(1, 3))
		c.Reexec = append(c.Reexec, r.Chance(1, 4))
	}
	return c
}

// precompilePayload builds call data out of 32-byte words the precompiled contracts read as lengths,
// curve points and scalars: zero, small, 2^32, 2^56, 2^62, 2^63, 2^64-1, 2^255, 2^256-1, the bn256 field
// prime and its neighbours, then 0..96 bytes of data.  Lengths above 2^48 cannot be allocated at all,
// so a precompile that allocates before it charges shows as a panic, not as an exhausted machine.
func precompilePayload(r *Rng) []byte {
	word := func() []byte {
		w := make([]byte, 32)
		switch r.Intn(12) {
		case 0:
		case 1:
			w[31] = byte(r.Intn(4))
		case 2:
			w[31] = byte(32 * (1 + r.Intn(3)))
		case 3:
			w[27] = 1 // 2^32
		case 4:
			w[24] = 1 // 2^56
		case 5:
			w[24] = 0x40 // 2^62
		case 6:
			w[24] = 0x80 // 2^63
		case 7:
			for i := 24; i < 32; i++ {
				w[i] = 0xff
			}
		case 8:
			w[0] = 0x80
		case 9:
			for i := range w {
				w[i] = 0xff
			}
		case 10:
			p, _ := new(big.Int).SetString("21888242871839275222246405745257275088696311157297823662689037894645226208583", 10)
			p.Add(p, big.NewInt(int64(r.Intn(3)-1)))
			copy(w, common.LeftPadBytes(p.Bytes(), 32))
		default:
			copy(w, r.Bytes(32))
		}
		return w
	}
	var out []byte
	for i := 0; i < 1+r.Intn(7); i++ {
		out = append(out, word()...)
	}
	return append(out, r.Bytes(r.Intn(97))...)
}

// modexpPayload: the three length words of the modular-exponentiation precompile in every combination of
// zero, small and unallocatable, then data
const mxH = -1

var modexpPats = [][3]int{{0, mxH, 0}, {0, 0, 0}, {3, mxH, 3}, {mxH, 0, 0}, {0, 0, mxH}, {2, 2, 2}, {0, 2, 2}, {2, 2, 0}, {mxH, mxH, mxH}, {0, mxH, 2}, {1, 33, 1}, {32, 1, 32}}

func modexpPayload(r *Rng) []byte { return modexpPayloadPat(r, r.Intn(len(modexpPats)), r.Intn(5)) }

// hsel picks the unallocatable length: 2^62, 2^64-1, 2^56, 2^63-1, 2^63 (from 2^63 up it is negative as an int)
func modexpPayloadPat(r *Rng, k int, hsel int) []byte {
	const H = mxH
	pat := modexpPats[k]
	var out []byte
	for _, l := range pat {
		w := make([]byte, 32)
		if l == H {
			switch hsel {
			case 0:
				w[24] = 0x40 // 2^62
			case 2:
				w[24] = 0x01 // 2^56
			case 3:
				w[24] = 0x7f // 2^63-1
				for i := 25; i < 32; i++ {
					w[i] = 0xff
				}
			case 4:
				w[24] = 0x80 // 2^63
			default:
				for i := 24; i < 32; i++ {
					w[i] = 0xff
				}
			}
		} else {
			w[31] = byte(l)
		}
		out = append(out, w...)
	}
	return append(out, r.Bytes(r.Intn(100))...)
}

func openApp(dir string) (*evmapp.EVMApp, error) {
	conf := viper.New()
	conf.Set("db_dir", dir)
	conf.Set("block_size", 100)
	app, err := evmapp.NewEVMApp(conf)
	if err != nil {
		return nil, err
	}
	if err := app.Start(); err != nil {
		return nil, err
	}
	return app, nil
}

func appBlock(height int64, txs []appTxJ, prev []byte, prevApp []byte) *gtypes.Block {
	var raw []gtypes.Tx
	for _, t := range txs {
		raw = append(raw, gtypes.Tx(unhex(t.Raw)))
	}
	return &gtypes.Block{
		Header: &gtypes.Header{ChainID: "verif", Height: height, Time: time.Unix(1500000000+height, 0), NumTxs: int64(len(raw)), ValidatorsHash: []byte("vals"),
			LastBlockID: gtypes.BlockID{Hash: prev}, AppHash: prevApp},
		Data:   &gtypes.Data{Txs: raw}, LastCommit: &gtypes.Commit{},
	}
}

type blockOutcome struct {
	valid   [][]byte
	invalid [][]byte
	app     []byte
	rcpt    []byte
	nonces  []uint64
	queries []string
	panic   string
}

func appAddr(i int) common.Address {
	k, _ := crypto.HexToECDSA(appKeys[i])
	return crypto.PubkeyToAddress(k.PublicKey)
}

func execBlock(app *evmapp.EVMApp, b *gtypes.Block) (o blockOutcome) {
	p, msg := catchPanic(func() {
		r, err := app.OnExecute(b.Height, 0, b)
		if err != nil {
			o.panic = "OnExecute error: " + err.Error()
			return
		}
		res := r.(gtypes.ExecuteResult)
		for _, t := range res.ValidTxs {
			o.valid = append(o.valid, t)
		}
		for _, t := range res.InvalidTxs {
			o.invalid = append(o.invalid, t.Bytes)
		}
		c, err := app.OnCommit(b.Height, 0, b)
		if err != nil {
			o.panic = "OnCommit error: " + err.Error()
			return
		}
		cr := c.(gtypes.CommitResult)
		o.app, o.rcpt = cr.AppHash, cr.ReceiptsHash
		for i := 0; i < 3; i++ {
			a := appAddr(i)
			q := app.Query(append([]byte{byte(rtypes.QueryType_Nonce)}, a[:]...))
			var n uint64
			rlp.DecodeBytes(q.Data, &n)
			o.nonces = append(o.nonces, n)
		}
	})
	if p {
		o.panic = msg + " [" + lastPanicWhere + "]"
	}
	return o
}

func runAppCase(idx int, c *appCase) (string, []MonitorHit, map[string]int, bool) {
	dist := map[string]int{}
	var hits []MonitorHit
	hit := func(sig, what string) { hits = append(hits, MonitorHit{Case: idx, Sig: sig, What: what}) }
	var dirs []string
	defer func() {
		for _, d := range dirs {
			os.RemoveAll(d)
		}
	}()
	old := evmapp.VerifSetValidateRoutines(8)
	defer evmapp.VerifSetValidateRoutines(old)
	open := func() *evmapp.EVMApp {
		d, _ := ioutil.TempDir("", "annverif-app")
		dirs = append(dirs, d)
		a, err := openApp(d)
		if err != nil {
			hit("harness-error", err.Error())
			return nil
		}
		return a
	}
	// A: the reference replica; B: other verifier count and restarts; C: executes only what A applied
	a, b, cc := open(), open(), open()
	if a == nil || b == nil || cc == nil {
		return "(9)", hits, dist, false
	}
	dirB := dirs[1]
	defer func() {
		catchPanic(func() { a.Stop() })
		catchPanic(func() { b.Stop() })
		catchPanic(func() { cc.Stop() })
	}()
	var blocks []string
	applied := 0
	firstSeen := map[string]int{}
	everApplied := map[string]bool{}
	kvNow := map[string]string{}
	nextID := 0
	var prevHash, prevApp []byte
	for h, blk := range c.Blocks {
		height := int64(h + 1)
		evmapp.VerifSetValidateRoutines(8)
		blkA := appBlock(height, blk, prevHash, prevApp)
		oa := execBlock(a, blkA)
		if oa.panic != "" {
			hit("app-panic", fmt.Sprintf("block %d: %s", height, oa.panic))
			blocks = append(blocks, "(9)")
			break
		}
		// replica B: other verifier count, maybe a restart first
		if c.Restarts[h] {
			dist["replica-restart"]++
			b.Stop()
			nb, err := openApp(dirB)
			if err != nil {
				hit("replica-restart-failed", err.Error())
				break
			}
			b = nb
		}
		evmapp.VerifSetValidateRoutines(c.Workers)
		dist[fmt.Sprintf("workers=%d", c.Workers)]++
		ob := execBlock(b, appBlock(height, blk, prevHash, prevApp))
		if ob.panic != "" {
			hit("app-panic", fmt.Sprintf("replica block %d: %s", height, ob.panic))
			break
		}
		if h < len(c.Reexec) && c.Reexec[h] {
			// the process dies after the application's commit of this block and before the node's own:
			// the block is executed once more over the same database and must give the same result
			dist["replica-reexecutes-block"]++
			b.Stop()
			nb, err := openApp(dirB)
			if err != nil {
				hit("replica-restart-failed", err.Error())
				break
			}
			b = nb
			ob2 := execBlock(b, appBlock(height, blk, prevHash, prevApp))
			if ob2.panic != "" {
				hit("app-panic", fmt.Sprintf("replica block %d executed again: %s", height, ob2.panic))
				break
			}
			if !bytes.Equal(ob2.app, ob.app) || !bytes.Equal(ob2.rcpt, ob.rcpt) || len(ob2.valid) != len(ob.valid) {
				hit("replica-divergence kind=re-execution", fmt.Sprintf("block %d executed a second time after a restart: app hash %x / %x, receipts hash %x / %x, %d / %d applied", height, ob.app, ob2.app, ob.rcpt, ob2.rcpt, len(ob.valid), len(ob2.valid)))
			}
		}
		ctx := fmt.Sprintf("block %d (replica with %d verifier routines, restarted before this block: %v)", height, c.Workers, c.Restarts[h])
		if !bytes.Equal(oa.app, ob.app) {
			hit("replica-divergence kind=app-hash", fmt.Sprintf("%s: %x vs %x", ctx, oa.app, ob.app))
		} else if !bytes.Equal(oa.rcpt, ob.rcpt) {
			hit("replica-divergence kind=receipts-hash", ctx)
		} else if len(oa.valid) != len(ob.valid) || len(oa.invalid) != len(ob.invalid) {
			hit("replica-divergence kind=verdicts", ctx)
		} else {
			for i := range oa.valid {
				if !bytes.Equal(oa.valid[i], ob.valid[i]) {
					hit("replica-divergence kind=verdicts", ctx)
					break
				}
			}
			for i := range oa.queries {
				if i >= len(ob.queries) || oa.queries[i] != ob.queries[i] {
					hit("replica-divergence kind=query", fmt.Sprintf("%s: %s", ctx, oa.queries[i]))
					break
				}
			}
		}
		if len(oa.valid)+len(oa.invalid) != len(blk) {
			hit("tx-without-verdict", fmt.Sprintf("block %d: %d transactions, %d valid + %d invalid", height, len(blk), len(oa.valid), len(oa.invalid)))
		}
		// verdict per transaction, in block order
		var txs []string
		var kept []appTxJ
		vi := 0
		for _, t := range blk {
			raw := unhex(t.Raw)
			v := false
			if vi < len(oa.valid) && bytes.Equal(oa.valid[vi], raw) {
				v = true
				vi++
				applied++
				kept = append(kept, t)
			}
			id, ok := firstSeen[t.Raw]
			if !ok {
				id = nextID
				firstSeen[t.Raw] = id
				nextID++
			}
			dist["tx="+t.Kind]++
			if v {
				dist["applied="+t.Kind]++
				if everApplied[t.Raw] {
					hit("transaction-applied-twice", fmt.Sprintf("block %d: %s (%s)", height, t.Raw, t.Note))
				}
				everApplied[t.Raw] = true
				if t.KVKey != "" {
					kvNow[string(unhex(t.KVKey))] = t.KVVal
				}
			}
			// receipts: an applied EVM transaction has one, a transaction never applied has none
			var tx etypes.Transaction
			if len(raw) > 0 && rlp.DecodeBytes(raw, &tx) == nil && t.Kind == "evm" {
				hsh := tx.Hash()
				q := a.Query(append([]byte{byte(rtypes.QueryType_Receipt)}, hsh[:]...))
				has := q.Code == gtypes.CodeType_OK && len(q.Data) > 0
				if everApplied[t.Raw] && !has {
					hit("applied-tx-without-receipt", fmt.Sprintf("block %d: %s", height, t.Note))
				}
				if !everApplied[t.Raw] && has {
					hit("invalid-tx-has-receipt", fmt.Sprintf("block %d: %s", height, t.Note))
				}
			}
			txs = append(txs, sxL(sxZ(int64(id)), sxZ(int64(t.From)), sxU(t.Nonce), sxBool(t.Ok), sxBool(v)))
		}
		// key-value content as queried = last applied write per key
		for _, k := range []string{"k0", "k1", "k2", "k3", "kbad"} {
			q := a.Query(append([]byte{byte(rtypes.QueryType_Key)}, []byte(k)...))
			want, has := kvNow[k]
			if has && hexs(q.Data) != want {
				hit("kv-query-wrong", fmt.Sprintf("block %d key %s: %x, last applied write %s", height, k, q.Data, want))
			}
			if !has && q.Code == gtypes.CodeType_OK && len(q.Data) > 0 {
				hit("kv-written-by-invalid-tx", fmt.Sprintf("block %d key %s: %x", height, k, q.Data))
			}
		}
		// replica C executes the block without the transactions A reported invalid
		evmapp.VerifSetValidateRoutines(8)
		oc := execBlock(cc, appBlock(height, kept, prevHash, prevApp))
		if oc.panic != "" {
			hit("app-panic", fmt.Sprintf("filtered block %d: %s", height, oc.panic))
			break
		}
		if !bytes.Equal(oa.app, oc.app) {
			hit("invalid-tx-changed-state kind=app-hash", fmt.Sprintf("block %d: with the invalid transactions %x, without them %x", height, oa.app, oc.app))
		} else if len(oc.invalid) != 0 {
			hit("invalid-tx-changed-state kind=verdict", fmt.Sprintf("block %d: %d of the applied transactions are invalid once the invalid ones are left out", height, len(oc.invalid)))
		} else if fmt.Sprint(oa.nonces) != fmt.Sprint(oc.nonces) {
			hit("invalid-tx-changed-state kind=nonce", fmt.Sprintf("block %d: %v vs %v", height, oa.nonces, oc.nonces))
		}
		prevHash = blkA.Hash() // the blocks chain: BLOCKHASH of the parent is this hash
		prevApp = oa.app
		blocks = append(blocks, sxL(sxL(txs...), sxL(sxU(oa.nonces[0]), sxU(oa.nonces[1]), sxU(oa.nonces[2]))))
	}
	return sxL(blocks...), hits, dist, applied >= 2
}

func init() {
	engines["evmapp"] = func(args []string) error {
		return runGenericEngine("evmapp",
			"case = 2..6 blocks of 0..6 transactions each for the real EVM application on a fresh LevelDB directory: signed calls to arbitrary addresses (every precompile address and the governance precompile included; random payloads, and payloads of 32-byte words holding lengths and field elements at and beyond every boundary), contract creations with succeeding and failing init code (a counter, a logger, and a contract that stores what BLOCKHASH answers for the last three blocks; the blocks chain through their real hashes), key-value transactions with well-formed and malformed payloads, value transfers the sender cannot fund, stale, future and next nonces from three senders, unrecoverable signatures, garbage bytes, the empty byte string, and the exact bytes of earlier transactions again; a second replica executes the same blocks with 1/2/4/8/16 verifier routines and is stopped and reopened before a third of the blocks, and after a quarter of the blocks it is stopped, reopened and made to execute that block a second time (the recovery path: each header names the app hash before it); a third replica executes each block without the transactions the first reported invalid; compared: app hash, receipts hash, verdict lists and query results (nonces, keys, receipts) between replicas, app hash and nonces with the filtered replica, receipts present exactly for applied transactions, key queries against the last applied write; per transaction the verdict and per block the senders' nonces go to the model; distinct = case line; non-trivial = at least two transactions applied",
			args,
			func(r *Rng, i int) interface{} { return genAppCase(r, i) },
			func(f string) (interface{}, error) {
				var c appCase
				if err := readCase(f, &c); err != nil {
					return nil, err
				}
				return &c, nil
			},
			func(i int, ci interface{}, out string) (string, []MonitorHit, map[string]int, bool) {
				return runAppCase(i, ci.(*appCase))
			})
	}
}
