package main

// the reference implementations live in a helper process (cmd/refhelper)

import (
	"bufio"
	"encoding/json"
	"io"
	"os"
	"os/exec"
	"path/filepath"
)

var (
	refCmd *exec.Cmd
	refIn  io.WriteCloser
	refOut *bufio.Reader
)

func refStart() error {
	if refCmd != nil {
		return nil
	}
	exe, _ := os.Executable()
	path := filepath.Join(filepath.Dir(exe), "refhelper")
	// bounded address space: a reference interpreter that is led astray must die, not thrash
	cmd := exec.Command("sh", "-c", "ulimit -v 6000000 2>/dev/null; exec \"$0\"", path)
	in, err := cmd.StdinPipe()
	if err != nil {
		return err
	}
	out, err := cmd.StdoutPipe()
	if err != nil {
		return err
	}
	cmd.Stderr = os.Stderr
	if err := cmd.Start(); err != nil {
		return err
	}
	refCmd, refIn, refOut = cmd, in, bufio.NewReaderSize(out, 1<<20)
	return nil
}

// refCall sends one request and returns the value and the error string of the response
func refCall(q map[string]string) (string, string) {
	if err := refStart(); err != nil {
		return "", "cannot start refhelper: " + err.Error()
	}
	b, _ := json.Marshal(q)
	if _, err := refIn.Write(append(b, '\n')); err != nil {
		return "", err.Error()
	}
	line, err := refOut.ReadBytes('\n')
	if err != nil {
		return "", "refhelper died: " + err.Error()
	}
	var r struct {
		Value string `json:"value"`
		Err   string `json:"err"`
	}
	if err := json.Unmarshal(line, &r); err != nil {
		return "", err.Error()
	}
	return r.Value, r.Err
}

// refCallRaw sends a pre-encoded request
func refCallRaw(b []byte) (string, string) {
	if err := refStart(); err != nil {
		return "", "cannot start refhelper: " + err.Error()
	}
	if _, err := refIn.Write(append(b, '\n')); err != nil {
		return "", err.Error()
	}
	line, err := refOut.ReadBytes('\n')
	if err != nil {
		return "", "refhelper died: " + err.Error()
	}
	var r struct {
		Value string `json:"value"`
		Err   string `json:"err"`
	}
	if err := json.Unmarshal(line, &r); err != nil {
		return "", err.Error()
	}
	return r.Value, r.Err
}
