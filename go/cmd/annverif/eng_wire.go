package main

// Engine "wire" (C18): go-wire's binary (and JSON) codec on the real consensus types.
// The type descriptor of every Go type is derived by reflection from wire.GetTypeInfo on each run, a
// random value tree is built into a real Go value, encoded and decoded by the real code, and the
// model (Model/Wire.v) is run on the descriptor, the tree and the bytes.  A second stream offers
// mutated and hostile byte strings to the decoder under a range of limits.

import (
	"bytes"
	"fmt"
	"io"
	"reflect"
	"runtime"
	"sort"
	"strings"
	"time"

	"github.com/dappledger/AnnChain/gemmill/blockchain"
	"github.com/dappledger/AnnChain/gemmill/consensus/pbft"
	crypto "github.com/dappledger/AnnChain/gemmill/go-crypto"
	wire "github.com/dappledger/AnnChain/gemmill/go-wire"
	"github.com/dappledger/AnnChain/gemmill/mempool"
	"github.com/dappledger/AnnChain/gemmill/p2p"
	"github.com/dappledger/AnnChain/gemmill/state"
	"github.com/dappledger/AnnChain/gemmill/types"
)

const (
	kFix = iota
	kVar
	kBool
	kBytes
	kTime
	kArr
	kList
	kArrOf
	kStruct
	kPtr
	kIface
)

type wdesc struct {
	Kind   int
	K      int
	Signed bool
	Str    bool
	Elem   *wdesc
	Fields []*wdesc
	Idx    []int
	Alts   []walt
	RT     reflect.Type
}
type walt struct {
	Tag byte
	D   *wdesc
	Ptr bool
	RT  reflect.Type
}

var timeRT = reflect.TypeOf(time.Time{})

func descOf(rt reflect.Type, opts wire.Options, depth int) (*wdesc, error) {
	if depth > 12 {
		return nil, fmt.Errorf("type too deep (recursive?) at %v", rt)
	}
	d := &wdesc{RT: rt}
	info := wire.GetTypeInfo(rt)
	switch rt.Kind() {
	case reflect.Interface:
		if !info.IsRegisteredInterface {
			return nil, fmt.Errorf("unregistered interface %v", rt)
		}
		d.Kind = kIface
		var tags []int
		for b := range info.ByteToType {
			tags = append(tags, int(b))
		}
		sort.Ints(tags)
		for _, t := range tags {
			crt := info.ByteToType[byte(t)]
			a := walt{Tag: byte(t), RT: crt}
			ert := crt
			if crt.Kind() == reflect.Ptr {
				a.Ptr = true
				ert = crt.Elem()
			}
			ed, err := descOf(ert, opts, depth+1)
			if err != nil {
				return nil, err
			}
			a.D = ed
			d.Alts = append(d.Alts, a)
		}
	case reflect.Ptr:
		d.Kind = kPtr
		e, err := descOf(rt.Elem(), opts, depth+1)
		if err != nil {
			return nil, err
		}
		d.Elem = e
	case reflect.Array:
		if rt.Elem().Kind() == reflect.Uint8 {
			d.Kind, d.K = kArr, rt.Len()
		} else {
			e, err := descOf(rt.Elem(), opts, depth+1)
			if err != nil {
				return nil, err
			}
			d.Kind, d.K, d.Elem = kArrOf, rt.Len(), e
		}
	case reflect.Slice:
		if rt.Elem().Kind() == reflect.Uint8 {
			d.Kind = kBytes
		} else {
			e, err := descOf(rt.Elem(), opts, depth+1)
			if err != nil {
				return nil, err
			}
			d.Kind, d.Elem = kList, e
		}
	case reflect.Struct:
		if rt == timeRT {
			d.Kind = kTime
		} else {
			d.Kind = kStruct
			for _, f := range info.Fields {
				fd, err := descOf(f.Type, f.Options, depth+1)
				if err != nil {
					return nil, fmt.Errorf("%v.%s: %v", rt, rt.Field(f.Index).Name, err)
				}
				d.Fields = append(d.Fields, fd)
				d.Idx = append(d.Idx, f.Index)
			}
		}
	case reflect.String:
		d.Kind, d.Str = kBytes, true
	case reflect.Int64:
		if opts.Varint {
			d.Kind, d.Signed = kVar, true
		} else {
			d.Kind, d.K, d.Signed = kFix, 8, true
		}
	case reflect.Int32:
		d.Kind, d.K, d.Signed = kFix, 4, true
	case reflect.Int16:
		d.Kind, d.K, d.Signed = kFix, 2, true
	case reflect.Int8:
		d.Kind, d.K, d.Signed = kFix, 1, true
	case reflect.Int:
		d.Kind, d.Signed = kVar, true
	case reflect.Uint64:
		if opts.Varint {
			d.Kind = kVar
		} else {
			d.Kind, d.K = kFix, 8
		}
	case reflect.Uint32:
		d.Kind, d.K = kFix, 4
	case reflect.Uint16:
		d.Kind, d.K = kFix, 2
	case reflect.Uint8:
		d.Kind, d.K = kFix, 1
	case reflect.Uint:
		d.Kind = kVar
	case reflect.Bool:
		d.Kind = kBool
	default:
		return nil, fmt.Errorf("unsupported kind %v (%v)", rt.Kind(), rt)
	}
	return d, nil
}

func (d *wdesc) sx() string {
	switch d.Kind {
	case kFix:
		return sxL("0", sxZ(int64(d.K)), sxBool(d.Signed))
	case kVar:
		return sxL("1", sxBool(d.Signed))
	case kBool:
		return "(2)"
	case kBytes:
		return "(3)"
	case kTime:
		return "(4)"
	case kArr:
		return sxL("5", sxZ(int64(d.K)))
	case kList:
		return sxL("6", d.Elem.sx())
	case kArrOf:
		return sxL("7", sxZ(int64(d.K)), d.Elem.sx())
	case kStruct:
		var fs []string
		for _, f := range d.Fields {
			fs = append(fs, f.sx())
		}
		return sxL("8", sxL(fs...))
	case kPtr:
		return sxL("9", d.Elem.sx())
	case kIface:
		var as []string
		for _, a := range d.Alts {
			as = append(as, sxL(sxZ(int64(a.Tag)), a.D.sx()))
		}
		return sxL("a", sxL(as...))
	}
	panic("bad desc")
}

// value trees
const (
	vZ = iota
	vB
	vBs
	vL
	vNone
	vSome
	vI
)

type wval struct {
	K   int
	I   int64
	U   uint64
	IsU bool
	B   bool
	Bs  []byte
	L   []*wval
	Tag byte
	V   *wval
}

func (v *wval) sx() string {
	switch v.K {
	case vZ:
		if v.IsU {
			return sxL("0", sxU(v.U))
		}
		return sxL("0", sxZ(v.I))
	case vB:
		return sxL("1", sxBool(v.B))
	case vBs:
		return sxL("2", sxB(v.Bs))
	case vL:
		var xs []string
		for _, x := range v.L {
			xs = append(xs, x.sx())
		}
		return sxL("3", sxL(xs...))
	case vNone:
		return "(4)"
	case vSome:
		return sxL("5", v.V.sx())
	case vI:
		return sxL("6", sxZ(int64(v.Tag)), v.V.sx())
	}
	panic("bad val")
}

type genOpts struct {
	json    bool // values the JSON format is meant to carry (ASCII strings, calendar times)
	extreme bool
}

func genInt(r *Rng, bits int, signed bool, g genOpts) (int64, uint64) {
	var u uint64
	switch r.Intn(8) {
	case 0:
		u = 0
	case 1:
		u = 1
	case 2:
		u = ^uint64(0) // -1 / max
	case 3:
		u = uint64(1) << uint(bits-1) // min signed
	case 4:
		u = uint64(1)<<uint(bits-1) - 1 // max signed
	case 5:
		u = uint64(1)<<53 + uint64(r.Intn(3)) - 1
	default:
		u = r.U64() >> uint(r.Intn(64))
		if r.Bool() {
			u = -u
		}
	}
	if bits < 64 {
		u &= uint64(1)<<uint(bits) - 1
	}
	if signed {
		// sign-extend
		sh := uint(64 - bits)
		return int64(u<<sh) >> sh, 0
	}
	return 0, u
}

func genBytes(r *Rng, g genOpts, str bool) []byte {
	var n int
	switch r.Intn(10) {
	case 0, 1:
		n = 0
	case 2:
		n = 255 + r.Intn(3)
	case 3:
		if g.extreme {
			n = 65535 + r.Intn(3)
		} else {
			n = 20
		}
	default:
		n = r.Intn(40)
	}
	b := r.Bytes(n)
	if str && g.json {
		for i := range b {
			b[i] = byte(32 + int(b[i])%95)
		}
	}
	return b
}

func genWVal(d *wdesc, r *Rng, depth int, g genOpts) *wval {
	switch d.Kind {
	case kFix:
		i, u := genInt(r, d.K*8, d.Signed, g)
		if d.Signed {
			return &wval{K: vZ, I: i}
		}
		return &wval{K: vZ, U: u, IsU: true}
	case kVar:
		i, u := genInt(r, 64, d.Signed, g)
		if d.Signed {
			return &wval{K: vZ, I: i}
		}
		return &wval{K: vZ, U: u, IsU: true}
	case kBool:
		return &wval{K: vB, B: r.Bool()}
	case kBytes:
		return &wval{K: vBs, Bs: genBytes(r, g, d.Str)}
	case kTime:
		var ns int64
		if g.json {
			ns = int64(r.Intn(4102444800)) * 1000000000
			ns += int64(r.Intn(1000)) * 1000000
		} else {
			i, _ := genInt(r, 64, true, g)
			ns = i / 1000000 * 1000000
			if r.Chance(1, 12) {
				ns = i // sub-millisecond: truncated by the encoder
			}
		}
		return &wval{K: vZ, I: ns}
	case kArr:
		return &wval{K: vBs, Bs: r.Bytes(d.K)}
	case kList:
		n := r.Intn(4)
		if depth > 5 {
			n = r.Intn(2)
		}
		if r.Chance(1, 40) && d.Elem.Kind != kStruct && d.Elem.Kind != kPtr && d.Elem.Kind != kIface {
			n = 250 + r.Intn(20)
		}
		v := &wval{K: vL}
		for i := 0; i < n; i++ {
			v.L = append(v.L, genWVal(d.Elem, r, depth+1, g))
		}
		return v
	case kArrOf:
		v := &wval{K: vL}
		for i := 0; i < d.K; i++ {
			v.L = append(v.L, genWVal(d.Elem, r, depth+1, g))
		}
		return v
	case kStruct:
		v := &wval{K: vL}
		for _, f := range d.Fields {
			v.L = append(v.L, genWVal(f, r, depth+1, g))
		}
		return v
	case kPtr:
		if r.Chance(1, 4) || depth > 8 {
			return &wval{K: vNone}
		}
		return &wval{K: vSome, V: genWVal(d.Elem, r, depth+1, g)}
	case kIface:
		if r.Chance(1, 6) || len(d.Alts) == 0 || depth > 8 {
			return &wval{K: vNone}
		}
		a := d.Alts[r.Intn(len(d.Alts))]
		return &wval{K: vI, Tag: a.Tag, V: genWVal(a.D, r, depth+1, g)}
	}
	panic("bad desc")
}

// build writes the value tree into a settable Go value of the descriptor's type
func buildW(d *wdesc, v *wval, rv reflect.Value) {
	switch d.Kind {
	case kFix, kVar:
		if d.Signed {
			rv.SetInt(v.I)
		} else {
			rv.SetUint(v.U)
		}
	case kBool:
		rv.SetBool(v.B)
	case kBytes:
		if d.Str {
			rv.SetString(string(v.Bs))
		} else {
			b := append([]byte(nil), v.Bs...) // nil when empty
			rv.Set(reflect.ValueOf(b).Convert(rv.Type()))
		}
	case kTime:
		rv.Set(reflect.ValueOf(time.Unix(0, v.I)))
	case kArr:
		reflect.Copy(rv, reflect.ValueOf(v.Bs))
	case kList:
		s := reflect.MakeSlice(rv.Type(), len(v.L), len(v.L))
		for i, x := range v.L {
			buildW(d.Elem, x, s.Index(i))
		}
		rv.Set(s)
	case kArrOf:
		for i, x := range v.L {
			buildW(d.Elem, x, rv.Index(i))
		}
	case kStruct:
		for i, f := range d.Fields {
			buildW(f, v.L[i], rv.Field(d.Idx[i]))
		}
	case kPtr:
		if v.K == vNone {
			rv.Set(reflect.Zero(rv.Type()))
		} else {
			p := reflect.New(rv.Type().Elem())
			buildW(d.Elem, v.V, p.Elem())
			rv.Set(p)
		}
	case kIface:
		if v.K == vNone {
			rv.Set(reflect.Zero(rv.Type()))
			return
		}
		for _, a := range d.Alts {
			if a.Tag == v.Tag {
				if a.Ptr {
					p := reflect.New(a.RT.Elem())
					buildW(a.D, v.V, p.Elem())
					rv.Set(p)
				} else {
					p := reflect.New(a.RT).Elem()
					buildW(a.D, v.V, p)
					rv.Set(p)
				}
				return
			}
		}
		panic("no alt")
	}
}

// observe reads a Go value back into a value tree (nil and empty byte strings are the same)
func observeW(d *wdesc, rv reflect.Value) *wval {
	switch d.Kind {
	case kFix, kVar:
		if d.Signed {
			return &wval{K: vZ, I: rv.Int()}
		}
		return &wval{K: vZ, U: rv.Uint(), IsU: true}
	case kBool:
		return &wval{K: vB, B: rv.Bool()}
	case kBytes:
		if d.Str {
			return &wval{K: vBs, Bs: []byte(rv.String())}
		}
		return &wval{K: vBs, Bs: append([]byte{}, rv.Bytes()...)}
	case kTime:
		return &wval{K: vZ, I: rv.Interface().(time.Time).UnixNano()}
	case kArr:
		b := make([]byte, d.K)
		reflect.Copy(reflect.ValueOf(b), rv)
		return &wval{K: vBs, Bs: b}
	case kList, kArrOf:
		v := &wval{K: vL}
		for i := 0; i < rv.Len(); i++ {
			v.L = append(v.L, observeW(d.Elem, rv.Index(i)))
		}
		return v
	case kStruct:
		v := &wval{K: vL}
		for i, f := range d.Fields {
			v.L = append(v.L, observeW(f, rv.Field(d.Idx[i])))
		}
		return v
	case kPtr:
		if rv.IsNil() {
			return &wval{K: vNone}
		}
		return &wval{K: vSome, V: observeW(d.Elem, rv.Elem())}
	case kIface:
		if rv.IsNil() {
			return &wval{K: vNone}
		}
		crv := rv.Elem()
		for _, a := range d.Alts {
			if a.RT == crv.Type() {
				if a.Ptr {
					if crv.IsNil() {
						return &wval{K: vNone}
					}
					crv = crv.Elem()
				}
				return &wval{K: vI, Tag: a.Tag, V: observeW(a.D, crv)}
			}
		}
		return &wval{K: vNone}
	}
	panic("bad desc")
}

type wireType struct {
	Name string
	RT   reflect.Type
	D    *wdesc
	JSON bool
}

func wireTypes() ([]wireType, []string) {
	cands := []struct {
		name string
		o    interface{}
		json bool
	}{
		{"types.Vote", types.Vote{}, true},
		{"types.Proposal", types.Proposal{}, true},
		{"types.PartSetHeader", types.PartSetHeader{}, true},
		{"types.BlockID", types.BlockID{}, true},
		{"types.Part", types.Part{}, true},
		{"types.Commit", types.Commit{}, true},
		{"types.Header", types.Header{}, true},
		{"types.Data", types.Data{}, true},
		{"types.Block", types.Block{}, true},
		{"types.BlockMeta", types.BlockMeta{}, true},
		{"types.Validator", types.Validator{}, true},
		{"types.ValidatorSet", types.ValidatorSet{}, true},
		{"state.State", state.State{}, false},
		{"pbft.ConsensusMessage", struct{ pbft.ConsensusMessage }{}, true},
		{"pbft.TimedWALMessage", pbft.TimedWALMessage{}, true},
		{"mempool.MempoolMessage", struct{ mempool.MempoolMessage }{}, true},
		{"blockchain.BlockchainMessage", struct{ blockchain.BlockchainMessage }{}, true},
		{"p2p.PexMessage", struct{ p2p.PexMessage }{}, true},
		{"p2p.NodeInfo", p2p.NodeInfo{}, true},
		{"crypto.PubKey", struct{ crypto.PubKey }{}, true},
		{"crypto.Signature", struct{ crypto.Signature }{}, true},
	}
	var out []wireType
	var skipped []string
	for _, c := range cands {
		rt := reflect.TypeOf(c.o)
		d, err := descOf(rt, wire.Options{}, 0)
		if err != nil {
			skipped = append(skipped, c.name+": "+err.Error())
			continue
		}
		out = append(out, wireType{c.name, rt, d, c.json})
	}
	return out, skipped
}

type wireCase struct {
	Seed uint64 `json:"seed"`
	Note string `json:"note"`
}

// result of a decode: (0 val n) | (1) error | (2) panic
func decodeReal(t wireType, b []byte, lmt int) (string, *wval, string) {
	var res string
	var val *wval
	var perr string
	panicked, msg := catchPanic(func() {
		p := reflect.New(t.RT)
		n, err := new(int), new(error)
		wire.ReadBinaryPtr(p.Interface(), bytes.NewReader(b), lmt, n, err)
		if *err != nil {
			res = "(1)"
			perr = (*err).Error()
			return
		}
		val = observeW(t.D, p.Elem())
		res = sxL("0", val.sx(), sxZ(int64(*n)))
	})
	if panicked {
		return "(2)", nil, msg
	}
	return res, val, perr
}

type zeroReader struct{}

func (zeroReader) Read(p []byte) (int, error) {
	for i := range p {
		p[i] = 0
	}
	return len(p), nil
}

type countReader struct {
	r io.Reader
	n int
}

func (c *countReader) Read(p []byte) (int, error) {
	k, err := c.r.Read(p)
	c.n += k
	return k, err
}

// readBeyond offers the bytes followed by 4 MiB of zeros (a connection that keeps delivering) and
// reports how many bytes the decoder took from it
func readBeyond(t wireType, b []byte, lmt int) (int, bool) {
	cr := &countReader{r: io.MultiReader(bytes.NewReader(b), io.LimitReader(zeroReader{}, 4<<20))}
	p, _ := catchPanic(func() {
		q := reflect.New(t.RT)
		n, err := new(int), new(error)
		wire.ReadBinaryPtr(q.Interface(), cr, lmt, n, err)
	})
	return cr.n, p
}

func mutateW(r *Rng, b []byte) ([]byte, string) {
	hostile := [][]byte{
		{0x08, 0x7f, 0xff, 0xff, 0xff, 0xff, 0xff, 0xff, 0xff},
		{0x08, 0xff, 0xff, 0xff, 0xff, 0xff, 0xff, 0xff, 0xff},
		{0x08, 0x80, 0, 0, 0, 0, 0, 0, 0},
		{0xf8, 0x80, 0, 0, 0, 0, 0, 0, 0},
		{0x08, 0x7f, 0xff, 0xff, 0xff, 0xff, 0xff, 0xff, 0xf0},
		{0xf1, 0x01},
		{0xf0},
		{0x09},
		{0x02, 0xff, 0xff},
		{0x03, 0x10, 0x00, 0x00},
	}
	c := append([]byte{}, b...)
	switch r.Intn(6) {
	case 0:
		if len(c) > 0 {
			return c[:r.Intn(len(c))], "truncate"
		}
		return c, "truncate"
	case 1:
		if len(c) > 0 {
			c[r.Intn(len(c))] ^= byte(1 << uint(r.Intn(8)))
		}
		return c, "bitflip"
	case 2:
		if len(c) > 0 {
			c[r.Intn(len(c))] = []byte{0, 1, 2, 8, 0x7f, 0x80, 0xf1, 0xf8, 0xff}[r.Intn(9)]
		}
		return c, "setbyte"
	case 3:
		h := hostile[r.Intn(len(hostile))]
		p := 0
		if len(c) > 0 {
			p = r.Intn(len(c) + 1)
		}
		out := append(append(append([]byte{}, c[:p]...), h...), c[p:]...)
		return out, "splice"
	case 4:
		h := hostile[r.Intn(len(hostile))]
		p := 0
		if len(c) > 0 {
			p = r.Intn(len(c))
		}
		out := append(append([]byte{}, c[:p]...), h...)
		if p+len(h) < len(c) {
			out = append(out, c[p+len(h):]...)
		}
		return out, "overwrite"
	default:
		return r.Bytes(r.Intn(40)), "random"
	}
}

func wvalEq(a, b *wval) bool { return a.sx() == b.sx() }

func init() {
	engines["wire"] = func(args []string) error {
		tys, skipped := wireTypes()
		return runGenericEngine("wire",
			"case = one real consensus type (descriptor derived by reflection from wire.GetTypeInfo on this run), then either (kind 0) a random value tree built into a Go value, encoded with wire.BinaryBytes, decoded with wire.ReadBinaryPtr under a limit of 0, the exact size, one less or a random small limit, and re-encoded; or (kind 1) a mutated/hostile byte string (truncation, bit flip, marker byte, spliced or overwritten hostile length prefix, random bytes) offered to the decoder under a limit; or (kind 2) a JSON round trip through wire.JSONBytes/ReadJSONPtr whose result is re-encoded in binary; distinct = case line; non-trivial = encoding longer than 8 bytes; types skipped as unsupported by the model: "+strings.Join(skipped, "; "),
			args,
			func(r *Rng, i int) interface{} { return &wireCase{Seed: r.U64()} },
			func(f string) (interface{}, error) {
				var c wireCase
				if err := readCase(f, &c); err != nil {
					return nil, err
				}
				return &c, nil
			},
			func(i int, ci interface{}, out string) (string, []MonitorHit, map[string]int, bool) {
				c := ci.(*wireCase)
				return runWireCase(i, c, tys)
			})
	}
}

func runWireCase(i int, c *wireCase, tys []wireType) (string, []MonitorHit, map[string]int, bool) {
	r := NewRng(c.Seed)
	dist := map[string]int{}
	var hits []MonitorHit
	hit := func(sig, what string) { hits = append(hits, MonitorHit{Case: i, Sig: sig, What: what}) }
	t := tys[r.Intn(len(tys))]
	dist["type="+t.Name]++
	kind := r.Intn(10)
	switch {
	case kind < 4:
		kind = 0
	case kind < 8:
		kind = 1
	default:
		kind = 2
		if !t.JSON {
			kind = 0
		}
	}
	dist[fmt.Sprintf("kind=%d", kind)]++
	g := genOpts{json: kind == 2, extreme: r.Chance(1, 10)}
	v := genWVal(t.D, r, 0, g)
	p := reflect.New(t.RT)
	buildW(t.D, v, p.Elem())
	var enc []byte
	encPanicked, encMsg := catchPanic(func() { enc = wire.BinaryBytes(p.Elem().Interface()) })
	if encPanicked {
		hit("encode-panic", t.Name+": "+encMsg)
		c.Note = "encode panic"
		return sxL("9", t.D.sx(), v.sx()), hits, dist, false
	}
	// determinism
	if enc2 := wire.BinaryBytes(p.Elem().Interface()); !bytes.Equal(enc, enc2) {
		hit("encode-nondeterministic", t.Name)
	}
	// the value as the encoder sees it (time truncation aside) is what observe reads back
	vin := observeW(t.D, p.Elem())
	switch kind {
	case 0:
		var lmt int
		switch r.Intn(5) {
		case 0:
			lmt = 0
		case 1:
			lmt = len(enc)
		case 2:
			lmt = len(enc) - 1
			if lmt <= 0 {
				lmt = 1
			}
		case 3:
			lmt = 1 + r.Intn(64)
		default:
			lmt = 1 << 20
		}
		dist[fmt.Sprintf("limit=%s", limitClass(lmt, len(enc)))]++
		res, val, msg := decodeReal(t, enc, lmt)
		if res == "(2)" {
			hit("decode-panic", t.Name+" on its own encoding: "+msg)
		}
		exact := true
		walkTimes(t.D, vin, func(ns int64) {
			if ns%1000000 != 0 {
				exact = false
			}
		})
		if val != nil {
			dist["decode=ok"]++
			if exact && !wvalEq(val, vin) {
				hit("roundtrip-changed", t.Name)
			}
			// re-encode what was decoded
			q := reflect.New(t.RT)
			buildW(t.D, val, q.Elem())
			if enc3 := wire.BinaryBytes(q.Elem().Interface()); exact && !bytes.Equal(enc3, enc) {
				hit("reencode-differs", t.Name)
			}
		} else {
			dist["decode=err"]++
			if lmt == 0 || lmt >= len(enc) {
				if res == "(1)" {
					hit("roundtrip-rejected", t.Name+": "+msg)
				}
			}
		}
		c.Note = fmt.Sprintf("%s kind=0 lmt=%d len=%d", t.Name, lmt, len(enc))
		return sxL("0", t.D.sx(), vin.sx(), sxB(enc), sxZ(int64(lmt)), res), hits, dist, len(enc) > 8
	case 1:
		mb, how := mutateW(r, enc)
		var lmt int
		switch r.Intn(5) {
		case 0:
			lmt = len(mb)
			if lmt == 0 {
				lmt = 1
			}
		case 1:
			lmt = 1 + r.Intn(64)
		case 2:
			lmt = 1 << 20
		case 3:
			lmt = 1 + r.Intn(1+2*len(mb))
		default:
			// no limit: only where a hostile length cannot ask for gigabytes (a truncation, or a
			// spliced length so large that the runtime refuses it outright)
			if how == "truncate" {
				lmt = 0
			} else if r.Bool() {
				huge := []byte{0x08, 0x7f, 0xff, 0xff, 0xff, 0xff, 0xff, 0xff, byte(r.Intn(256))}
				p := 0
				if len(enc) > 0 {
					p = r.Intn(len(enc) + 1)
				}
				mb = append(append(append([]byte{}, enc[:p]...), huge...), enc[p:]...)
				how = "splice-huge"
				lmt = 0
			} else {
				lmt = 1 << 16
			}
		}
		dist["mutation="+how]++
		dist[fmt.Sprintf("limit=%s", limitClass(lmt, len(mb)))]++
		var ms0, ms1 runtime.MemStats
		runtime.ReadMemStats(&ms0)
		res, _, msg := decodeReal(t, mb, lmt)
		runtime.ReadMemStats(&ms1)
		alloc := ms1.TotalAlloc - ms0.TotalAlloc
		switch res {
		case "(2)":
			dist["decode=panic"]++
			hit("decode-panic", fmt.Sprintf("%s lmt=%d mutation=%s input=%x: %s", t.Name, lmt, how, mb, msg))
		case "(1)":
			dist["decode=err"]++
		default:
			dist["decode=ok"]++
		}
		if lmt != 0 && alloc > uint64(lmt)*512+(4<<20) {
			hit("alloc-beyond-limit", fmt.Sprintf("%s lmt=%d allocated=%d", t.Name, lmt, alloc))
		}
		if lmt != 0 {
			// the same bytes on a stream that never ends: the decoder must stop near the limit
			// (fields of fixed size are only checked once the enclosing element is complete)
			if took, _ := readBeyond(t, mb, lmt); took > lmt+4096 {
				hit("read-beyond-limit", fmt.Sprintf("%s lmt=%d mutation=%s input=%x: took %d bytes from the stream", t.Name, lmt, how, mb, took))
			}
		}
		c.Note = fmt.Sprintf("%s kind=1 lmt=%d mutation=%s input=%x", t.Name, lmt, how, mb)
		return sxL("1", t.D.sx(), sxB(mb), sxZ(int64(lmt)), res), hits, dist, len(mb) > 8
	default:
		var js []byte
		var back *wval
		var reenc []byte
		var jerr string
		panicked, msg := catchPanic(func() {
			js = wire.JSONBytes(p.Elem().Interface())
			q := reflect.New(t.RT)
			var err error
			wire.ReadJSONPtr(q.Interface(), js, &err)
			if err != nil {
				jerr = err.Error()
				return
			}
			back = observeW(t.D, q.Elem())
			reenc = wire.BinaryBytes(q.Elem().Interface())
		})
		if panicked {
			hit("json-panic", t.Name+": "+msg)
			return sxL("9", t.D.sx(), vin.sx()), hits, dist, false
		}
		if back == nil {
			hit("json-roundtrip-rejected", t.Name+": "+jerr)
			return sxL("9", t.D.sx(), vin.sx()), hits, dist, false
		}
		if !wvalEq(back, vin) {
			hit("json-roundtrip-changed kind="+diffKind(t.D, vin, back), t.Name)
		}
		// hostile JSON: type confusion must not panic
		hj := mutateJSON(r, js)
		hp, hmsg := catchPanic(func() {
			q := reflect.New(t.RT)
			var err error
			wire.ReadJSONPtr(q.Interface(), hj, &err)
		})
		if hp {
			hit("json-decode-panic", fmt.Sprintf("%s input=%s: %s", t.Name, hj, hmsg))
		}
		c.Note = fmt.Sprintf("%s kind=2 json=%d bytes", t.Name, len(js))
		return sxL("2", t.D.sx(), vin.sx(), back.sx(), sxB(reenc)), hits, dist, len(enc) > 8
	}
}

func limitClass(lmt, n int) string {
	switch {
	case lmt == 0:
		return "none"
	case lmt == n:
		return "exact"
	case lmt < n:
		return "below"
	default:
		return "above"
	}
}

func walkTimes(d *wdesc, v *wval, f func(int64)) {
	switch d.Kind {
	case kTime:
		f(v.I)
	case kList, kArrOf:
		for _, x := range v.L {
			walkTimes(d.Elem, x, f)
		}
	case kStruct:
		for i, fd := range d.Fields {
			walkTimes(fd, v.L[i], f)
		}
	case kPtr:
		if v.K == vSome {
			walkTimes(d.Elem, v.V, f)
		}
	case kIface:
		if v.K == vI {
			for _, a := range d.Alts {
				if a.Tag == v.Tag {
					walkTimes(a.D, v.V, f)
				}
			}
		}
	}
}

// diffKind names the first difference between two trees of one type
func diffKind(d *wdesc, a, b *wval) string {
	if a.K != b.K {
		return "shape"
	}
	switch d.Kind {
	case kFix, kVar:
		if a.sx() != b.sx() {
			var mag uint64
			if a.IsU {
				mag = a.U
			} else if a.I < 0 {
				mag = uint64(-a.I)
			} else {
				mag = uint64(a.I)
			}
			if mag > 1<<53 {
				return "int-beyond-2^53"
			}
			return "int"
		}
	case kBool:
		if a.B != b.B {
			return "bool"
		}
	case kBytes:
		if !bytes.Equal(a.Bs, b.Bs) {
			if d.Str {
				return "string"
			}
			return "bytes"
		}
	case kArr:
		if !bytes.Equal(a.Bs, b.Bs) {
			return "bytearray"
		}
	case kTime:
		if a.I != b.I {
			return "time"
		}
	case kList, kArrOf:
		if len(a.L) != len(b.L) {
			return "length"
		}
		for i := range a.L {
			if k := diffKind(d.Elem, a.L[i], b.L[i]); k != "" {
				return k
			}
		}
	case kStruct:
		for i, f := range d.Fields {
			if k := diffKind(f, a.L[i], b.L[i]); k != "" {
				return k
			}
		}
	case kPtr:
		if a.K == vSome {
			return diffKind(d.Elem, a.V, b.V)
		}
	case kIface:
		if a.K == vI {
			if a.Tag != b.Tag {
				return "tag"
			}
			for _, al := range d.Alts {
				if al.Tag == a.Tag {
					return diffKind(al.D, a.V, b.V)
				}
			}
		}
	}
	return ""
}

func mutateJSON(r *Rng, js []byte) []byte {
	s := string(js)
	repl := []string{"null", "0", "-1", "1e400", "\"x\"", "\"\"", "[]", "{}", "[1]", "[0,null]", "[300,{}]", "true", "\"zz\"", "1.5", "[[]]", "[1,2,3]"}
	// replace one JSON token (number, string or bracketed value start) by something of another type
	var pos []int
	for i := 0; i < len(s); i++ {
		if s[i] == ':' || s[i] == ',' || s[i] == '[' {
			pos = append(pos, i+1)
		}
	}
	if len(pos) == 0 {
		return []byte(repl[r.Intn(len(repl))])
	}
	p := pos[r.Intn(len(pos))]
	// find the end of the value starting at p (crudely: up to the next , ] } at depth 0)
	depth, q, inStr := 0, p, false
	for q < len(s) {
		ch := s[q]
		if inStr {
			if ch == '\\' {
				q++
			} else if ch == '"' {
				inStr = false
			}
		} else {
			if ch == '"' {
				inStr = true
			} else if ch == '[' || ch == '{' {
				depth++
			} else if ch == ']' || ch == '}' {
				if depth == 0 {
					break
				}
				depth--
			} else if ch == ',' && depth == 0 {
				break
			}
		}
		q++
	}
	if q > len(s) {
		q = len(s)
	}
	return []byte(s[:p] + repl[r.Intn(len(repl))] + s[q:])
}
