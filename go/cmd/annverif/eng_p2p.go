package main

// Engines for property C20:
//   "sconn"  SecretConnection pairs over a wire on which a man in the middle applies a script
//   "mconn"  Channel packetisation / reassembly at packet level (verif shim)
//   "admit"  Switch.AddPeerWithConnection + peerHandshake + authByCA over the configuration matrix

import (
	"bytes"
	"encoding/hex"
	"flag"
	"fmt"
	"io"
	"io/ioutil"
	"math/big"
	"net"
	"path/filepath"
	"strings"
	"time"

	"github.com/spf13/viper"

	"github.com/dappledger/AnnChain/gemmill"
	crypto "github.com/dappledger/AnnChain/gemmill/go-crypto"
	"github.com/dappledger/AnnChain/gemmill/p2p"
	"github.com/dappledger/AnnChain/gemmill/types"
)

// ---------------------------------------------------------------- sconn

const sealedFrame = 1024 + 2 + 16

type WireItem struct {
	Kind  string `json:"kind"` // pass | garble | trunc
	Frame int    `json:"frame"`
	Arg   int    `json:"arg,omitempty"`
}
type SConnCase struct {
	Writes []int      `json:"writes"` // sizes; content derived from the case seed
	Seed   uint64     `json:"seed"`
	Script []WireItem `json:"script"` // nil = honest wire
	Reads  []int      `json:"reads"`
	Note   string     `json:"note"`
}

type duplex struct {
	r io.ReadCloser
	w io.WriteCloser
}

func (d duplex) Read(p []byte) (int, error)  { return d.r.Read(p) }
func (d duplex) Write(p []byte) (int, error) { return d.w.Write(p) }
func (d duplex) Close() error                { d.r.Close(); return d.w.Close() }

func genSConnCase(r *Rng, directed int) SConnCase {
	c := SConnCase{Seed: r.U64()}
	nw := 1 + r.Intn(5)
	sizes := []int{1, 5, 36, 1023, 1024, 1025, 2048, 2049, 3000}
	for i := 0; i < nw; i++ {
		if r.Chance(1, 2) {
			c.Writes = append(c.Writes, sizes[r.Intn(len(sizes))])
		} else {
			c.Writes = append(c.Writes, 1+r.Intn(2600))
		}
	}
	if directed%7 == 3 { // long stream: more than 128 frames, for nonce wrap-around of the low byte
		c.Writes = []int{1024 * 70, 1024 * 70, 300}
		c.Note = "long"
	}
	frames := 0
	total := 0
	for _, w := range c.Writes {
		frames += (w + 1023) / 1024
		total += w
	}
	// read sizes: small buffers (the buffered branch), exact, large
	for got := 0; got < 3*total+8192; {
		var n int
		switch r.Intn(5) {
		case 0:
			n = 1 + r.Intn(7)
		case 1:
			n = 1024
		case 2:
			n = 4096
		default:
			n = 1 + r.Intn(1500)
		}
		if c.Note == "long" {
			n = 1024 + r.Intn(3000)
		}
		c.Reads = append(c.Reads, n)
		got += n
		if len(c.Reads) > 4000 {
			break
		}
	}
	if r.Chance(1, 2) || c.Note == "long" {
		// tamper: edit the genuine sequence 0..frames-1
		seq := make([]WireItem, frames)
		for i := range seq {
			seq[i] = WireItem{Kind: "pass", Frame: i}
		}
		i := r.Intn(frames)
		switch k := r.Intn(7); {
		case c.Note == "long":
			// replay frame j at position j+128
			j := r.Intn(frames - 129)
			seq = append(seq[:j+128], append([]WireItem{{Kind: "pass", Frame: j}}, seq[j+128:]...)...)
			c.Note = "long replay at distance 128"
		case k == 0: // drop
			seq = append(seq[:i], seq[i+1:]...)
			c.Note = "drop"
		case k == 1: // replay an earlier frame
			j := r.Intn(i + 1)
			seq = append(seq[:i+1], append([]WireItem{{Kind: "pass", Frame: j}}, seq[i+1:]...)...)
			c.Note = "replay"
		case k == 2 && frames > 1: // swap neighbours
			if i == frames-1 {
				i--
			}
			seq[i], seq[i+1] = seq[i+1], seq[i]
			c.Note = "reorder"
		case k == 3:
			seq[i] = WireItem{Kind: "garble", Frame: i, Arg: r.Intn(sealedFrame * 8)}
			c.Note = "garble"
		case k == 4:
			seq = append(seq[:i], WireItem{Kind: "trunc", Frame: i, Arg: r.Intn(sealedFrame)})
			c.Note = "truncate"
		case k == 5: // cut at a frame boundary: clean end of stream
			seq = seq[:i]
			c.Note = "cut-at-boundary"
		default:
			seq = append(seq, WireItem{Kind: "pass", Frame: i})
			c.Note = "replay-at-end"
		}
		c.Script = seq
	}
	return c
}

func nonceInt(n [24]byte) *big.Int { return new(big.Int).SetBytes(n[:]) }

func runSConnCase(idx int, c SConnCase) (string, []MonitorHit, map[string]int, bool) {
	var hits []MonitorHit
	dist := map[string]int{}
	hit := func(sig, what string) { hits = append(hits, MonitorHit{Case: idx, Sig: sig, What: what}) }
	rr := NewRng(c.Seed)
	privA := crypto.GenPrivKeyEd25519FromSecret(rr.Bytes(8))
	privB := crypto.GenPrivKeyEd25519FromSecret(rr.Bytes(8))
	writes := make([][]byte, len(c.Writes))
	for i, n := range c.Writes {
		writes[i] = rr.Bytes(n)
	}
	// wires: A -> relay -> B, and B -> A directly
	aOutR, aOutW := io.Pipe()
	bInR, bInW := io.Pipe()
	bOutR, bOutW := io.Pipe()
	connA := duplex{bOutR, aOutW}
	connB := duplex{bInR, bOutW}
	type hs struct {
		sc  *p2p.SecretConnection
		err error
	}
	chA, chB := make(chan hs, 1), make(chan hs, 1)
	go func() { sc, err := p2p.MakeSecretConnection(connA, privA); chA <- hs{sc, err} }()
	go func() { sc, err := p2p.MakeSecretConnection(connB, privB); chB <- hs{sc, err} }()
	// relay: handshake part of A's output goes through untouched
	relayErr := make(chan error, 1)
	framesCh := make(chan [][]byte, 1)
	handshakeDone := make(chan struct{})
	go func() {
		buf := make([]byte, 32)
		if _, err := io.ReadFull(aOutR, buf); err != nil {
			relayErr <- err
			return
		}
		bInW.Write(buf)
		for k := 0; k < 2; k++ {
			f := make([]byte, sealedFrame)
			if _, err := io.ReadFull(aOutR, f); err != nil {
				relayErr <- err
				return
			}
			bInW.Write(f)
		}
		close(handshakeDone)
		var frames [][]byte
		for {
			f := make([]byte, sealedFrame)
			_, err := io.ReadFull(aOutR, f)
			if err != nil {
				break
			}
			frames = append(frames, f)
		}
		framesCh <- frames
	}()
	ra, rb := <-chA, <-chB
	if ra.err != nil || rb.err != nil {
		hit("handshake-failed", fmt.Sprint("handshake failed: ", ra.err, rb.err))
		return "(() 0 () () ())", hits, dist, false
	}
	<-handshakeDone
	scA, scB := ra.sc, rb.sc
	// identity: the authenticated key is the key that signed the challenge
	if !scA.RemotePubKey().Equals(privB.PubKey()) || !scB.RemotePubKey().Equals(privA.PubKey()) {
		hit("wrong-remote-identity", "RemotePubKey is not the peer's key")
	}
	recvA0, sendA0 := scA.VerifNonces()
	recvB0, sendB0 := scB.VerifNonces()
	if recvA0 != sendB0 || recvB0 != sendA0 {
		hit("nonces-out-of-step", "send and receive nonces of the two ends differ after the handshake")
	}
	// A writes everything, then closes
	prev := nonceInt(sendA0)
	seenNonce := map[string]bool{}
	for i, w := range writes {
		n, err := scA.Write(w)
		if err != nil || n != len(w) {
			hit("write-failed", fmt.Sprintf("Write %d returned %d, %v", i, n, err))
		}
		_, s := scA.VerifNonces()
		cur := nonceInt(s)
		want := new(big.Int).Add(prev, big.NewInt(int64(2*((len(w)+1023)/1024))))
		if cur.Cmp(want) != 0 {
			hit("nonce-not-advanced-by-two", fmt.Sprintf("after a write of %d bytes the send nonce moved from %x to %x", len(w), prev, cur))
		}
		if seenNonce[cur.String()] {
			hit("nonce-reused", "a send nonce value occurred twice")
		}
		seenNonce[cur.String()] = true
		prev = cur
	}
	aOutW.Close()
	frames := <-framesCh
	// play the script into B
	script := c.Script
	if script == nil {
		for i := range frames {
			script = append(script, WireItem{Kind: "pass", Frame: i})
		}
	}
	go func() {
		for _, it := range script {
			if it.Frame < 0 || it.Frame >= len(frames) {
				continue
			}
			f := append([]byte{}, frames[it.Frame]...)
			switch it.Kind {
			case "garble":
				f[(it.Arg/8)%len(f)] ^= 1 << uint(it.Arg%8)
				bInW.Write(f)
			case "trunc":
				bInW.Write(f[:it.Arg%len(f)])
				bInW.Close()
				return
			default:
				bInW.Write(f)
			}
		}
		bInW.Close()
	}()
	var outs []string
	var got []byte
	ended := ""
	for _, n := range c.Reads {
		buf := make([]byte, n)
		m, err := scB.Read(buf)
		if err != nil {
			if err == io.EOF {
				outs = append(outs, sxL("2"))
				ended = "eof"
			} else {
				outs = append(outs, sxL("1"))
				ended = "err"
			}
			break
		}
		outs = append(outs, sxL("0", sxB(buf[:m])))
		got = append(got, buf[:m]...)
	}
	dist["end:"+ended]++
	dist["note:"+c.Note]++
	// drain goroutines
	bInR.Close()
	bOutW.Close()
	bOutR.Close()
	// ---- monitors
	var all []byte
	for _, w := range writes {
		all = append(all, w...)
	}
	if !bytes.HasPrefix(all, got) {
		hit("stream-corrupted", "the bytes read are not a prefix of the bytes written")
	}
	if c.Script == nil {
		if ended == "err" {
			hit("honest-stream-error", "reading an untampered stream failed")
		}
		if ended == "eof" && !bytes.Equal(all, got) {
			hit("stream-incomplete", fmt.Sprintf("end of stream after %d of %d bytes", len(got), len(all)))
		}
	} else {
		// first position where the wire departs from the genuine sequence
		j := 0
		for j < len(script) && script[j].Kind == "pass" && script[j].Frame == j {
			j++
		}
		// a wire that is a proper prefix of the genuine frame sequence is a connection cut at a frame
		// boundary - what an adversary can always do by closing the connection - and ends cleanly
		tampered := j < len(script)
		limit := 0
		for k, w := 0, 0; w < len(writes); w++ {
			for off := 0; off < len(writes[w]); off += 1024 {
				if k < j {
					if off+1024 < len(writes[w]) {
						limit += 1024
					} else {
						limit += len(writes[w]) - off
					}
				}
				k++
			}
		}
		if len(got) > limit {
			hit("tampering-undetected kind="+strings.Fields(c.Note + " x")[0], fmt.Sprintf("%d bytes were delivered although the wire departs from the genuine stream after %d bytes (%s)", len(got), limit, c.Note))
		}
		if tampered && ended == "eof" {
			hit("tampering-reported-as-eof", "a tampered stream ended with a clean end of stream")
		}
	}
	ws := make([]string, len(writes))
	for i, w := range writes {
		ws[i] = sxB(w)
	}
	wire := make([]string, 0, len(script))
	for _, it := range script {
		switch it.Kind {
		case "garble":
			wire = append(wire, sxL("1"))
		case "trunc":
			wire = append(wire, sxL("2"))
		default:
			wire = append(wire, sxL("0", sxZ(int64(it.Frame))))
		}
	}
	sizes := make([]string, len(c.Reads))
	for i, n := range c.Reads {
		sizes[i] = sxZ(int64(n))
	}
	return sxL(sxL(ws...), sxZ(int64(len(frames))), sxL(wire...), sxL(sizes...), sxL(outs...)), hits, dist, c.Script != nil || len(c.Writes) > 1
}

// ---------------------------------------------------------------- mconn

type MMsg struct {
	Ch   int `json:"ch"`
	Size int `json:"size"`
}
type MConnCase struct {
	Seed  uint64 `json:"seed"`
	Caps  []int  `json:"caps"` // capacity of channel i
	Msgs  []MMsg `json:"msgs"`
	Order []int  `json:"order"` // arrival order: which channel sends its next packet
}

func genMConnCase(r *Rng, directed int) MConnCase {
	c := MConnCase{Seed: r.U64()}
	nch := 1 + r.Intn(3)
	for i := 0; i < nch; i++ {
		c.Caps = append(c.Caps, []int{2048, 3000, 4096, 1024}[r.Intn(4)])
	}
	nm := 1 + r.Intn(8)
	sizes := []int{0, 1, 1023, 1024, 1025, 2047, 2048, 2049}
	for i := 0; i < nm; i++ {
		ch := r.Intn(nch)
		var sz int
		switch r.Intn(4) {
		case 0:
			sz = sizes[r.Intn(len(sizes))]
		case 1:
			sz = c.Caps[ch] - r.Intn(2)
		case 2:
			sz = r.Intn(c.Caps[ch] + 1)
		default:
			sz = r.Intn(1500)
		}
		if directed%9 == 0 && i == nm-1 {
			sz = c.Caps[ch] + 1 + r.Intn(1100)
		}
		if sz > c.Caps[ch] && !(directed%9 == 0 && i == nm-1) {
			sz = c.Caps[ch]
		}
		c.Msgs = append(c.Msgs, MMsg{ch, sz})
	}
	for k := 0; k < 64; k++ {
		c.Order = append(c.Order, r.Intn(nch))
	}
	return c
}

func runMConnCase(idx int, c MConnCase) (string, []MonitorHit, map[string]int, bool) {
	var hits []MonitorHit
	dist := map[string]int{}
	hit := func(sig, what string) { hits = append(hits, MonitorHit{Case: idx, Sig: sig, What: what}) }
	rr := NewRng(c.Seed)
	nch := len(c.Caps)
	senders := make([]*p2p.VerifChannel, nch)
	recvs := make([]*p2p.VerifChannel, nch)
	caps := make([]string, nch)
	for i := 0; i < nch; i++ {
		senders[i] = p2p.NewVerifChannel(byte(0x20+i), 0)
		recvs[i] = p2p.NewVerifChannel(byte(0x20+i), c.Caps[i])
		caps[i] = sxL(sxZ(int64(0x20+i)), sxZ(int64(c.Caps[i])))
	}
	queues := make([][]p2p.VerifPacket, nch)
	sent := make([][][]byte, nch)
	var msgsSx []string
	nontrivial := false
	for _, m := range c.Msgs {
		data := rr.Bytes(m.Size)
		pk := senders[m.Ch].Packetise(data)
		if len(pk) > 1 {
			nontrivial = true
		}
		ps := make([]string, len(pk))
		for i, p := range pk {
			ps[i] = sxL(sxZ(int64(p.ChannelID)), sxBool(p.EOF == 1), sxB(p.Bytes))
			if len(p.Bytes) > 1024 {
				hit("packet-too-large", "a packet carries more than 1024 payload bytes")
			}
		}
		msgsSx = append(msgsSx, sxL(sxZ(int64(0x20+m.Ch)), sxB(data), sxL(ps...)))
		queues[m.Ch] = append(queues[m.Ch], pk...)
		sent[m.Ch] = append(sent[m.Ch], data)
		dist[fmt.Sprintf("size:%s", sizeClass(m.Size))]++
	}
	// arrivals: interleave per the order list (round robin when exhausted)
	var arr []string
	recvd := make([][][]byte, nch)
	failed := false
	oi := 0
	for !failed {
		remaining := false
		for _, q := range queues {
			if len(q) > 0 {
				remaining = true
			}
		}
		if !remaining {
			break
		}
		ch := c.Order[oi%len(c.Order)] % nch
		oi++
		if len(queues[ch]) == 0 {
			continue
		}
		p := queues[ch][0]
		queues[ch] = queues[ch][1:]
		b, err := recvs[ch].Recv(p)
		psx := sxL(sxZ(int64(p.ChannelID)), sxBool(p.EOF == 1), sxB(p.Bytes))
		switch {
		case err != nil:
			arr = append(arr, sxL(psx, sxL("2")))
			failed = true
		case b != nil:
			arr = append(arr, sxL(psx, sxL("1", sxB(b))))
			recvd[ch] = append(recvd[ch], b)
		default:
			arr = append(arr, sxL(psx, sxL("0")))
		}
	}
	// monitors: each channel delivered exactly a prefix of its messages, all of them unless the
	// connection ended on a message above capacity
	over := false
	for ch := 0; ch < nch; ch++ {
		for i, b := range recvd[ch] {
			if i >= len(sent[ch]) || !bytes.Equal(b, sent[ch][i]) {
				hit("message-corrupted", fmt.Sprintf("channel %d delivered a message that is not the %d-th message sent on it", ch, i))
			}
			if len(b) > c.Caps[ch] {
				hit("over-capacity-delivered", "a message above the channel capacity was delivered")
			}
		}
		for _, m := range sent[ch] {
			if len(m) > c.Caps[ch] {
				over = true
			}
		}
	}
	if !over {
		if failed {
			hit("spurious-overflow", "the connection ended although every message fits its channel")
		}
		for ch := 0; ch < nch; ch++ {
			if len(recvd[ch]) != len(sent[ch]) {
				hit("message-lost", fmt.Sprintf("channel %d delivered %d of %d messages", ch, len(recvd[ch]), len(sent[ch])))
			}
		}
	} else if !failed {
		hit("over-capacity-not-rejected", "a message above capacity did not end the connection")
	}
	return sxL(sxL(caps...), sxL(msgsSx...), sxL(arr...)), hits, dist, nontrivial
}

func sizeClass(n int) string {
	switch {
	case n == 0:
		return "0"
	case n < 1024:
		return "<1024"
	case n == 1024:
		return "1024"
	case n%1024 == 0:
		return "k*1024"
	case n < 2048:
		return "<2048"
	}
	return ">=2048"
}

// ---------------------------------------------------------------- admit

type AdmitCase struct {
	Refused   bool `json:"refused"`
	AuthByCA  bool `json:"auth_by_ca"`
	Validator bool `json:"validator"` // the peer's key is a current validator
	NonValAuth bool `json:"non_validator_node_auth"`
	Sig       int  `json:"sig"` // 0 current CA, 1 removed CA, 2 non-CA validator, 3 invalid, 4 malformed
	HasCA     bool `json:"has_ca"`
	KeyMatch  bool `json:"key_match"`
	Self      bool `json:"self"`
	// the same peer, with the same certificate, went through admission once before on this node, while the
	// validator set of assembly time (in which the removed authority still was one) was in force
	Prior bool `json:"prior,omitempty"`
}

func allAdmitCases() []AdmitCase {
	var out []AdmitCase
	bs := []bool{true, false}
	for _, r := range bs {
		for _, ca := range bs {
			for _, v := range bs {
				for _, nv := range bs {
					for sg := 0; sg < 5; sg++ {
						for _, hc := range bs {
							for _, km := range bs {
								for _, sf := range bs {
									out = append(out, AdmitCase{r, ca, v, nv, sg, hc, km, sf, false})
									out = append(out, AdmitCase{r, ca, v, nv, sg, hc, km, sf, true})
								}
							}
						}
					}
				}
			}
		}
	}
	return out
}

type pipeAddr struct{}

func (pipeAddr) Network() string { return "tcp" }
func (pipeAddr) String() string  { return "127.0.0.1:1" }

func mkSwitch(priv crypto.PrivKeyEd25519, announced crypto.PubKey, signed string) *p2p.Switch {
	sw := p2p.NewSwitch(viper.New())
	sw.SetNodeInfo(&p2p.NodeInfo{PubKey: announced, SigndPubKey: signed, Moniker: "m", Network: "n", Version: "0.1.0", ListenAddr: "127.0.0.1:1"})
	sw.SetNodePrivKey(priv)
	sw.NodeInfo().PubKey = announced
	return sw
}

func runAdmitCase(idx int, c AdmitCase) (string, []MonitorHit, bool) {
	var hits []MonitorHit
	hit := func(sig, what string) { hits = append(hits, MonitorHit{Case: idx, Sig: sig, What: what}) }
	key := func(s string) crypto.PrivKeyEd25519 { return crypto.GenPrivKeyEd25519FromSecret([]byte(s)) }
	server, ca, removedCA, nonCA, stranger := key("server"), key("ca"), key("removed-ca"), key("non-ca"), key("stranger")
	client := key("client")
	if c.Self {
		client = server
	}
	announced := crypto.PubKey(client.PubKey())
	if !c.KeyMatch {
		announced = key("someone-else").PubKey()
		if c.Self {
			announced = server.PubKey() // claims to be us without holding our key
			client = key("client")
		}
	}
	annBytes := announced.(crypto.PubKeyEd25519)
	var signed string
	switch c.Sig {
	case 0:
		signed = hex.EncodeToString(sigBytes(ca.Sign(annBytes[:])))
	case 1:
		signed = hex.EncodeToString(sigBytes(removedCA.Sign(annBytes[:])))
	case 2:
		signed = hex.EncodeToString(sigBytes(nonCA.Sign(annBytes[:])))
	case 3:
		signed = hex.EncodeToString(sigBytes(stranger.Sign(annBytes[:])))
	default:
		signed = "zz-not-hex"
	}
	mkVal := func(k crypto.PrivKeyEd25519, isCA bool) *types.Validator {
		return &types.Validator{Address: k.PubKey().Address(), PubKey: k.PubKey(), VotingPower: 10, IsCA: isCA}
	}
	// the set at assembly time had removedCA as an authority; the current set does not
	oldSet := types.NewValidatorSet([]*types.Validator{mkVal(ca, true), mkVal(removedCA, true), mkVal(nonCA, false)})
	cur := []*types.Validator{mkVal(ca, c.HasCA), mkVal(nonCA, false)}
	if c.Validator {
		cur = append(cur, &types.Validator{Address: announced.Address(), PubKey: announced, VotingPower: 10})
	}
	curSet := types.NewValidatorSet(cur)
	pp := oldSet
	conf := viper.New()
	conf.Set("non_validator_node_auth", c.NonValAuth)
	var auth func(*p2p.NodeInfo) error
	if c.AuthByCA {
		auth = gemmill.VerifAuthByCA(conf, &pp) // one closure for the life of the node
	}
	mkSrv := func() *p2p.Switch {
		srv := mkSwitch(server, server.PubKey(), "")
		srv.SetRefuseListFilter(func(pk crypto.PubKey) error {
			if c.Refused && pk.Equals(client.PubKey()) {
				return fmt.Errorf("refused")
			}
			return nil
		})
		if auth != nil {
			srv.SetAuthByCA(auth)
		}
		return srv
	}
	type res struct {
		p   *p2p.Peer
		err error
	}
	handshake := func() (*p2p.Peer, error) {
		srv := mkSrv()
		cli := mkSwitch(client, announced, signed)
		a, b := net.Pipe()
		cr := make(chan res, 1)
		go func() { p, err := cli.AddPeerWithConnection(pipeConn{b}, true); cr <- res{p, err} }()
		var sp *p2p.Peer
		var serr error
		done := make(chan struct{})
		go func() { sp, serr = srv.AddPeerWithConnection(pipeConn{a}, false); close(done) }()
		select {
		case <-done:
		case <-time.After(20 * time.Second):
			hit("handshake-hung", "admission did not finish")
			a.Close()
			b.Close()
			<-done
		}
		a.Close()
		b.Close()
		<-cr
		return sp, serr
	}
	if c.Prior {
		handshake() // whatever it decided then must not matter now
	}
	pp = curSet // the validator set changed after the node was assembled
	sp, serr := handshake()
	admitted := serr == nil && sp != nil
	// monitor: the property's rule, from the scenario itself
	isVal := curSet.HasAddress(announced.Address())
	caOK := !c.AuthByCA || (isVal && !c.NonValAuth) || (c.HasCA && c.Sig == 0)
	allowed := !c.Refused && c.KeyMatch && !(announced.Equals(server.PubKey())) && caOK
	if admitted && !allowed {
		why := "unknown"
		switch {
		case c.Refused:
			why = "refused-key"
		case !c.KeyMatch:
			why = "key-mismatch"
		case !caOK:
			why = fmt.Sprintf("no-current-ca-signature sig=%d", c.Sig)
		}
		hit("admitted-forbidden-peer "+why, fmt.Sprintf("a peer was admitted that must not be (%s): %+v", why, c))
	}
	if !admitted && allowed {
		hit("rejected-legitimate-peer", fmt.Sprintf("a legitimate peer was rejected: %v %+v", serr, c))
	}
	self := announced.Equals(server.PubKey())
	return sxL(sxBool(c.Refused), sxBool(c.AuthByCA), sxBool(isVal), sxBool(c.NonValAuth), sxZ(int64(c.Sig)), sxBool(c.HasCA), sxBool(c.KeyMatch), sxBool(self), sxBool(admitted)), hits, true
}

type pipeConn struct{ net.Conn }

func (pipeConn) RemoteAddr() net.Addr { return pipeAddr{} }
func (pipeConn) LocalAddr() net.Addr  { return pipeAddr{} }

// ---------------------------------------------------------------- entry points

func engSConn(args []string) error {
	var corpus string
	c, err := commonFlags("sconn", args, func(fs *flag.FlagSet) { fs.StringVar(&corpus, "corpus", "", "") })
	if err != nil {
		return err
	}
	meta := NewMeta("sconn", c.Seed)
	meta.Rule = "case = real SecretConnection pair (full handshake) over pipes with a relay in the sending direction; writes of sizes around 1, 1024, 2048 and random, reads through buffers of 1..7, 1024, 4096 and random sizes; half of the cases tamper with the sealed frames after the handshake (drop, replay, reorder, bit flip, truncation, cut at a frame boundary; directed long streams replay a frame 128 positions later); distinct = case line; non-trivial = tampered or more than one write"
	var cases []SConnCase
	if c.Replay != "" {
		var rc struct{ Case SConnCase `json:"case"` }
		if err := readJSON(c.Replay, &rc); err != nil {
			return err
		}
		cases = append(cases, rc.Case)
	} else {
		fs, _ := filepath.Glob(filepath.Join(corpus, "*.json"))
		for _, f := range fs {
			var rc struct{ Case SConnCase `json:"case"` }
			if err := readJSON(f, &rc); err == nil && len(rc.Case.Writes) > 0 {
				cases = append(cases, rc.Case)
			}
		}
		r := NewRng(c.Seed)
		for i := 0; i < c.N; i++ {
			cases = append(cases, genSConnCase(r.Fork(), i))
		}
	}
	dist := NewDistinct()
	var sb strings.Builder
	for i, sc := range cases {
		line, hits, d, nt := runSConnCase(i, sc)
		sb.WriteString(line + "\n")
		meta.Monitor = append(meta.Monitor, hits...)
		for k, v := range d {
			meta.Dist[k] += v
		}
		writeCase(c.Out, i, sc)
		meta.Evaluations++
		if nt {
			dist.Add(line)
		}
		if i < 1 {
			meta.Samples = append(meta.Samples, sc)
		}
	}
	meta.Distinct = dist.Len()
	if err := ioutil.WriteFile(filepath.Join(c.Out, "cases.sx"), []byte(sb.String()), 0644); err != nil {
		return err
	}
	return meta.Write(c.Out)
}

func engMConn(args []string) error {
	var corpus string
	c, err := commonFlags("mconn", args, func(fs *flag.FlagSet) { fs.StringVar(&corpus, "corpus", "", "") })
	if err != nil {
		return err
	}
	meta := NewMeta("mconn", c.Seed)
	meta.Rule = "case = 1..3 channels with receive capacities 1024..4096, messages of sizes 0, 1, 1023..1025, 2047..2049, capacity-1, capacity, random (directed: capacity+k), packetised by the real Channel.nextMsgPacket and delivered to the real Channel.recvMsgPacket in an arbitrary interleaving that keeps per-channel order; distinct = case line; non-trivial = some message needs more than one packet"
	var cases []MConnCase
	if c.Replay != "" {
		var rc struct{ Case MConnCase `json:"case"` }
		if err := readJSON(c.Replay, &rc); err != nil {
			return err
		}
		cases = append(cases, rc.Case)
	} else {
		r := NewRng(c.Seed)
		for i := 0; i < c.N; i++ {
			cases = append(cases, genMConnCase(r.Fork(), i))
		}
	}
	dist := NewDistinct()
	var sb strings.Builder
	for i, mc := range cases {
		line, hits, d, nt := runMConnCase(i, mc)
		sb.WriteString(line + "\n")
		meta.Monitor = append(meta.Monitor, hits...)
		for k, v := range d {
			meta.Dist[k] += v
		}
		writeCase(c.Out, i, mc)
		meta.Evaluations++
		if nt {
			dist.Add(line)
		}
		if i < 1 {
			meta.Samples = append(meta.Samples, mc)
		}
	}
	meta.Distinct = dist.Len()
	if err := ioutil.WriteFile(filepath.Join(c.Out, "cases.sx"), []byte(sb.String()), 0644); err != nil {
		return err
	}
	return meta.Write(c.Out)
}

func engAdmit(args []string) error {
	var corpus string
	c, err := commonFlags("admit", args, func(fs *flag.FlagSet) { fs.StringVar(&corpus, "corpus", "", "") })
	if err != nil {
		return err
	}
	meta := NewMeta("admit", c.Seed)
	meta.Rule = "case = one admission attempt between two real Switches over a pipe (secret-connection handshake, node-info exchange, CA check against a validator set that changed after assembly; in half of the cases the same peer with the same certificate had been through admission once before, under the earlier validator set, so that anything remembered from then would show); the configuration matrix refuse-list x auth_by_ca x validator membership x non_validator_node_auth x signature kind (current CA, removed CA, non-CA validator, invalid, malformed) x CA present x announced-key match x self x earlier admission is enumerated completely in the thorough tier and sampled in the quick tier; every case is distinct and non-trivial"
	all := allAdmitCases()
	var cases []AdmitCase
	if c.Replay != "" {
		var rc struct{ Case AdmitCase `json:"case"` }
		if err := readJSON(c.Replay, &rc); err != nil {
			return err
		}
		cases = append(cases, rc.Case)
	} else if c.N >= len(all) {
		cases = all
		meta.Extra["exhaustive"] = true
	} else {
		r := NewRng(c.Seed)
		p := r.Perm(len(all))
		for i := 0; i < c.N; i++ {
			cases = append(cases, all[p[i]])
		}
	}
	var sb strings.Builder
	for i, ac := range cases {
		line, hits, _ := runAdmitCase(i, ac)
		sb.WriteString(line + "\n")
		meta.Monitor = append(meta.Monitor, hits...)
		writeCase(c.Out, i, ac)
		meta.Evaluations++
		if i < 2 {
			meta.Samples = append(meta.Samples, ac)
		}
	}
	meta.Distinct = len(cases)
	if err := ioutil.WriteFile(filepath.Join(c.Out, "cases.sx"), []byte(sb.String()), 0644); err != nil {
		return err
	}
	return meta.Write(c.Out)
}

func init() {
	engines["sconn"] = engSConn
	engines["mconn"] = engMConn
	engines["admit"] = engAdmit
}
