package main

// Engine "peerinput" (C08): one real validator (ConsensusState + ConsensusReactor) brought into a
// chosen step of a height by a short honest script, then offered hostile peer traffic through
// ConsensusReactor.Receive: raw byte strings on every channel and well-formed messages with
// boundary and adversarial fields, signed with the keys of the other validators where a valid
// signature is what gets the message far.  Whatever the reactor queues is then handled by the
// state machine through the stepping shim, recorded as inputs of the node model (the case format of
// the "consensus" engine).  Panics inside Receive are what MConnection.recvRoutine recovers from
// (the peer is dropped); panics inside the state machine kill the node.

import (
	"bytes"
	"fmt"
	"io/ioutil"
	"os"
	"path/filepath"
	"sort"
	"strings"
	"time"

	"github.com/dappledger/AnnChain/gemmill/consensus/pbft"
	crypto "github.com/dappledger/AnnChain/gemmill/go-crypto"
	wire "github.com/dappledger/AnnChain/gemmill/go-wire"
	gcmn "github.com/dappledger/AnnChain/gemmill/modules/go-common"
	"github.com/dappledger/AnnChain/gemmill/p2p"
	"github.com/dappledger/AnnChain/gemmill/types"
)

type hostile struct {
	ch      byte
	msg     pbft.ConsensusMessage
	raw     []byte
	what    string
	invalid bool // must leave the consensus state as it was
}

func (c *cnet) hostileMessages(nd *vnode, me int) []hostile {
	r := c.r
	rs := nd.cs.GetRoundState()
	h, rd := rs.Height, rs.Round
	others := []int{}
	for i := 0; i < c.n; i++ {
		if i != me {
			others = append(others, i)
		}
	}
	who := others[r.Intn(len(others))]
	propIdx := -1
	for i := range c.addrs {
		if bytes.Equal(c.addrs[i], rs.Validators.Proposer().Address) {
			propIdx = i
		}
	}
	ints := []int64{0, -1, 1, h, h + 1, h - 1, rd, rd + 1, rd - 1, 1 << 31, -(1 << 31), 1<<62 + 5, -(1 << 62), 9223372036854775807, -9223372036854775808, 1000000}
	pick := func() int64 { return ints[r.Intn(len(ints))] }
	someBid := func() types.BlockID {
		switch r.Intn(4) {
		case 0:
			return types.BlockID{}
		case 1:
			return types.BlockID{Hash: r.Bytes(20), PartsHeader: types.PartSetHeader{Total: int(pick()), Hash: r.Bytes(20)}}
		case 2:
			return types.BlockID{Hash: r.Bytes(20), PartsHeader: types.PartSetHeader{Total: 1, Hash: r.Bytes(20)}}
		default:
			if rs.ProposalBlock != nil {
				return types.BlockID{Hash: rs.ProposalBlock.Hash(), PartsHeader: rs.ProposalBlockParts.Header()}
			}
			return types.BlockID{Hash: r.Bytes(20), PartsHeader: types.PartSetHeader{Total: 1, Hash: r.Bytes(20)}}
		}
	}
	var out []hostile
	add := func(ch byte, m pbft.ConsensusMessage, what string, invalid bool) {
		out = append(out, hostile{ch: ch, msg: m, what: what, invalid: invalid})
	}
	n := 8 + r.Intn(10)
	for k := 0; k < n; k++ {
		switch r.Intn(16) {
		case 0: // vote with adversarial coordinates, properly signed
			v := &types.Vote{ValidatorAddress: c.addrs[who], ValidatorIndex: who, Height: pick(), Round: pick(), Type: byte(1 + r.Intn(2)), BlockID: someBid()}
			v.Signature = c.keys[who].Sign(types.SignBytes(c.chainID, v))
			add(pbft.VoteChannel, &pbft.VoteMessage{Vote: v}, "vote-coordinates", false)
		case 1: // vote at our height with a bad index / address / type / signature
			v := &types.Vote{ValidatorAddress: c.addrs[who], ValidatorIndex: who, Height: h, Round: rd, Type: byte(1 + r.Intn(2)), BlockID: someBid()}
			kind := r.Intn(5)
			switch kind {
			case 0:
				v.ValidatorIndex = int(pick())
				if v.ValidatorIndex == who {
					v.ValidatorIndex = -1
				}
			case 1:
				v.ValidatorAddress = r.Bytes(r.Intn(25))
			case 2:
				v.Type = []byte{0, 3, 4, 255}[r.Intn(4)]
			}
			v.Signature = c.keys[who].Sign(types.SignBytes(c.chainID, v))
			if kind == 3 {
				s := v.Signature.(crypto.SignatureEd25519)
				s[r.Intn(64)] ^= 1
				v.Signature = s
			}
			if kind == 4 {
				v.Signature = nil
			}
			add(pbft.VoteChannel, &pbft.VoteMessage{Vote: v}, "vote-invalid", kind != 2 || true)
		case 2:
			add(pbft.VoteChannel, &pbft.VoteMessage{Vote: nil}, "vote-nil", true)
		case 3: // proposal signed by the proposer (when that key is ours to use) with adversarial fields
			signer := who
			if propIdx >= 0 && propIdx != me && r.Chance(2, 3) {
				signer = propIdx
			}
			p := &types.Proposal{Height: h, Round: rd, POLRound: -1, BlockPartsHeader: types.PartSetHeader{Total: 1, Hash: r.Bytes(20)}}
			switch r.Intn(6) {
			case 0:
				p.BlockPartsHeader.Total = int(pick())
			case 1:
				p.POLRound = pick()
			case 2:
				p.Height = pick()
			case 3:
				p.Round = pick()
			case 4:
				p.BlockPartsHeader.Hash = nil
			case 5:
				p.POLBlockID = someBid()
			}
			p.Signature = c.keys[signer].Sign(types.SignBytes(c.chainID, p))
			add(pbft.DataChannel, &pbft.ProposalMessage{Proposal: p}, "proposal-fields", false)
		case 4:
			add(pbft.DataChannel, &pbft.ProposalMessage{Proposal: nil}, "proposal-nil", true)
		case 5: // block part: nil part, bad index, bad proof, foreign part
			var part *types.Part
			switch r.Intn(4) {
			case 0:
				part = nil
			case 1:
				part = &types.Part{Index: int(pick()), Bytes: r.Bytes(r.Intn(40))}
			case 2:
				part = &types.Part{Index: 0, Bytes: r.Bytes(30)}
				part.Proof.Aunts = [][]byte{r.Bytes(20), r.Bytes(3), nil}
			default:
				for _, ps := range c.psets {
					part = ps.GetPart(0)
					break
				}
			}
			add(pbft.DataChannel, &pbft.BlockPartMessage{Height: []int64{h, pick()}[r.Intn(2)], Round: pick(), Part: part}, "part", false)
		case 6: // a proposal by the rightful proposer for a part set that is not a block at all
			if propIdx >= 0 && propIdx != me {
				garbage := r.Bytes(1 + r.Intn(60))
				ps := types.NewPartSetFromData(garbage, c.partSize)
				c.psets[pshKey(ps.Header())] = ps // no block behind it
				p := types.NewProposal(h, rd, ps.Header(), -1, types.BlockID{})
				p.Signature = c.keys[propIdx].Sign(types.SignBytes(c.chainID, p))
				add(pbft.DataChannel, &pbft.ProposalMessage{Proposal: p}, "proposal-garbage-block", false)
				for i := 0; i < ps.Total(); i++ {
					add(pbft.DataChannel, &pbft.BlockPartMessage{Height: h, Round: rd, Part: ps.GetPart(i)}, "part-garbage-block", false)
				}
			}
		case 7:
			add(pbft.StateChannel, &pbft.NewRoundStepMessage{Height: pick(), Round: pick(), Step: pbft.RoundStepType(r.Intn(12)), SecondsSinceStartTime: int(pick()), LastCommitRound: pick()}, "new-round-step", true)
		case 8:
			add(pbft.StateChannel, &pbft.CommitStepMessage{Height: pick(), BlockPartsHeader: types.PartSetHeader{Total: int(pick() % 100000), Hash: r.Bytes(20)}, BlockParts: gcmn.NewBitArray(r.Intn(5))}, "commit-step", true)
		case 9:
			add(pbft.StateChannel, &pbft.HasVoteMessage{Height: pick(), Round: pick(), Type: byte(r.Intn(4)), Index: int(pick())}, "has-vote", true)
		case 10:
			add(pbft.StateChannel, &pbft.VoteSetMaj23Message{Height: []int64{h, pick()}[r.Intn(2)], Round: pick(), Type: byte(r.Intn(4)), BlockID: someBid()}, "vote-set-maj23", false)
		case 11:
			add(pbft.VoteSetBitsChannel, &pbft.VoteSetBitsMessage{Height: []int64{h, pick()}[r.Intn(2)], Round: pick(), Type: byte(r.Intn(4)), BlockID: someBid(), Votes: gcmn.NewBitArray(r.Intn(9))}, "vote-set-bits", true)
		case 12:
			add(pbft.DataChannel, &pbft.ProposalPOLMessage{Height: pick(), ProposalPOLRound: pick(), ProposalPOL: gcmn.NewBitArray(r.Intn(9))}, "proposal-pol", true)
		case 13: // raw bytes
			raw := r.Bytes(r.Intn(30))
			if r.Bool() && len(raw) > 0 {
				raw[0] = byte(0x11 + r.Intn(9)) // a registered message type byte
			}
			out = append(out, hostile{ch: []byte{0x20, 0x21, 0x22, 0x23, 0x99}[r.Intn(5)], raw: raw, what: "raw-bytes", invalid: true})
		case 14: // a valid message on the wrong channel
			v := c.byzSignVote(who, h, rd, 1, types.BlockID{}, false)
			add([]byte{pbft.StateChannel, pbft.DataChannel, pbft.VoteSetBitsChannel}[r.Intn(3)], &pbft.VoteMessage{Vote: v}, "wrong-channel", true)
		default: // mutated encoding of a valid vote
			v := c.byzSignVote(who, h, rd, byte(1+r.Intn(2)), someBid(), false)
			enc := wire.BinaryBytes(struct{ pbft.ConsensusMessage }{&pbft.VoteMessage{Vote: v}})
			mb, _ := mutateW(r, enc)
			out = append(out, hostile{ch: pbft.VoteChannel, raw: mb, what: "mutated-vote", invalid: false})
		}
	}
	return out
}

func runPeerInputCase(idx int, cse *csCase, workroot string) ([]string, []MonitorHit, map[string]int, bool) {
	r := NewRng(cse.Seed)
	c := &cnet{r: r, chainID: "verif-chain", archive: map[int64][]netMsg{}, dist: map[string]int{}, caseIdx: idx,
		blocks: map[string]*types.Block{}, psets: map[string]*types.PartSet{}, proposers: map[string][]byte{}}
	c.workdir = filepath.Join(workroot, fmt.Sprintf("peer%d", idx))
	os.RemoveAll(c.workdir)
	os.MkdirAll(c.workdir, 0700)
	defer func() {
		for _, nd := range c.nodes {
			if nd != nil && !nd.down && nd.cs != nil {
				catchPanic(func() { nd.cs.VerifCloseWAL() })
			}
		}
		os.RemoveAll(c.workdir)
	}()
	c.n = 4
	c.skip = r.Chance(1, 4)
	c.partSize = []int{256, 65536}[r.Intn(2)]
	type kv struct {
		k crypto.PrivKeyEd25519
		a []byte
	}
	var ks []kv
	for i := 0; i < c.n; i++ {
		k := crypto.GenPrivKeyEd25519FromSecret(r.Bytes(16))
		ks = append(ks, kv{k, k.PubKey().Address()})
	}
	sort.Slice(ks, func(i, j int) bool { return bytes.Compare(ks[i].a, ks[j].a) < 0 })
	for i := range ks {
		c.keys = append(c.keys, ks[i].k)
		c.addrs = append(c.addrs, ks[i].a)
		c.powers = append(c.powers, 10)
	}
	me := r.Intn(c.n)
	c.byz = make([]bool, c.n)
	for i := range c.byz {
		c.byz[i] = i != me
	}
	gd := &types.GenesisDoc{ChainID: c.chainID, AppHash: []byte{}}
	for i := range c.keys {
		gd.Validators = append(gd.Validators, types.GenesisValidator{PubKey: c.keys[i].PubKey(), Amount: c.powers[i], Name: fmt.Sprintf("v%d", i)})
	}
	c.genDoc = gd
	c.nodes = make([]*vnode, c.n)
	if err := c.boot(me, true); err != nil {
		c.hit("harness-error", err.Error())
		return nil, c.hits, c.dist, false
	}
	nd := c.nodes[me]
	nd.trace = append(nd.trace, sxL("(7)", c.observe(nd, c.collect(nd, 1))))
	// the reactor in front of the state machine
	sw := p2p.NewSwitch(nd.conf)
	reactor := pbft.NewConsensusReactor(nd.cs, false)
	sw.AddReactor("CONSENSUS", reactor)
	reactor.SetEventSwitch(nd.evsw)
	reactor.VerifStartReactorOnly()
	peer := &p2p.Peer{Key: "evil", Data: gcmn.NewCMap()}
	peer.Data.Set(types.PeerStateKey, pbft.NewPeerState(peer))

	drainOwn := func() {
		for guard := 0; guard < 50 && len(nd.internal) > 0 && nd.panicked == ""; guard++ {
			m := nd.internal[0]
			nd.internal = nd.internal[1:]
			c.deliver(nd, netMsg{msg: m, from: ""})
		}
	}
	others := func(t byte, round int64, bid types.BlockID, k int) {
		cnt := 0
		for i := 0; i < c.n && cnt < k; i++ {
			if i == me {
				continue
			}
			v := c.byzSignVote(i, nd.cs.GetRoundState().Height, round, t, bid, false)
			c.deliver(nd, netMsg{msg: &pbft.VoteMessage{Vote: v}, from: fmt.Sprintf("byz%d", i)})
			cnt++
		}
	}
	// honest script up to the chosen situation
	situation := r.Intn(7)
	c.dist[fmt.Sprintf("situation=%d", situation)]++
	var bid types.BlockID
	advance := func(upto int) {
		if upto >= 1 {
			c.fire(nd) // NewHeight timeout -> propose
			drainOwn()
		}
		if upto >= 2 {
			rs := nd.cs.GetRoundState()
			if rs.ProposalBlock == nil {
				// the proposer is one of the keys we hold: a valid block and proposal
				pi := 0
				for i := range c.addrs {
					if bytes.Equal(c.addrs[i], rs.Validators.Proposer().Address) {
						pi = i
					}
				}
				blk, ps := c.byzBlock(nd, pi, false)
				if blk != nil {
					c.registerBlock(blk, ps)
					p := types.NewProposal(rs.Height, rs.Round, ps.Header(), -1, types.BlockID{})
					p.Signature = c.keys[pi].Sign(types.SignBytes(c.chainID, p))
					c.deliver(nd, netMsg{msg: &pbft.ProposalMessage{Proposal: p}, from: "byz"})
					if upto >= 3 {
						for i := 0; i < ps.Total(); i++ {
							c.deliver(nd, netMsg{msg: &pbft.BlockPartMessage{Height: rs.Height, Round: rs.Round, Part: ps.GetPart(i)}, from: "byz"})
						}
					}
				}
			}
			drainOwn()
		}
		rs := nd.cs.GetRoundState()
		if rs.ProposalBlock != nil {
			bid = types.BlockID{Hash: rs.ProposalBlock.Hash(), PartsHeader: rs.ProposalBlockParts.Header()}
		}
		if upto >= 4 && len(bid.Hash) > 0 {
			others(types.VoteTypePrevote, rs.Round, bid, 3)
			drainOwn()
		}
		if upto >= 5 && len(bid.Hash) > 0 {
			others(types.VoteTypePrecommit, rs.Round, bid, 3)
			drainOwn()
		}
	}
	switch situation {
	case 0:
	case 1:
		advance(1)
	case 2:
		advance(2)
	case 3:
		advance(3)
	case 4:
		advance(4)
	case 5:
		// commit step while the block is still missing: +2/3 precommits for a block we never saw
		advance(1)
		pi := (me + 1) % c.n
		blk, ps := c.byzBlock(nd, pi, false)
		if blk != nil {
			c.registerBlock(blk, ps)
			others(types.VoteTypePrecommit, 0, types.BlockID{Hash: blk.Hash(), PartsHeader: ps.Header()}, 3)
			drainOwn()
		}
	default:
		advance(5) // into the next height
		if nd.timeout != nil && r.Bool() {
			c.fire(nd)
			drainOwn()
		}
	}
	// hostile traffic
	for _, hm := range c.hostileMessages(nd, me) {
		if nd.panicked != "" {
			break
		}
		c.dist["hostile="+hm.what]++
		raw := hm.raw
		if hm.msg != nil {
			if p, _ := catchPanic(func() { raw = wire.BinaryBytes(struct{ pbft.ConsensusMessage }{hm.msg}) }); p {
				continue
			}
		}
		before := c.stateKey(nd)
		rp, rmsg := catchPanic(func() { reactor.Receive(hm.ch, peer, raw) })
		if rp {
			// MConnection.recvRoutine recovers and drops the peer: tolerated, but it must not leave the
			// consensus state locked or changed
			c.dist["receive-panic(recovered by the connection)"]++
			_ = rmsg
		}
		locked := make(chan bool, 1)
		go func() { nd.cs.GetRoundState(); locked <- false }()
		select {
		case <-locked:
		default:
			// GetRoundState takes the state mutex: give it a moment
			if !waitBool(locked) {
				c.hit("node-wedged kind=mutex-held-after-receive", hm.what)
				nd.panicked = "wedged"
				break
			}
		}
		for {
			m, from, ok := nd.cs.VerifPopPeer()
			if !ok {
				break
			}
			c.deliver(nd, netMsg{msg: m, from: from})
			drainOwn()
		}
		if nd.panicked == "" && hm.invalid {
			if after := c.stateKey(nd); after != before {
				c.hit("invalid-message-changed-state kind="+hm.what, fmt.Sprintf("%s -> %s", before, after))
			}
		}
	}
	// the node must still be able to finish the height with honest traffic
	if nd.panicked == "" {
		start := nd.cs.GetRoundState().Height
		for it := 0; it < 40 && nd.cs.GetRoundState().Height == start && nd.panicked == ""; it++ {
			rs := nd.cs.GetRoundState()
			switch {
			case rs.Step == pbft.RoundStepNewHeight || rs.Step == pbft.RoundStepPrevoteWait || rs.Step == pbft.RoundStepPrecommitWait:
				if nd.timeout != nil {
					c.fire(nd)
				} else {
					it = 40
				}
			case rs.Step == pbft.RoundStepPropose && rs.ProposalBlock == nil:
				if nd.timeout != nil {
					c.fire(nd)
				} else {
					it = 40
				}
			case rs.Step == pbft.RoundStepPrevote:
				// everybody else prevotes what this node prevoted, or nil
				b := types.BlockID{}
				if v := rs.Votes.Prevotes(rs.Round).GetByIndex(me); v != nil {
					b = v.BlockID
				}
				others(types.VoteTypePrevote, rs.Round, b, 3)
			case rs.Step == pbft.RoundStepPrecommit:
				b := types.BlockID{}
				if v := rs.Votes.Precommits(rs.Round).GetByIndex(me); v != nil {
					b = v.BlockID
				}
				others(types.VoteTypePrecommit, rs.Round, b, 3)
			case rs.Step == pbft.RoundStepCommit:
				// the block it waits for
				if ps, ok := c.psets[pshKey(rs.ProposalBlockParts.Header())]; ok {
					for i := 0; i < ps.Total(); i++ {
						c.deliver(nd, netMsg{msg: &pbft.BlockPartMessage{Height: rs.Height, Round: rs.Round, Part: ps.GetPart(i)}, from: "byz"})
					}
				} else {
					it = 40
				}
			default:
				if nd.timeout != nil {
					c.fire(nd)
				}
			}
			drainOwn()
		}
		if nd.panicked == "" && nd.cs.GetRoundState().Height == start {
			rs := nd.cs.GetRoundState()
			c.hit("node-wedged kind=no-commit-with-honest-traffic", fmt.Sprintf("stuck at %d/%d/%d after the hostile messages (situation %d)", rs.Height, rs.Round, rs.Step, situation))
		}
	}
	vals := make([]string, c.n)
	for i := range c.keys {
		vals[i] = sxL(sxB(c.addrs[i]), sxB(c.keys[i].PubKey().Bytes()), sxZ(c.powers[i]))
	}
	line := sxL(sxL(vals...), sxB(c.addrs[me]), sxBool(c.skip), sxL(nd.trace...))
	cse.Note = fmt.Sprintf("situation=%d me=%d", situation, me)
	return []string{line}, c.hits, c.dist, true
}

func waitBool(ch chan bool) bool {
	for i := 0; i < 200; i++ {
		select {
		case <-ch:
			return true
		default:
			sleepMs(5)
		}
	}
	return false
}

func init() {
	engines["peerinput"] = func(args []string) error {
		c, err := commonFlags("peerinput", args, nil)
		if err != nil {
			return err
		}
		meta := NewMeta("peerinput", c.Seed)
		meta.Rule = "case = one real validator of four (the harness holds the other three keys) with its ConsensusReactor, brought by honest traffic into one of seven situations (fresh; proposing; proposal known; block complete and prevoted; locked and precommitted; commit step with the block missing; next height), then 8..17 hostile deliveries through ConsensusReactor.Receive: raw and mutated byte strings on every channel, nil and boundary-valued votes, proposals (negative/huge part totals, POL rounds, heights), parts (nil, bad index, bad proof, foreign), a rightful proposer's proposal for a part set that is not a block, and every reactor-level message with extreme fields; whatever reaches the state machine is handled through the stepping shim and recorded as node-model inputs; afterwards honest traffic must still finish the height; distinct = case line"
		var cases []*csCase
		if c.Replay != "" {
			var x csCase
			if err := readCase(c.Replay, &x); err != nil {
				return err
			}
			cases = append(cases, &x)
		} else {
			r := NewRng(c.Seed)
			for i := 0; i < c.N; i++ {
				cases = append(cases, &csCase{Seed: r.U64()})
			}
		}
		work, err := ioutil.TempDir("", "annverif-peerinput")
		if err != nil {
			return err
		}
		defer os.RemoveAll(work)
		dist := NewDistinct()
		var sb strings.Builder
		line := 0
		for i, cs := range cases {
			lines, hits, d, _ := runPeerInputCase(i, cs, work)
			for _, h := range hits {
				h.Case = line
				meta.Monitor = append(meta.Monitor, h)
			}
			for k, v := range d {
				meta.Dist[k] += v
			}
			for _, l := range lines {
				sb.WriteString(l + "\n")
				writeCase(c.Out, line, cs)
				line++
				meta.Evaluations++
				dist.Add(l)
			}
			if i < 1 {
				meta.Samples = append(meta.Samples, cs)
			}
		}
		meta.Distinct = dist.Len()
		if err := ioutil.WriteFile(filepath.Join(c.Out, "cases.sx"), []byte(sb.String()), 0644); err != nil {
			return err
		}
		return meta.Write(c.Out)
	}
}

func sleepMs(n int) { time.Sleep(time.Duration(n) * time.Millisecond) }

// ---------------------------------------------------------------- engine "lockwalk" (C04, C01)
// One real validator of four, the harness plays the other three with full control over what the
// node sees and when: several rounds of one height with a proposal per round (new block, an earlier
// block again, none), prevotes and precommits split between blocks and nil, some of them withheld
// and delivered rounds later, and the timeouts needed to move on.  Every input is a node-model input.

func runLockWalkCase(idx int, cse *csCase, workroot string) ([]string, []MonitorHit, map[string]int, bool) {
	r := NewRng(cse.Seed)
	c := &cnet{r: r, chainID: "verif-chain", archive: map[int64][]netMsg{}, dist: map[string]int{}, caseIdx: idx,
		blocks: map[string]*types.Block{}, psets: map[string]*types.PartSet{}, proposers: map[string][]byte{}, madeInvalid: map[string]string{}}
	c.workdir = filepath.Join(workroot, fmt.Sprintf("walk%d", idx))
	os.RemoveAll(c.workdir)
	os.MkdirAll(c.workdir, 0700)
	defer func() {
		for _, nd := range c.nodes {
			if nd != nil && !nd.down && nd.cs != nil {
				catchPanic(func() { nd.cs.VerifCloseWAL() })
			}
		}
		os.RemoveAll(c.workdir)
	}()
	c.n = 4
	c.partSize = 65536
	type kv struct {
		k crypto.PrivKeyEd25519
		a []byte
	}
	var ks []kv
	for i := 0; i < c.n; i++ {
		k := crypto.GenPrivKeyEd25519FromSecret(r.Bytes(16))
		ks = append(ks, kv{k, k.PubKey().Address()})
	}
	sort.Slice(ks, func(i, j int) bool { return bytes.Compare(ks[i].a, ks[j].a) < 0 })
	for i := range ks {
		c.keys = append(c.keys, ks[i].k)
		c.addrs = append(c.addrs, ks[i].a)
		c.powers = append(c.powers, 1)
	}
	me := r.Intn(c.n)
	c.byz = make([]bool, c.n)
	for i := range c.byz {
		c.byz[i] = i != me
	}
	gd := &types.GenesisDoc{ChainID: c.chainID, AppHash: []byte{}}
	for i := range c.keys {
		gd.Validators = append(gd.Validators, types.GenesisValidator{PubKey: c.keys[i].PubKey(), Amount: c.powers[i], Name: fmt.Sprintf("v%d", i)})
	}
	c.genDoc = gd
	c.nodes = make([]*vnode, c.n)
	if err := c.boot(me, true); err != nil {
		c.hit("harness-error", err.Error())
		return nil, c.hits, c.dist, false
	}
	nd := c.nodes[me]
	nd.trace = append(nd.trace, sxL("(7)", c.observe(nd, c.collect(nd, 1))))
	drainOwn := func() {
		for guard := 0; guard < 50 && len(nd.internal) > 0 && nd.panicked == ""; guard++ {
			m := nd.internal[0]
			nd.internal = nd.internal[1:]
			c.deliver(nd, netMsg{msg: m, from: ""})
		}
	}
	var others []int
	for i := 0; i < c.n; i++ {
		if i != me {
			others = append(others, i)
		}
	}
	type held struct {
		m netMsg
	}
	var late []netMsg
	var bids []types.BlockID // blocks proposed so far in this height
	send := func(m netMsg) {
		if r.Chance(1, 4) {
			late = append(late, m)
			c.dist["withheld"]++
			return
		}
		c.deliver(nd, m)
		drainOwn()
	}
	vote := func(i int, round int64, t byte, bid types.BlockID) netMsg {
		v := c.byzSignVote(i, nd.cs.GetRoundState().Height, round, t, bid, false)
		return netMsg{msg: &pbft.VoteMessage{Vote: v}, from: fmt.Sprintf("byz%d", i)}
	}
	c.fire(nd) // NewHeight -> round 0
	drainOwn()
	rounds := 3 + r.Intn(4)
	crashes := 0
	startH := nd.cs.GetRoundState().Height
	for step := 0; step < rounds*6 && nd.panicked == "" && nd.cs.GetRoundState().Height == startH; step++ {
		// the node dies and comes back (its log intact, sometimes rotated): replay has to bring back the
		// round, the votes and above all the lock
		if crashes < 2 && r.Chance(1, 9) {
			crashes++
			c.dist["crash"]++
			if r.Chance(1, 4) {
				c.dist["wal-rotated-before-crash"]++
				catchPanic(func() { nd.cs.VerifRotateWAL() })
			}
			c.crash(nd, false)
			c.restart(nd)
			nd = c.nodes[me]
			if nd.panicked != "" || nd.down {
				break
			}
			drainOwn()
		}
		rs := nd.cs.GetRoundState()
		// something from the past turns up
		if len(late) > 0 && r.Chance(1, 3) {
			j := r.Intn(len(late))
			m := late[j]
			late = append(late[:j], late[j+1:]...)
			c.dist["late-delivery"]++
			c.deliver(nd, m)
			drainOwn()
			continue
		}
		switch rs.Step {
		case pbft.RoundStepPropose:
			pi := -1
			for i := range c.addrs {
				if bytes.Equal(c.addrs[i], rs.Validators.Proposer().Address) {
					pi = i
				}
			}
			if rs.Proposal == nil && pi != me && r.Chance(4, 5) {
				var ps *types.PartSet
				if len(bids) > 0 && r.Chance(1, 3) {
					ps = c.psets[pshKey(bids[r.Intn(len(bids))].PartsHeader)] // an earlier block again
					c.dist["proposal=repeat"]++
				} else {
					blk, nps := c.byzBlock(nd, pi, false)
					if blk != nil {
						c.registerBlock(blk, nps)
						ps = nps
						c.dist["proposal=new"]++
					}
				}
				if ps != nil {
					polr := int64(-1)
					if rs.Round > 0 && r.Chance(1, 3) {
						polr = int64(r.Intn(int(rs.Round)))
					}
					p := types.NewProposal(rs.Height, rs.Round, ps.Header(), polr, types.BlockID{})
					p.Signature = c.keys[pi].Sign(types.SignBytes(c.chainID, p))
					c.deliver(nd, netMsg{msg: &pbft.ProposalMessage{Proposal: p}, from: "byz"})
					if r.Chance(5, 6) {
						for i := 0; i < ps.Total(); i++ {
							c.deliver(nd, netMsg{msg: &pbft.BlockPartMessage{Height: rs.Height, Round: rs.Round, Part: ps.GetPart(i)}, from: "byz"})
						}
					}
					drainOwn()
				}
			}
			if nd.cs.GetRoundState().Step == pbft.RoundStepPropose {
				c.fire(nd) // propose timeout
				drainOwn()
			}
			rs = nd.cs.GetRoundState()
			if rs.ProposalBlock != nil {
				b := types.BlockID{Hash: rs.ProposalBlock.Hash(), PartsHeader: rs.ProposalBlockParts.Header()}
				known := false
				for _, x := range bids {
					if x.Equals(b) {
						known = true
					}
				}
				if !known && len(b.Hash) > 0 {
					bids = append(bids, b)
				}
			}
		case pbft.RoundStepPrevote, pbft.RoundStepPrecommit:
			t := byte(types.VoteTypePrevote)
			if rs.Step == pbft.RoundStepPrecommit {
				t = types.VoteTypePrecommit
			}
			// the three others vote: all for one block, all nil, or split
			pat := r.Intn(5)
			for k, i := range others {
				var b types.BlockID
				switch {
				case pat == 0 && len(bids) > 0:
					b = bids[len(bids)-1]
				case pat == 1:
					b = types.BlockID{}
				case pat == 2 && len(bids) > 0:
					b = bids[r.Intn(len(bids))]
				case pat == 3 && len(bids) > 0 && k < 2:
					b = bids[len(bids)-1]
				default:
					if len(bids) > 0 && r.Bool() {
						b = bids[r.Intn(len(bids))]
					}
				}
				send(vote(i, rs.Round, t, b))
				if nd.cs.GetRoundState().Step != rs.Step || nd.cs.GetRoundState().Round != rs.Round {
					break
				}
			}
			rs2 := nd.cs.GetRoundState()
			if rs2.Step == rs.Step && rs2.Round == rs.Round {
				// not enough arrived to move on: the rest of the network moves to the next round
				for _, i := range others {
					send(vote(i, rs.Round+1, types.VoteTypePrevote, types.BlockID{}))
				}
			}
		case pbft.RoundStepPrevoteWait, pbft.RoundStepPrecommitWait, pbft.RoundStepNewHeight:
			if nd.timeout != nil {
				c.fire(nd)
				drainOwn()
			} else {
				for _, i := range others {
					send(vote(i, rs.Round+1, types.VoteTypePrevote, types.BlockID{}))
				}
			}
		case pbft.RoundStepCommit:
			if ps, ok := c.psets[pshKey(rs.ProposalBlockParts.Header())]; ok {
				for i := 0; i < ps.Total(); i++ {
					c.deliver(nd, netMsg{msg: &pbft.BlockPartMessage{Height: rs.Height, Round: rs.Round, Part: ps.GetPart(i)}, from: "byz"})
				}
				drainOwn()
			}
		default:
			if nd.timeout != nil {
				c.fire(nd)
				drainOwn()
			}
		}
	}
	rs := nd.cs.GetRoundState()
	c.dist[fmt.Sprintf("rounds-reached=%d", rs.Round)]++
	if rs.Height > startH {
		c.dist["committed"]++
	}
	vals := make([]string, c.n)
	for i := range c.keys {
		vals[i] = sxL(sxB(c.addrs[i]), sxB(c.keys[i].PubKey().Bytes()), sxZ(c.powers[i]))
	}
	line := sxL(sxL(vals...), sxB(c.addrs[me]), sxBool(c.skip), sxL(nd.trace...))
	cse.Note = fmt.Sprintf("me=%d rounds=%d", me, rounds)
	return []string{line}, c.hits, c.dist, rs.Round > 0
}

func init() {
	engines["lockwalk"] = func(args []string) error {
		c, err := commonFlags("lockwalk", args, nil)
		if err != nil {
			return err
		}
		meta := NewMeta("lockwalk", c.Seed)
		meta.Rule = "case = one real validator of four (unit powers; the harness holds the other three keys and decides everything the node sees) walked through 3..6 rounds of one height: per round a proposal by the round's proposer (a new valid block, an earlier block again, with or without a POL round, with or without its parts, or none), prevotes and precommits of the other three all for one block, all nil, or split between earlier blocks and nil, a quarter of all messages withheld and delivered at a random later point (votes of past rounds arriving late), the timeouts needed to move on, and votes for the next round when too little arrived; every input is a node-model input followed by an observation; monitors: lock abandoned without a later polka, precommit without polka; distinct = case line; non-trivial = the node left round 0"
		var cases []*csCase
		if c.Replay != "" {
			var x csCase
			if err := readCase(c.Replay, &x); err != nil {
				return err
			}
			cases = append(cases, &x)
		} else {
			r := NewRng(c.Seed)
			for i := 0; i < c.N; i++ {
				cases = append(cases, &csCase{Seed: r.U64()})
			}
		}
		work, err := ioutil.TempDir("", "annverif-lockwalk")
		if err != nil {
			return err
		}
		defer os.RemoveAll(work)
		dist := NewDistinct()
		var sb strings.Builder
		line := 0
		for i, cs := range cases {
			lines, hits, d, nt := runLockWalkCase(i, cs, work)
			for _, h := range hits {
				h.Case = line
				meta.Monitor = append(meta.Monitor, h)
			}
			for k, v := range d {
				meta.Dist[k] += v
			}
			for _, l := range lines {
				sb.WriteString(l + "\n")
				writeCase(c.Out, line, cs)
				line++
				meta.Evaluations++
				if nt {
					dist.Add(l)
				}
			}
			if i < 1 {
				meta.Samples = append(meta.Samples, cs)
			}
		}
		meta.Distinct = dist.Len()
		if err := ioutil.WriteFile(filepath.Join(c.Out, "cases.sx"), []byte(sb.String()), 0644); err != nil {
			return err
		}
		return meta.Write(c.Out)
	}
}
