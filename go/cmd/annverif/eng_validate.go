package main

// Engine "validate" (property C02): ConsensusState.ValidateBlock on a well-formed successor block
// and on mutants of it (any header field wrong, parts missing, any malformation of the embedded
// last commit), against Model/Validate.v.

import (
	"bytes"
	"fmt"
	"strings"
	"time"

	"github.com/dappledger/AnnChain/gemmill/consensus/pbft"
	crypto "github.com/dappledger/AnnChain/gemmill/go-crypto"
	sm "github.com/dappledger/AnnChain/gemmill/state"
	"github.com/dappledger/AnnChain/gemmill/types"
)

type valCase struct {
	Seed    uint64 `json:"seed"`
	Mutants int    `json:"mutants"`
	Note    string `json:"note,omitempty"`
}

func genValCase(r *Rng, i int) *valCase {
	return &valCase{Seed: r.U64(), Mutants: 6 + r.Intn(20)}
}

const valChainID = "verif-chain"

type valKeys struct {
	set   *types.ValidatorSet
	privs []crypto.PrivKeyEd25519 // in validator-set order
}

func mkValKeys(r *Rng, tag string, n int, skew bool) *valKeys {
	var vals []*types.Validator
	keys := map[string]crypto.PrivKeyEd25519{}
	for i := 0; i < n; i++ {
		k := crypto.GenPrivKeyEd25519FromSecret([]byte(fmt.Sprintf("%s-%d-%x", tag, i, r.Bytes(8))))
		p := int64(1)
		if skew {
			p = int64(1 + r.Intn(20))
		}
		pub := k.PubKey().(crypto.PubKeyEd25519)
		vals = append(vals, &types.Validator{Address: pub.Address(), PubKey: pub, VotingPower: p, IsCA: true})
		keys[string(pub.Address())] = k
	}
	set := types.NewValidatorSet(vals)
	if r.Chance(1, 3) {
		// the set has a history: members were added and removed and powers updated, with the
		// total read at arbitrary points in between
		for k := 0; k < 2+r.Intn(5); k++ {
			switch r.Intn(4) {
			case 0:
				set.TotalVotingPower()
			case 1:
				_, v := set.GetByIndex(r.Intn(set.Size()))
				v = v.Copy()
				v.VotingPower = int64(1 + r.Intn(30))
				set.Update(v)
			case 2:
				if set.Size() < 7 {
					k := crypto.GenPrivKeyEd25519FromSecret([]byte(fmt.Sprintf("%s-extra-%x", tag, r.Bytes(8))))
					pub := k.PubKey().(crypto.PubKeyEd25519)
					keys[string(pub.Address())] = k
					set.Add(&types.Validator{Address: pub.Address(), PubKey: pub, VotingPower: int64(1 + r.Intn(20)), IsCA: true})
				}
			case 3:
				if set.Size() > 1 {
					_, v := set.GetByIndex(r.Intn(set.Size()))
					set.Remove(v.Address)
				}
			}
		}
	}
	out := &valKeys{set: set}
	for _, v := range set.Validators {
		out.privs = append(out.privs, keys[string(v.Address)])
	}
	return out
}

func valCode(err error) int {
	if err == nil {
		return 0
	}
	s := err.Error()
	switch {
	case strings.Contains(s, "Block is missing"):
		return 1
	case strings.Contains(s, "Wrong Block.Header.ChainID"):
		return 2
	case strings.Contains(s, "Wrong Block.Header.Height"):
		return 3
	case strings.Contains(s, "Wrong Block.Header.NumTxs"):
		return 4
	case strings.Contains(s, "Wrong Block.Header.LastBlockID"):
		return 5
	case strings.Contains(s, "Wrong Block.Header.DataHash"):
		return 6
	case strings.Contains(s, "Wrong Block.Header.AppHash"):
		return 7
	case strings.Contains(s, "Wrong Block.Header.ReceiptsHash"):
		return 8
	case strings.Contains(s, "Wrong Block.Header.LastCommitHash"):
		return 9
	case strings.Contains(s, "Commit cannot be for nil block"):
		return 10
	case strings.Contains(s, "No precommits in commit"):
		return 11
	case strings.Contains(s, "Invalid commit vote. Expected precommit"):
		return 12
	case strings.Contains(s, "Invalid commit precommit height"):
		return 13
	case strings.Contains(s, "Invalid commit precommit round"):
		return 14
	case strings.Contains(s, "Wrong Block.Header.ValidatorsHash"):
		return 15
	case strings.Contains(s, "is not a validator"):
		return 16
	case strings.Contains(s, "should have no LastCommit precommits"):
		return 17
	case strings.Contains(s, "Invalid block commit size"):
		return 18
	case strings.Contains(s, "Invalid commit --"):
		return 20 + vcCode(err)
	}
	return 99
}

func valsSx(set *types.ValidatorSet) string {
	xs := make([]string, len(set.Validators))
	for i, v := range set.Validators {
		xs[i] = sxL(sxB(v.Address), sxZ(v.VotingPower))
	}
	return sxL(xs...)
}

// blockSx describes a block for the model; the three hashes are what the real functions return
// on fresh copies of the parts (the block's own objects are left untouched for ValidateBlock)
func valBlockSx(b *types.Block, lastVals *types.ValidatorSet) string {
	hd, da, lc := "()", "()", "()"
	if b.Header != nil {
		h := b.Header
		hd = sxL(sxL(sxB([]byte(h.ChainID)), sxZ(h.Height), sxZ(h.NumTxs), sxBid(bidJ(h.LastBlockID)), sxB(h.LastCommitHash),
			sxB(h.DataHash), sxB(h.ValidatorsHash), sxB(h.AppHash), sxB(h.ReceiptsHash), sxB(h.ProposerAddress)))
	}
	if b.Data != nil {
		fresh := &types.Data{Txs: b.Data.Txs, ExTxs: b.Data.ExTxs}
		da = sxL(sxL(sxZ(int64(len(b.Data.Txs)+len(b.Data.ExTxs))), sxB(fresh.Hash())))
	}
	if b.LastCommit != nil {
		c := b.LastCommit
		fresh := &types.Commit{BlockID: c.BlockID, Precommits: c.Precommits}
		pre := make([]string, len(c.Precommits))
		for i, v := range c.Precommits {
			if v == nil {
				pre[i] = "()"
				continue
			}
			ok := false
			if i < lastVals.Size() {
				_, val := lastVals.GetByIndex(i)
				ok = val.PubKey.VerifyBytes(types.SignBytes(valChainID, v), v.Signature)
			}
			pre[i] = sxL(sxVote(voteJ(v, ""), ok))
		}
		lc = sxL(sxL(sxL(sxBid(bidJ(c.BlockID)), sxL(pre...)), sxB(fresh.Hash())))
	}
	return sxL(hd, da, lc)
}

func runValCase(idx int, c *valCase) (string, []MonitorHit, map[string]int, bool) {
	var hits []MonitorHit
	dist := map[string]int{}
	hit := func(sig, what string) { hits = append(hits, MonitorHit{Case: idx, Sig: sig, What: what}) }
	r := NewRng(c.Seed)
	n := 1 + r.Intn(6)
	cur := mkValKeys(r, "val", n, r.Chance(1, 3))
	last := cur
	if r.Chance(1, 3) {
		last = mkValKeys(r, "lastval", 1+r.Intn(6), r.Chance(1, 3))
		dist["last-validators=other-set"]++
	}
	h := int64(1)
	if !r.Chance(1, 4) {
		h = int64(2 + r.Intn(60))
	}
	st := &sm.State{ChainID: valChainID, LastBlockHeight: h - 1, LastBlockTime: time.Unix(1600000000, 0),
		Validators: cur.set, LastValidators: last.set}
	if h > 1 {
		st.LastBlockID = types.BlockID{Hash: r.Bytes(20), PartsHeader: types.PartSetHeader{Total: 1 + r.Intn(3), Hash: r.Bytes(20)}}
	}
	if !r.Chance(1, 5) {
		st.AppHash = r.Bytes(20)
	}
	if !r.Chance(1, 3) {
		st.ReceiptsHash = r.Bytes(20)
	}
	sign := func(k *valKeys, i int, height, round int64, typ byte, id types.BlockID) *types.Vote {
		v := &types.Vote{ValidatorAddress: k.set.Validators[i].Address, ValidatorIndex: i, Height: height, Round: round, Type: typ, BlockID: id}
		v.Signature = k.privs[i].Sign(types.SignBytes(valChainID, v))
		return v
	}
	round := int64(r.Intn(3))
	lastCommit := &types.Commit{}
	if h > 1 {
		lastCommit = &types.Commit{BlockID: st.LastBlockID, Precommits: make([]*types.Vote, last.set.Size())}
		// all sign, or a subset that still holds more than two thirds
		total := last.set.TotalVotingPower()
		have := int64(0)
		order := r.Perm(last.set.Size())
		all := r.Chance(1, 2)
		for _, i := range order {
			if !all && have > total*2/3 {
				break
			}
			lastCommit.Precommits[i] = sign(last, i, h-1, round, types.VoteTypePrecommit, st.LastBlockID)
			have += last.set.Validators[i].VotingPower
		}
	}
	var txs, extxs []types.Tx
	for i := 0; i < r.Intn(4); i++ {
		txs = append(txs, types.Tx(r.Bytes(8+r.Intn(20))))
	}
	if r.Chance(1, 4) {
		extxs = append(extxs, types.Tx(r.Bytes(12)))
	}
	proposer := cur.set.Validators[r.Intn(cur.set.Size())].Address
	good, _ := types.MakeBlock(h, valChainID, txs, extxs, lastCommit, proposer, st.LastBlockID, cur.set.Hash(), st.AppHash, st.ReceiptsHash, 4096)
	good = viaWire(good)
	if good == nil {
		hit("harness-error", "the generated block does not survive the wire")
		return "", hits, dist, false
	}
	cs := pbft.VerifBareState(st)
	type mut struct {
		name string
		must bool // the mutant must be rejected whatever else holds
		f    func(b *types.Block)
	}
	flip := func(x []byte) []byte {
		if len(x) == 0 {
			return []byte{0x5a}
		}
		y := append([]byte{}, x...)
		y[r.Intn(len(y))] ^= 0x01 << uint(r.Intn(8))
		return y
	}
	recommit := func(b *types.Block, pre []*types.Vote, id types.BlockID, fix bool) {
		b.LastCommit = &types.Commit{BlockID: id, Precommits: pre}
		if fix {
			b.Header.LastCommitHash = (&types.Commit{BlockID: id, Precommits: pre}).Hash()
		}
	}
	copyPre := func(b *types.Block) []*types.Vote { return append([]*types.Vote{}, b.LastCommit.Precommits...) }
	somePre := func(pre []*types.Vote) int {
		var idxs []int
		for i, v := range pre {
			if v != nil {
				idxs = append(idxs, i)
			}
		}
		if len(idxs) == 0 {
			return -1
		}
		return idxs[r.Intn(len(idxs))]
	}
	otherID := types.BlockID{Hash: r.Bytes(20), PartsHeader: types.PartSetHeader{Total: 2, Hash: r.Bytes(20)}}
	muts := []mut{
		{"nil-header", true, func(b *types.Block) { b.Header = nil }},
		{"nil-data", true, func(b *types.Block) { b.Data = nil }},
		{"nil-lastcommit", true, func(b *types.Block) { b.LastCommit = nil }},
		{"chain-id", true, func(b *types.Block) { b.Header.ChainID = b.Header.ChainID + "x" }},
		{"height+1", true, func(b *types.Block) { b.Header.Height++ }},
		{"height-1", true, func(b *types.Block) { b.Header.Height-- }},
		{"numtxs", true, func(b *types.Block) { b.Header.NumTxs += int64(1 + r.Intn(2)) }},
		{"last-id-hash", true, func(b *types.Block) { b.Header.LastBlockID.Hash = flip(b.Header.LastBlockID.Hash) }},
		{"last-id-parts-total", true, func(b *types.Block) { b.Header.LastBlockID.PartsHeader.Total++ }},
		{"last-id-parts-hash", true, func(b *types.Block) { b.Header.LastBlockID.PartsHeader.Hash = flip(b.Header.LastBlockID.PartsHeader.Hash) }},
		{"data-hash", true, func(b *types.Block) { b.Header.DataHash = flip(b.Header.DataHash) }},
		{"txs-altered", true, func(b *types.Block) {
			b.Data = &types.Data{Txs: append(types.Txs{types.Tx("forged")}, b.Data.Txs...), ExTxs: b.Data.ExTxs}
			b.Header.NumTxs++
		}},
		{"txs-reordered-extx", false, func(b *types.Block) {
			// a tx moved from the ordinary list to the extended list: same count, other data hash
			if len(b.Data.Txs) > 0 {
				b.Data = &types.Data{Txs: b.Data.Txs[1:], ExTxs: append(types.Txs{b.Data.Txs[0]}, b.Data.ExTxs...)}
			}
		}},
		{"app-hash", true, func(b *types.Block) { b.Header.AppHash = flip(b.Header.AppHash) }},
		{"receipts-hash", true, func(b *types.Block) { b.Header.ReceiptsHash = flip(b.Header.ReceiptsHash) }},
		{"lastcommit-hash", true, func(b *types.Block) { b.Header.LastCommitHash = flip(b.Header.LastCommitHash) }},
		{"validators-hash", true, func(b *types.Block) { b.Header.ValidatorsHash = flip(b.Header.ValidatorsHash) }},
		{"proposer-unknown", true, func(b *types.Block) { b.Header.ProposerAddress = flip(b.Header.ProposerAddress) }},
		{"proposer-empty", true, func(b *types.Block) { b.Header.ProposerAddress = nil }},
		{"proposer-other-validator", false, func(b *types.Block) {
			b.Header.ProposerAddress = cur.set.Validators[r.Intn(cur.set.Size())].Address
		}},
		{"time", false, func(b *types.Block) { b.Header.Time = b.Header.Time.Add(time.Hour) }},
		{"extra", false, func(b *types.Block) { b.Header.Extra = []byte("extra") }},
		{"commit-blockid-zero", h > 1, func(b *types.Block) { recommit(b, copyPre(b), types.BlockID{}, true) }},
		{"commit-blockid-other", false, func(b *types.Block) { recommit(b, copyPre(b), otherID, true) }},
		{"commit-emptied", h > 1, func(b *types.Block) { recommit(b, nil, b.LastCommit.BlockID, r.Chance(3, 4)) }},
		{"commit-all-nil", h > 1, func(b *types.Block) {
			recommit(b, make([]*types.Vote, len(b.LastCommit.Precommits)), b.LastCommit.BlockID, r.Chance(3, 4))
		}},
		{"commit-one-missing", false, func(b *types.Block) {
			pre := copyPre(b)
			if i := somePre(pre); i >= 0 {
				pre[i] = nil
			}
			recommit(b, pre, b.LastCommit.BlockID, r.Chance(3, 4))
		}},
		{"commit-duplicated", false, func(b *types.Block) {
			pre := copyPre(b)
			if i := somePre(pre); i >= 0 && len(pre) > 1 {
				j := (i + 1 + r.Intn(len(pre)-1)) % len(pre)
				pre[j] = pre[i]
			}
			recommit(b, pre, b.LastCommit.BlockID, r.Chance(3, 4))
		}},
		{"commit-foreign-height", false, func(b *types.Block) {
			pre := copyPre(b)
			if i := somePre(pre); i >= 0 && i < last.set.Size() {
				pre[i] = sign(last, i, pre[i].Height+int64(1+r.Intn(2)), pre[i].Round, types.VoteTypePrecommit, pre[i].BlockID)
			}
			recommit(b, pre, b.LastCommit.BlockID, r.Chance(3, 4))
		}},
		{"commit-foreign-round", false, func(b *types.Block) {
			pre := copyPre(b)
			if i := somePre(pre); i >= 0 && i < last.set.Size() {
				pre[i] = sign(last, i, pre[i].Height, pre[i].Round+1, types.VoteTypePrecommit, pre[i].BlockID)
			}
			recommit(b, pre, b.LastCommit.BlockID, r.Chance(3, 4))
		}},
		{"commit-prevote", false, func(b *types.Block) {
			pre := copyPre(b)
			if i := somePre(pre); i >= 0 && i < last.set.Size() {
				pre[i] = sign(last, i, pre[i].Height, pre[i].Round, types.VoteTypePrevote, pre[i].BlockID)
			}
			recommit(b, pre, b.LastCommit.BlockID, r.Chance(3, 4))
		}},
		{"commit-bad-signature", false, func(b *types.Block) {
			pre := copyPre(b)
			if i := somePre(pre); i >= 0 {
				v := *pre[i]
				sig := v.Signature.(crypto.SignatureEd25519)
				sig[r.Intn(64)] ^= 0x04
				v.Signature = sig
				pre[i] = &v
			}
			recommit(b, pre, b.LastCommit.BlockID, r.Chance(3, 4))
		}},
		{"commit-vote-other-block", false, func(b *types.Block) {
			pre := copyPre(b)
			if i := somePre(pre); i >= 0 && i < last.set.Size() {
				pre[i] = sign(last, i, pre[i].Height, pre[i].Round, types.VoteTypePrecommit, otherID)
			}
			recommit(b, pre, b.LastCommit.BlockID, r.Chance(3, 4))
		}},
		{"commit-forged-nil-vote", h > 1, func(b *types.Block) {
			// a precommit for nil attributed to a validator who did not sign it (its slot was empty or
			// is overwritten): it does not count, but the commit no longer re-verifies vote by vote
			pre := copyPre(b)
			if len(pre) > 0 && last.set.Size() > 0 {
				i := r.Intn(len(pre))
				if i < last.set.Size() {
					v := sign(last, i, b.Header.Height-1, round, types.VoteTypePrecommit, types.BlockID{})
					sig := v.Signature.(crypto.SignatureEd25519)
					sig[r.Intn(64)] ^= 0x10
					v.Signature = sig
					pre[i] = v
				}
			}
			recommit(b, pre, b.LastCommit.BlockID, true)
		}},
		{"commit-forged-other-block-vote", h > 1, func(b *types.Block) {
			pre := copyPre(b)
			if len(pre) > 0 && last.set.Size() > 0 {
				i := r.Intn(len(pre))
				if i < last.set.Size() {
					v := sign(last, i, b.Header.Height-1, round, types.VoteTypePrecommit, otherID)
					sig := v.Signature.(crypto.SignatureEd25519)
					sig[r.Intn(64)] ^= 0x10
					v.Signature = sig
					pre[i] = v
				}
			}
			recommit(b, pre, b.LastCommit.BlockID, true)
		}},
		{"commit-all-other-block", h > 1, func(b *types.Block) {
			pre := copyPre(b)
			for i := range pre {
				if pre[i] != nil && i < last.set.Size() {
					pre[i] = sign(last, i, pre[i].Height, pre[i].Round, types.VoteTypePrecommit, otherID)
				}
			}
			recommit(b, pre, b.LastCommit.BlockID, true)
		}},
		{"commit-nil-votes", h > 1, func(b *types.Block) {
			pre := copyPre(b)
			for i := range pre {
				if pre[i] != nil && i < last.set.Size() {
					pre[i] = sign(last, i, pre[i].Height, pre[i].Round, types.VoteTypePrecommit, types.BlockID{})
				}
			}
			recommit(b, pre, b.LastCommit.BlockID, true)
		}},
		{"commit-longer", h > 1, func(b *types.Block) {
			recommit(b, append(copyPre(b), nil), b.LastCommit.BlockID, r.Chance(3, 4))
		}},
		{"commit-shorter", false, func(b *types.Block) {
			pre := copyPre(b)
			if len(pre) > 0 {
				pre = pre[:len(pre)-1]
			}
			recommit(b, pre, b.LastCommit.BlockID, r.Chance(3, 4))
		}},
		{"commit-at-first-height", false, func(b *types.Block) {
			// precommits of a "height 0" in the first block
			pre := make([]*types.Vote, last.set.Size())
			for i := range pre {
				pre[i] = sign(last, i, b.Header.Height-1, 0, types.VoteTypePrecommit, otherID)
			}
			recommit(b, pre, otherID, true)
		}},
	}
	var blocks []string
	verdict := func(b *types.Block) (int, bool) {
		var err error
		if p, msg := catchPanic(func() { err = cs.ValidateBlock(b) }); p {
			hit("validate-panic", firstLine(msg))
			return 98, false
		}
		code := valCode(err)
		if code == 99 {
			hit("unknown-error", err.Error())
		}
		return code, true
	}
	// the well-formed block
	blocks = append(blocks, "") // placeholder
	gsx := valBlockSx(good, last.set)
	gcode, _ := verdict(viaWire(good))
	blocks[0] = sxL(gsx, sxZ(int64(gcode)))
	if gcode != 0 {
		hit("valid-block-rejected", fmt.Sprintf("a well-formed successor block at height %d is rejected with code %d", h, gcode))
	}
	dist[fmt.Sprintf("good=%d", gcode)]++
	rejected := 0
	for k := 0; k < c.Mutants; k++ {
		b := viaWire(good)
		m := muts[r.Intn(len(muts))]
		names := m.name
		must := m.must
		if (strings.HasPrefix(m.name, "commit-") || m.name == "lastcommit-hash") && b.LastCommit == nil {
			continue
		}
		m.f(b)
		if r.Chance(1, 5) && b.Header != nil && b.Data != nil && b.LastCommit != nil {
			m2 := muts[r.Intn(len(muts))]
			m2.f(b)
			names += "+" + m2.name
			must = false // a second mutation can undo the first: only single mutations are judged by the monitor
		}
		sx := valBlockSx(b, last.set)
		code, ok := verdict(b)
		blocks = append(blocks, sxL(sx, sxZ(int64(code))))
		dist["mutant="+m.name]++
		dist[fmt.Sprintf("code=%d", code)]++
		if ok && code != 0 {
			rejected++
		}
		if ok && code == 0 && must {
			hit("invalid-block-accepted kind="+names, fmt.Sprintf("ValidateBlock accepts a height-%d block mutated by %s", h, names))
		}
		if ok && code == 0 && b.Header != nil && b.Header.Height > 1 && b.LastCommit != nil {
			// the property itself, recomputed without the model: distinct previous validators, each
			// in its own slot and with its own key, precommitted the previous block id in one round
			var have int64
			round := int64(-1)
			for i, v := range b.LastCommit.Precommits {
				if v == nil || i >= last.set.Size() {
					continue
				}
				_, val := last.set.GetByIndex(i)
				if round < 0 {
					round = v.Round
				}
				if v.Type == types.VoteTypePrecommit && v.Height == b.Header.Height-1 && v.Round == round && v.BlockID.Equals(st.LastBlockID) &&
					val.PubKey.VerifyBytes(types.SignBytes(valChainID, v), v.Signature) {
					have += val.VotingPower
				}
			}
			total := int64(0)
			for _, v := range last.set.Validators {
				total += v.VotingPower
			}
			for i, v := range b.LastCommit.Precommits {
				if v == nil || i >= last.set.Size() {
					continue
				}
				_, val := last.set.GetByIndex(i)
				if !val.PubKey.VerifyBytes(types.SignBytes(valChainID, v), v.Signature) {
					hit("accepted-with-unverifiable-precommit kind="+names, fmt.Sprintf("ValidateBlock accepts a height-%d block whose last commit holds a precommit in slot %d that does not verify under that validator's key", h, i))
					break
				}
			}
			if !(have*3 > total*2) {
				hit("accepted-without-two-thirds kind="+names, fmt.Sprintf("ValidateBlock accepts a height-%d block whose last commit carries valid precommits of %d of %d voting power", h, have, total))
			}
		}
	}
	_ = bytes.Equal
	stSx := sxL(sxB([]byte(st.ChainID)), sxZ(st.LastBlockHeight), sxBid(bidJ(st.LastBlockID)), sxB(st.AppHash), sxB(st.ReceiptsHash),
		valsSx(cur.set), sxB(cur.set.Hash()), valsSx(last.set))
	c.Note = fmt.Sprintf("h=%d n=%d mutants=%d rejected=%d", h, n, c.Mutants, rejected)
	return sxL(stSx, sxL(blocks...)), hits, dist, rejected > 0
}

func init() {
	engines["validate"] = func(args []string) error {
		return runGenericEngine("validate",
			"case = a consensus state (chain id, last height 0..60, last block id, application and receipts hashes possibly empty, 1..6 validators with equal or skewed powers, last validators the same or another set) with a well-formed successor block (0..3 txs, extended txs, last commit signed by all or by just over two thirds of the last validators, any round) and 6..25 mutants of it, one or two mutations each out of 38 kinds: parts missing, every header field wrong, the embedded commit for a nil / other block id, emptied, all nil, one vote missing / duplicated / of another height, round, type, block, with a bad signature, all votes for another or the nil block, too long / short, precommits in the first block; every block goes through the wire codec first; the real verdict of ConsensusState.ValidateBlock is mapped to the model's error code; monitors: the well-formed block must be accepted, mutants of must-reject kinds must not be, no panic; distinct = case line; non-trivial = at least one mutant rejected",
			args,
			func(r *Rng, i int) interface{} { return genValCase(r, i) },
			func(f string) (interface{}, error) {
				var c valCase
				if err := readCase(f, &c); err != nil {
					return nil, err
				}
				return &c, nil
			},
			func(i int, ci interface{}, out string) (string, []MonitorHit, map[string]int, bool) {
				return runValCase(i, ci.(*valCase))
			})
	}
}
