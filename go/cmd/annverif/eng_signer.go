package main

// Engine "signer" (property C03): drives types.PrivValidator with crashes inside WriteFileAtomic
// (verifhook failpoints), failing writes and reloads.

import (
	"bytes"
	"flag"
	"fmt"
	"io/ioutil"
	"os"
	"path/filepath"
	"strings"

	crypto "github.com/dappledger/AnnChain/gemmill/go-crypto"
	"github.com/dappledger/AnnChain/gemmill/types"
	"github.com/dappledger/AnnChain/gemmill/utils/verifhook"
)

type SignOp struct {
	Op     string `json:"op"` // "sign" | "reload"
	Kind   string `json:"kind,omitempty"` // prevote | precommit | proposal
	Height int64  `json:"height,omitempty"`
	Round  int64  `json:"round,omitempty"`
	Block  int    `json:"block,omitempty"`   // which block id (0 = nil)
	Mode   string `json:"mode,omitempty"`    // ok | fail-new | fail-bak | crash1..crash4
}
type SignerCase struct {
	Secret string   `json:"secret"`
	Ops    []SignOp `json:"ops"`
}

type crashSentinel struct{}

func genSignerCase(r *Rng, directed int) SignerCase {
	c := SignerCase{Secret: hexs(r.Bytes(8))}
	h, rd := int64(1), int64(0)
	n := 6 + r.Intn(30)
	kinds := []string{"proposal", "prevote", "precommit"}
	for i := 0; i < n; i++ {
		if r.Chance(1, 10) {
			c.Ops = append(c.Ops, SignOp{Op: "reload"})
			continue
		}
		op := SignOp{Op: "sign", Kind: kinds[r.Intn(3)], Block: r.Intn(3), Mode: "ok"}
		switch roll := r.Intn(100); {
		case roll < 40: // forward progress
			switch r.Intn(4) {
			case 0:
				h++
				rd = 0
			case 1:
				rd++
			}
			op.Height, op.Round = h, rd
		case roll < 60: // same HRS as something recent: repeats and conflicts
			op.Height, op.Round = h, rd
		case roll < 75: // regressions in each coordinate
			op.Height, op.Round = h-int64(r.Intn(2)), rd-int64(r.Intn(2))
			if op.Round < 0 {
				op.Round = 0
			}
			if op.Height < 1 {
				op.Height = 1
			}
		default:
			op.Height, op.Round = h+int64(r.Intn(2)), rd+int64(r.Intn(3))
			h, rd = op.Height, op.Round
		}
		switch m := r.Intn(100); {
		case m < 60:
		case m < 66:
			op.Mode = "fail-new"
		case m < 70:
			op.Mode = "fail-bak"
		case m < 76:
			op.Mode = "fail-rename"
		default:
			op.Mode = fmt.Sprintf("crash%d", 1+r.Intn(4))
		}
		c.Ops = append(c.Ops, op)
		// directed: after a crash or failed write, immediately ask for a conflicting signature at the same HRS
		if op.Mode != "ok" && r.Chance(2, 3) {
			c.Ops = append(c.Ops, SignOp{Op: "sign", Kind: op.Kind, Height: op.Height, Round: op.Round, Block: (op.Block + 1) % 3, Mode: "ok"})
			if r.Chance(1, 2) {
				c.Ops = append(c.Ops, SignOp{Op: "sign", Kind: op.Kind, Height: op.Height, Round: op.Round, Block: op.Block, Mode: "ok"})
			}
		}
	}
	return c
}

func stepOf(kind string) int64 {
	switch kind {
	case "proposal":
		return 1
	case "prevote":
		return 2
	}
	return 3
}

func sxHrs(h, r int64, step int8, sig crypto.Signature, sb []byte) string {
	sg := "()"
	if sig != nil {
		if b := sigBytes(sig); b != nil {
			sg = "(" + sxB(b) + ")"
		}
	}
	bb := "()"
	if len(sb) > 0 { // JSON reload turns a nil LastSignBytes into an empty slice: same observable
		bb = "(" + sxB(sb) + ")"
	}
	return sxL(sxZ(h), sxZ(r), sxZ(int64(step)), sg, bb)
}

func runSignerCase(idx int, c SignerCase, workdir string) (string, []MonitorHit, map[string]int, bool) {
	var hits []MonitorHit
	dist := map[string]int{}
	hit := func(sig, what string) { hits = append(hits, MonitorHit{Case: idx, Sig: sig, What: what}) }
	dir := filepath.Join(workdir, fmt.Sprintf("signer-%d", idx))
	os.RemoveAll(dir)
	os.MkdirAll(dir, 0755)
	defer os.RemoveAll(dir)
	file := filepath.Join(dir, "priv_validator.json")
	priv := crypto.GenPrivKeyEd25519FromSecret(unhex(c.Secret))
	pv, err := types.GenPrivValidator("", priv)
	if err != nil {
		hit("gen-failed", err.Error())
		return "(() ())", hits, dist, false
	}
	pv.SetFile(file)
	pv.Save()
	blocks := []types.BlockID{{}, {Hash: bytes.Repeat([]byte{0xaa}, 20), PartsHeader: types.PartSetHeader{Total: 1, Hash: bytes.Repeat([]byte{0xbb}, 20)}},
		{Hash: bytes.Repeat([]byte{0xcc}, 20), PartsHeader: types.PartSetHeader{Total: 2, Hash: bytes.Repeat([]byte{0xdd}, 20)}}}
	tbl := NewHashRec() // reused as (sign-bytes -> signature) table
	type released struct {
		h, r, s int64
		sb      string
	}
	var rel []released
	var ops []string
	nontrivial := false
	durable := func() string {
		d, err := types.LoadPrivValidator(file)
		if err != nil || d == nil {
			hit("file-unreadable", fmt.Sprint("signer file cannot be loaded: ", err))
			return sxHrs(0, 0, 0, nil, nil)
		}
		return sxHrs(d.LastHeight, d.LastRound, d.LastStep, d.LastSignature, d.LastSignBytes)
	}
	for _, op := range c.Ops {
		if op.Op == "reload" {
			p2, err := types.LoadPrivValidator(file)
			if err != nil {
				hit("file-unreadable", err.Error())
				continue
			}
			pv = p2
			ops = append(ops, sxL("1", sxL("3"), sxHrs(pv.LastHeight, pv.LastRound, pv.LastStep, pv.LastSignature, pv.LastSignBytes), durable()))
			dist["op:reload"]++
			continue
		}
		dist["mode:"+op.Mode]++
		dist["kind:"+op.Kind]++
		var signBytes []byte
		var vote *types.Vote
		var prop *types.Proposal
		if op.Kind == "proposal" {
			prop = &types.Proposal{Height: op.Height, Round: op.Round, BlockPartsHeader: blocks[op.Block].PartsHeader, POLRound: -1}
			signBytes = types.SignBytes(vsChainID, prop)
		} else {
			t := types.VoteTypePrevote
			if op.Kind == "precommit" {
				t = types.VoteTypePrecommit
			}
			vote = &types.Vote{ValidatorAddress: pv.Address, ValidatorIndex: 0, Height: op.Height, Round: op.Round, Type: t, BlockID: blocks[op.Block]}
			signBytes = types.SignBytes(vsChainID, vote)
		}
		// oracle: what the key signs for these bytes
		tbl.Wrap(func(b []byte) []byte { return sigBytes(priv.Sign(b)) })(signBytes)
		mode := 0
		crashAt := 0
		cleanup := func() {}
		switch op.Mode {
		case "fail-new":
			mode = 1
			os.RemoveAll(file + ".new") // a crash before the rename may have left it behind
			os.Mkdir(file+".new", 0755)
			cleanup = func() { os.RemoveAll(file + ".new") }
		case "fail-bak":
			mode = 1
			os.Remove(file + ".bak")
			os.Mkdir(file+".bak", 0755)
			cleanup = func() { os.Remove(file + ".bak") }
		case "fail-rename":
			// the temporary file vanishes before it is moved into place: the rename itself fails
			mode = 1
			os.RemoveAll(file + ".new")
			verifhook.Set(func(name string) {
				if name == "wfa:before-rename" {
					os.Remove(file + ".new")
				}
			})
		case "crash1", "crash2", "crash3":
			mode = 2
			crashAt = int(op.Mode[5] - '0')
		case "crash4":
			mode = 3
			crashAt = 4
		}
		seen := 0
		if crashAt > 0 {
			verifhook.Set(func(name string) {
				if strings.HasPrefix(name, "wfa:") {
					seen++
					if seen == crashAt {
						panic(crashSentinel{})
					}
				}
			})
		}
		var serr error
		crashed := false
		func() {
			defer func() {
				if r := recover(); r != nil {
					if _, ok := r.(crashSentinel); ok {
						crashed = true
					} else {
						hit("sign-panic", fmt.Sprint("signing panicked: ", r))
						crashed = true
					}
				}
			}()
			if prop != nil {
				serr = pv.SignProposal(vsChainID, prop)
			} else {
				serr = pv.SignVote(vsChainID, vote)
			}
		}()
		verifhook.Set(nil)
		cleanup()
		out := ""
		step := stepOf(op.Kind)
		switch {
		case crashed:
			// the process died inside save(): nothing was returned; restart from the file
			p2, err := types.LoadPrivValidator(file)
			if err != nil {
				hit("file-unreadable-after-crash", err.Error())
			} else {
				pv = p2
			}
			out = sxL("2")
			nontrivial = true
		case serr == nil:
			var sig crypto.Signature
			if prop != nil {
				sig = prop.Signature
			} else {
				sig = vote.Signature
			}
			out = sxL("0", sxB(sigBytes(sig)))
			// monitors on the released set
			for _, x := range rel {
				if x.h == op.Height && x.r == op.Round && x.s == step && x.sb != string(signBytes) {
					hit("equivocation", fmt.Sprintf("two different sign-bytes released for height %d round %d step %d", op.Height, op.Round, step))
				}
				if x.h > op.Height || (x.h == op.Height && (x.r > op.Round || (x.r == op.Round && x.s > step))) {
					hit("regression-signed", fmt.Sprintf("signed %d/%d/%d after %d/%d/%d", op.Height, op.Round, step, x.h, x.r, x.s))
				}
			}
			rel = append(rel, released{op.Height, op.Round, step, string(signBytes)})
			// durable before release
			d, err := types.LoadPrivValidator(file)
			if err != nil || d.LastHeight != op.Height || d.LastRound != op.Round || int64(d.LastStep) != step || !bytes.Equal(d.LastSignBytes, signBytes) {
				hit("released-before-durable", fmt.Sprintf("signature for %d/%d/%d released but the signer file does not record it", op.Height, op.Round, step))
			}
			if !pv.PubKey.VerifyBytes(signBytes, sig) {
				hit("bad-signature", "released signature does not verify")
			}
		default:
			code := 4
			switch {
			case strings.Contains(serr.Error(), "Height regression"):
				code = 1
			case strings.Contains(serr.Error(), "Round regression"):
				code = 2
			case strings.Contains(serr.Error(), "Step regression"):
				code = 3
			}
			if code != 4 || mode == 1 {
				nontrivial = nontrivial || code != 4
			}
			out = sxL("1", sxZ(int64(code)))
		}
		ops = append(ops, sxL("0", sxZ(op.Height), sxZ(op.Round), sxZ(step), sxB(signBytes), sxZ(int64(mode)), out,
			sxHrs(pv.LastHeight, pv.LastRound, pv.LastStep, pv.LastSignature, pv.LastSignBytes), durable()))
	}
	return sxL(tbl.Sx(), sxL(ops...)), hits, dist, nontrivial
}

func engSigner(args []string) error {
	var corpus string
	c, err := commonFlags("signer", args, func(fs *flag.FlagSet) { fs.StringVar(&corpus, "corpus", "", "corpus directory") })
	if err != nil {
		return err
	}
	meta := NewMeta("signer", c.Seed)
	meta.Rule = "case = request history for one PrivValidator with a real signer file: proposals/prevotes/precommits moving forward, repeating, conflicting and regressing in height, round and step; each request ends normally, with a failing write (.new or .bak not writable, or the rename into place failing), or with the process dying at one of the four failpoints of WriteFileAtomic followed by a reload; explicit reloads; distinct = case line; non-trivial = a crash or a refusal occurred"
	var cases []SignerCase
	if c.Replay != "" {
		var rc struct{ Case SignerCase `json:"case"` }
		if err := readJSON(c.Replay, &rc); err != nil {
			return err
		}
		cases = append(cases, rc.Case)
	} else {
		fs, _ := filepath.Glob(filepath.Join(corpus, "*.json"))
		for _, f := range fs {
			var rc struct{ Case SignerCase `json:"case"` }
			if err := readJSON(f, &rc); err == nil && len(rc.Case.Ops) > 0 {
				cases = append(cases, rc.Case)
				meta.Dist["corpus"]++
			}
		}
		r := NewRng(c.Seed)
		for i := 0; i < c.N; i++ {
			cases = append(cases, genSignerCase(r.Fork(), i))
		}
	}
	dist := NewDistinct()
	var sb strings.Builder
	for i, sc := range cases {
		line, hits, d, nontrivial := runSignerCase(i, sc, c.Out)
		sb.WriteString(line + "\n")
		meta.Monitor = append(meta.Monitor, hits...)
		for k, v := range d {
			meta.Dist[k] += v
		}
		writeCase(c.Out, i, sc)
		meta.Evaluations++
		if nontrivial {
			dist.Add(line)
		}
		if i < 1 {
			meta.Samples = append(meta.Samples, sc)
		}
	}
	meta.Distinct = dist.Len()
	if err := ioutil.WriteFile(filepath.Join(c.Out, "cases.sx"), []byte(sb.String()), 0644); err != nil {
		return err
	}
	return meta.Write(c.Out)
}

func init() { engines["signer"] = engSigner }
