package main

// Engine "blocksync" (C13, C08): a complete node (Angine + EVM application) started in fast-sync
// mode as a child process, and scripted peers - real p2p switches in this process that dial the
// node over loopback TCP and answer its block requests on the real block-sync channel - serving a
// source chain built here (1..4 validators with real ed25519 keys, blocks with transactions whose
// app and receipts hashes come from a scratch application).  Peers are honest or serve, for chosen
// heights, blocks that are altered, re-signed by the wrong keys, under-signed, justified for
// another block, swapped or malformed; responses arrive in any order.  At least one peer is honest.  The pool's peer timeout is shortened from 15 s to 2 s
// (the variable the package keeps for that purpose) so that unanswered requests cost little time.
// The node must never store or execute a block that is not the source chain's, must not crash, and
// must end at the source chain's last verifiable height with the same application state.

import (
	"bufio"
	"bytes"
	"encoding/json"
	"fmt"
	"io/ioutil"
	"math/big"
	"os"
	"os/exec"
	"path/filepath"
	"sort"
	"strings"
	"sync"
	"time"

	"github.com/spf13/viper"

	"github.com/dappledger/AnnChain/eth/common"
	etypes "github.com/dappledger/AnnChain/eth/core/types"
	"github.com/dappledger/AnnChain/gemmill/blockchain"
	crypto "github.com/dappledger/AnnChain/gemmill/go-crypto"
	"github.com/dappledger/AnnChain/gemmill/go-wire"
	"github.com/dappledger/AnnChain/gemmill/p2p"
	"github.com/dappledger/AnnChain/gemmill/types"
)

type bsPeerJ struct {
	Height  int64            `json:"height"`            // what the peer claims to have
	Tamper  map[string]string `json:"tamper,omitempty"` // height -> kind
	DelayMS map[string]int   `json:"delay_ms,omitempty"`
}
type bsCase struct {
	Seed   uint64    `json:"seed"`
	Len    int       `json:"len"`
	Powers []int64   `json:"powers"`
	TxAt   []int     `json:"tx_at"` // heights that carry transactions
	Peers  []bsPeerJ `json:"peers"` // peer 0 is honest and complete
	HonestLateMS int `json:"honest_late_ms"` // peer 0 connects this much after the others
	// the node waits this long between checking a block's commit and taking the block out of the pool
	// (failpoint "fastsync:verified"), and peers drop their connection at the given moments: whatever
	// the pool is handed for that height meanwhile must not replace the block that was checked
	PauseMS   int            `json:"pause_ms,omitempty"`
	LeaveOnVerified []int `json:"leave_on_verified,omitempty"` // heights: the peer that served the block leaves the moment the node has checked it
	LeaveAtMS map[string][]int `json:"leave_at_ms,omitempty"` // peer index -> ms after it first connected; it dials again 250 ms later
}

var bsTamperKinds = []string{"txs-altered", "txs-altered-datahash-fixed", "valid-tx-added-datahash-fixed", "header-time", "header-apphash", "header-valhash",
	"extra-altered", "next-commit-undersigned", "next-commit-wrong-keys", "next-commit-other-block", "next-commit-one-signer-everywhere",
	"swapped-height", "nil-data", "nil-header", "nil-lastcommit", "next-commit-nil", "sent-twice", "sent-twice", "unrequested-too"}

func genBSCase(r *Rng, i int) *bsCase {
	c := &bsCase{Seed: r.U64(), Len: 4 + r.Intn(5)}
	nv := 1 + r.Intn(4)
	for v := 0; v < nv; v++ {
		c.Powers = append(c.Powers, int64(1+r.Intn(5)))
	}
	for h := 1; h <= c.Len; h++ {
		if r.Chance(1, 3) {
			c.TxAt = append(c.TxAt, h)
		}
	}
	np := 2 + r.Intn(3)
	for p := 0; p < np; p++ {
		pj := bsPeerJ{Height: int64(c.Len), Tamper: map[string]string{}, DelayMS: map[string]int{}}
		for h := 1; h <= c.Len; h++ {
			pj.DelayMS[fmt.Sprint(h)] = r.Intn(120)
			if p > 0 && r.Chance(1, 3) {
				pj.Tamper[fmt.Sprint(h)] = bsTamperKinds[r.Intn(len(bsTamperKinds))]
			}
		}
		// every peer claims the whole chain: with a peer claiming less, the node may find itself "caught
		// up" at a moment when only that peer is in the pool and leave fast sync early - which is fine
		// in a network (the consensus reactor catches up) but not with peers that only speak block sync
		c.Peers = append(c.Peers, pj)
	}
	// one validator (slot 0) colludes with a peer: a forged block at h, and at h+1 a block whose last
	// commit carries that validator's precommit for the forged block in every slot
	if len(c.Powers) > 1 && r.Chance(1, 3) {
		p := 1 + r.Intn(len(c.Peers)-1)
		h := 1 + r.Intn(c.Len-1)
		c.Peers[p].Tamper[fmt.Sprint(h)] = "forged-colluding"
		c.Peers[p].Tamper[fmt.Sprint(h+1)] = "next-commit-colluding"
	}
	// a peer serves a forged block at h and, at h+1, the genuine block whose last commit is the genuine
	// one except for its own BlockID field, rewritten to name the forgery (no hash or signature covers
	// that field): the precommits inside still name the genuine block and justify nothing else
	if len(c.Peers) > 1 && r.Chance(1, 3) {
		p := 1 + r.Intn(len(c.Peers)-1)
		h := 1 + r.Intn(c.Len-1)
		c.Peers[p].Tamper[fmt.Sprint(h)] = "forged-relabel"
		c.Peers[p].Tamper[fmt.Sprint(h+1)] = "next-commit-relabelled"
	}
	if r.Chance(1, 3) {
		c.PauseMS = 150 + r.Intn(250)
		c.LeaveAtMS = map[string][]int{}
		for h := 1; h < c.Len; h++ {
			if r.Bool() {
				c.LeaveOnVerified = append(c.LeaveOnVerified, h)
			}
		}
		for p := range c.Peers {
			// syncing starts about a second after the node is up
			for k := r.Intn(4); k > 0; k-- {
				c.LeaveAtMS[fmt.Sprint(p)] = append(c.LeaveAtMS[fmt.Sprint(p)], 900+r.Intn(c.Len*c.PauseMS))
			}
			if p > 0 {
				// blocks that differ from the source chain's only in what nothing in them vouches for
				for h := 1; h <= c.Len; h++ {
					if r.Bool() {
						c.Peers[p].Tamper[fmt.Sprint(h)] = "valid-tx-added-datahash-fixed"
					}
				}
			}
		}
	}
	if r.Chance(2, 3) {
		// the honest peer joins late: the others then claim the whole chain, or the node would rightly
		// consider itself caught up and leave fast sync before the honest peer arrives (the scripted
		// peers do not speak the consensus catch-up protocol)
		c.HonestLateMS = 200 + r.Intn(1500)
		for p := range c.Peers {
			c.Peers[p].Height = int64(c.Len)
		}
	}
	return c
}

// ---- the source chain ----
type bsChain struct {
	chainID string
	privs   []*types.PrivValidator
	valSet  *types.ValidatorSet
	blocks  []*types.Block   // blocks[h-1]
	commits []*types.Commit  // commits[h-1] = +2/3 precommits for block h
	ids     []types.BlockID
	appHash [][]byte // after block h
	nonces  []uint64
}

const bsPartSize = 65536

func bsSignCommit(ch *bsChain, h int64, id types.BlockID, signers []int, keys []*types.PrivValidator) *types.Commit {
	c := &types.Commit{BlockID: id, Precommits: make([]*types.Vote, len(ch.privs))}
	for _, i := range signers {
		pv := keys[i]
		v := &types.Vote{ValidatorAddress: ch.privs[i].GetAddress(), ValidatorIndex: i, Height: h, Round: 0, Type: types.VoteTypePrecommit, BlockID: id}
		v.Signature = pv.PrivKey.Sign(types.SignBytes(ch.chainID, v))
		c.Precommits[i] = v
	}
	return c
}

func viaWire(b *types.Block) *types.Block {
	var n int
	var err error
	out := wire.ReadBinary(&types.Block{}, bytes.NewReader(wire.BinaryBytes(b)), 0, &n, &err).(*types.Block)
	if err != nil {
		return nil
	}
	return out
}

func buildBSChain(c *bsCase, r *Rng) (*bsChain, error) {
	ch := &bsChain{chainID: "verif-chain"}
	var vals []*types.Validator
	for i, p := range c.Powers {
		seed := make([]byte, 32)
		copy(seed, fmt.Sprintf("bs-val-%d-%d", c.Seed, i))
		pk := crypto.GenPrivKeyEd25519FromSecret(seed)
		pv, err := types.GenPrivValidator("", pk)
		if err != nil {
			return nil, err
		}
		ch.privs = append(ch.privs, pv)
		vals = append(vals, &types.Validator{Address: pv.GetAddress(), PubKey: pv.PubKey, VotingPower: p, IsCA: true})
	}
	ch.valSet = types.NewValidatorSet(vals)
	// privs in validator-set order
	ordered := make([]*types.PrivValidator, len(ch.privs))
	for _, pv := range ch.privs {
		idx, _ := ch.valSet.GetByAddress(pv.GetAddress())
		ordered[idx] = pv
	}
	ch.privs = ordered
	// scratch application for the hashes
	adir, _ := ioutil.TempDir("", "annverif-bs-app")
	defer os.RemoveAll(adir)
	app, err := openApp(adir)
	if err != nil {
		return nil, err
	}
	defer func() { catchPanic(func() { app.Stop() }) }()
	info := app.Info()
	appHash := []byte{}
	_ = info
	var rcpt []byte
	lastCommit := &types.Commit{}
	lastID := types.BlockID{}
	next := []uint64{0, 0, 0}
	txAt := map[int]bool{}
	for _, h := range c.TxAt {
		txAt[h] = true
	}
	vs := ch.valSet.Copy()
	for h := int64(1); h <= int64(c.Len); h++ {
		var txs []types.Tx
		if txAt[int(h)] {
			g := genCrashCase(r.Fork(), 0)
			_ = g
			for t := 0; t < 1+r.Intn(3); t++ {
				key := r.Intn(3)
				txs = append(txs, types.Tx(simpleTx(next[key], key, r)))
				next[key]++
			}
		}
		proposer := vs.Proposer().Address
		blk, _ := types.MakeBlock(h, ch.chainID, txs, nil, lastCommit, proposer, lastID, vs.Hash(), appHash, rcpt, bsPartSize)
		blk = viaWire(blk)
		if blk == nil {
			return nil, fmt.Errorf("block %d does not survive the wire", h)
		}
		o := execBlock(app, blk)
		if o.panic != "" {
			return nil, fmt.Errorf("scratch application: %s", o.panic)
		}
		appHash, rcpt = o.app, o.rcpt
		ch.nonces = o.nonces
		id := types.BlockID{Hash: blk.Hash(), PartsHeader: blk.MakePartSet(bsPartSize).Header()}
		var all []int
		for i := range ch.privs {
			all = append(all, i)
		}
		commit := bsSignCommit(ch, h, id, all, ch.privs)
		ch.blocks = append(ch.blocks, blk)
		ch.commits = append(ch.commits, commit)
		ch.ids = append(ch.ids, id)
		ch.appHash = append(ch.appHash, appHash)
		lastCommit, lastID = commit, id
		vs.IncrementAccum(1)
	}
	return ch, nil
}

// what a peer serves for height h; also tells whether the served block is the source chain's
func (ch *bsChain) served(h int64, kind string, r *Rng) (*types.Block, bool) {
	if h < 1 || int(h) > len(ch.blocks) {
		return nil, false
	}
	b := viaWire(ch.blocks[h-1])
	genuine := true
	foreign := func() []*types.PrivValidator {
		var ks []*types.PrivValidator
		for i := range ch.privs {
			seed := make([]byte, 32)
			copy(seed, fmt.Sprintf("bs-foreign-%d", i))
			pk := crypto.GenPrivKeyEd25519FromSecret(seed)
			pv, _ := types.GenPrivValidator("", pk)
			ks = append(ks, pv)
		}
		return ks
	}
	var all []int
	for i := range ch.privs {
		all = append(all, i)
	}
	switch kind {
	case "":
	case "txs-altered":
		b.Data.Txs = append(types.Txs{types.Tx("forged")}, b.Data.Txs...)
		genuine = false
	case "txs-altered-datahash-fixed":
		b.Data.Txs = append(types.Txs{types.Tx("forged")}, b.Data.Txs...)
		b.Header.NumTxs = int64(len(b.Data.Txs))
		b.Data = &types.Data{Txs: b.Data.Txs, ExTxs: b.Data.ExTxs}
		b.Header.DataHash = b.Data.Hash()
		genuine = false
	case "valid-tx-added-datahash-fixed":
		// a transaction that is valid and changes the application state: a contract creation by a sender
		// the source chain never uses
		ftx := etypes.NewContractCreation(0, big.NewInt(0), 1000000, big.NewInt(0), common.Hex2Bytes("600a600c600039600a6000f3"+"60005460010160005500"))
		b.Data.Txs = append(types.Txs{types.Tx(signAppTx(ftx, 3, false))}, b.Data.Txs...)
		b.Header.NumTxs = int64(len(b.Data.Txs))
		b.Data = &types.Data{Txs: b.Data.Txs, ExTxs: b.Data.ExTxs}
		b.Header.DataHash = b.Data.Hash()
		genuine = false
	case "header-time":
		b.Header.Time = b.Header.Time.Add(time.Second)
		genuine = false
	case "header-apphash":
		b.Header.AppHash = append([]byte{0x55}, b.Header.AppHash...)
		genuine = false
	case "header-valhash":
		b.Header.ValidatorsHash = []byte("other validators")
		genuine = false
	case "extra-altered":
		b.Header.Extra = []byte("not what the validators saw")
		genuine = false
	case "swapped-height":
		if int(h) < len(ch.blocks) {
			b = viaWire(ch.blocks[h])
		} else if h > 1 {
			b = viaWire(ch.blocks[h-2])
		}
		genuine = false
	case "nil-data":
		b.Data = nil
		genuine = false
	case "nil-header":
		b.Header = nil
		genuine = false
	case "nil-lastcommit":
		b.LastCommit = nil
		genuine = false
	// the following leave block h-1's justification in this block's LastCommit short of what is needed;
	// the block itself then is not the source chain's either (its LastCommit differs)
	case "next-commit-undersigned":
		if h > 1 {
			// strictly less than 2/3: drop signers until the rest is too light
			keep := []int{}
			total, sum := ch.valSet.TotalVotingPower(), int64(0)
			for _, i := range all {
				_, v := ch.valSet.GetByIndex(i)
				if (sum+v.VotingPower)*3 <= total*2 {
					keep = append(keep, i)
					sum += v.VotingPower
				}
			}
			b.LastCommit = bsSignCommit(ch, h-1, ch.ids[h-2], keep, ch.privs)
			genuine = false
		}
	case "next-commit-wrong-keys":
		if h > 1 {
			b.LastCommit = bsSignCommit(ch, h-1, ch.ids[h-2], all, foreign())
			genuine = false
		}
	case "next-commit-other-block":
		if h > 1 {
			other := ch.ids[h-2]
			other.Hash = append([]byte{}, other.Hash...)
			other.Hash[0] ^= 1
			b.LastCommit = bsSignCommit(ch, h-1, other, all, ch.privs)
			genuine = false
		}
	case "next-commit-one-signer-everywhere":
		if h > 1 && len(ch.privs) > 1 {
			one := bsSignCommit(ch, h-1, ch.ids[h-2], []int{0}, ch.privs).Precommits[0]
			cm := &types.Commit{BlockID: ch.ids[h-2], Precommits: make([]*types.Vote, len(ch.privs))}
			for i := range cm.Precommits {
				cp := *one
				cm.Precommits[i] = &cp
			}
			b.LastCommit = cm
			genuine = false
		}
	case "next-commit-nil":
		if h > 1 {
			b.LastCommit = &types.Commit{}
			genuine = false
		}
	case "forged-colluding":
		b = ch.forged(h)
		genuine = false
	case "forged-relabel":
		b = ch.forged(h)
		genuine = false
	case "next-commit-relabelled":
		if h > 1 && b.LastCommit != nil {
			f := ch.forged(h - 1)
			cm := *b.LastCommit
			cm.BlockID = types.BlockID{Hash: f.Hash(), PartsHeader: f.MakePartSet(bsPartSize).Header()}
			b.LastCommit = &cm
			genuine = false
		}
	case "next-commit-colluding":
		if h > 1 && ch.slot0Minority() {
			f := ch.forged(h - 1)
			fid := types.BlockID{Hash: f.Hash(), PartsHeader: f.MakePartSet(bsPartSize).Header()}
			one := bsSignCommit(ch, h-1, fid, []int{0}, ch.privs).Precommits[0]
			cm := &types.Commit{BlockID: fid, Precommits: make([]*types.Vote, len(ch.privs))}
			for i := range cm.Precommits {
				cp := *one
				cm.Precommits[i] = &cp
			}
			b.LastCommit = cm
			genuine = false
		}
	}
	return b, genuine
}

// the block a colluding peer puts in place of block h: other transactions, consistent data hash
func (ch *bsChain) forged(h int64) *types.Block {
	b := viaWire(ch.blocks[h-1])
	b.Data = &types.Data{Txs: append(types.Txs{types.Tx("forged by a colluding validator")}, b.Data.Txs...), ExTxs: b.Data.ExTxs}
	b.Header.NumTxs = int64(len(b.Data.Txs))
	b.Header.DataHash = b.Data.Hash()
	return viaWire(b)
}

// the validator in slot 0 alone is not +2/3
func (ch *bsChain) slot0Minority() bool {
	_, v := ch.valSet.GetByIndex(0)
	return v.VotingPower*3 <= ch.valSet.TotalVotingPower()*2
}

// ---- a scripted peer ----
type bsReactor struct {
	p2p.BaseReactor
	serve   func(h int64) (*types.Block, time.Duration)
	kindOf  func(h int64) string
	height  int64
	mtx     sync.Mutex
	asked   map[int64]int
	removed bool
	redial  func() // an honest peer comes back when the node drops it (a persistent peer would)
	redials int
}

func (r *bsReactor) GetChannels() []*p2p.ChannelDescriptor {
	return []*p2p.ChannelDescriptor{{ID: blockchain.BlockchainChannel, Priority: 5, SendQueueCapacity: 100}}
}
func (r *bsReactor) AddPeer(peer *p2p.Peer) {
	r.mtx.Lock()
	r.removed = false
	r.mtx.Unlock()
	peer.Send(blockchain.BlockchainChannel, blockchain.VerifStatusResponse(r.height))
	// every peer, honest or not, keeps announcing its height (a real peer does so when asked, every
	// ten seconds): a peer dropped from the pool is back at once
	go func() {
		for i := 0; i < 400; i++ {
			time.Sleep(300 * time.Millisecond)
			r.mtx.Lock()
			gone := r.removed
			r.mtx.Unlock()
			if gone {
				return
			}
			ok := false
			catchPanic(func() { ok = peer.TrySend(blockchain.BlockchainChannel, blockchain.VerifStatusResponse(r.height)) })
			_ = ok
		}
	}()
}
func (r *bsReactor) RemovePeer(peer *p2p.Peer, reason interface{}) {
	r.mtx.Lock()
	r.removed = true
	again := r.redial != nil && r.redials < 40
	if again {
		r.redials++
	}
	r.mtx.Unlock()
	if again {
		go func() {
			time.Sleep(250 * time.Millisecond)
			r.redial()
		}()
	}
}
func (r *bsReactor) Receive(chID byte, src *p2p.Peer, msg []byte) {
	kind, h, _ := blockchain.VerifDecode(msg)
	switch kind {
	case "block-request":
		r.mtx.Lock()
		r.asked[h]++
		r.mtx.Unlock()
		b, d := r.serve(h)
		if b == nil {
			return
		}
		kind := r.kindOf(h)
		go func() {
			time.Sleep(d)
			catchPanic(func() { src.TrySend(blockchain.BlockchainChannel, blockchain.VerifBlockResponse(b)) })
			switch kind {
			case "sent-twice": // the same answer again, at once and a little later
				catchPanic(func() { src.TrySend(blockchain.BlockchainChannel, blockchain.VerifBlockResponse(b)) })
				time.Sleep(20 * time.Millisecond)
				catchPanic(func() { src.TrySend(blockchain.BlockchainChannel, blockchain.VerifBlockResponse(b)) })
			case "unrequested-too": // blocks nobody asked this peer for
				for _, o := range []int64{h + 1, h + 2, h - 1, 1 << 40, -3} {
					if ob, _ := r.serve(o); ob != nil {
						catchPanic(func() { src.TrySend(blockchain.BlockchainChannel, blockchain.VerifBlockResponse(ob)) })
					}
				}
				catchPanic(func() { src.TrySend(blockchain.BlockchainChannel, blockchain.VerifStatusResponse(-5)) })
				catchPanic(func() { src.TrySend(blockchain.BlockchainChannel, blockchain.VerifStatusResponse(r.height)) })
			}
		}()
	case "status-request":
		src.TrySend(blockchain.BlockchainChannel, blockchain.VerifStatusResponse(r.height))
	}
}

type sinkReactor struct{ p2p.BaseReactor }

func (sinkReactor) GetChannels() []*p2p.ChannelDescriptor {
	var ds []*p2p.ChannelDescriptor
	for _, id := range []byte{0x20, 0x21, 0x22, 0x23, 0x30} {
		ds = append(ds, &p2p.ChannelDescriptor{ID: id, Priority: 1, SendQueueCapacity: 10})
	}
	return ds
}
func (sinkReactor) Receive(chID byte, src *p2p.Peer, msg []byte) {}

func newScriptPeer(i int, seedTag uint64, genesisJSON []byte, rx *bsReactor) *p2p.Switch {
	conf := viper.New()
	sw := p2p.NewSwitch(conf)
	seed := make([]byte, 32)
	copy(seed, fmt.Sprintf("bs-peer-%d-%d", seedTag, i))
	pk := crypto.GenPrivKeyEd25519FromSecret(seed)
	sw.SetNodeInfo(&p2p.NodeInfo{PubKey: pk.PubKey(), Moniker: fmt.Sprintf("peer%d", i), Network: "", Version: "0.9.0", ListenAddr: "127.0.0.1:0"})
	sw.SetNodePrivKey(pk)
	sw.SetExchangeData(&p2p.ExchangeData{GenesisJSON: genesisJSON})
	rx.BaseReactor = *p2p.NewBaseReactor("BS", rx)
	sw.AddReactor("BLOCKCHAIN", rx)
	sk := &sinkReactor{}
	sk.BaseReactor = *p2p.NewBaseReactor("SINK", sk)
	sw.AddReactor("SINK", sk)
	sw.Start()
	return sw
}

func simpleTx(nonce uint64, key int, r *Rng) []byte {
	to := common.BytesToAddress([]byte{0xc1})
	tx := etypes.NewTransaction(nonce, to, big.NewInt(0), 1000000, big.NewInt(0), r.Bytes(r.Intn(8)))
	return signAppTx(tx, key, false)
}

func runBSCase(idx int, c *bsCase) (string, []MonitorHit, map[string]int, bool) {
	dist := map[string]int{}
	var hits []MonitorHit
	hit := func(sig, what string) { hits = append(hits, MonitorHit{Case: idx, Sig: sig, What: what}) }
	r := NewRng(c.Seed)
	ch, err := buildBSChain(c, r)
	if err != nil {
		hit("harness-error", err.Error())
		return "(9)", hits, dist, false
	}
	dist[fmt.Sprintf("validators=%d", len(c.Powers))]++
	dist[fmt.Sprintf("len=%d", c.Len)]++
	dir, _ := ioutil.TempDir("", "annverif-bs")
	defer func() {
		if (len(hits) > 0 && os.Getenv("VERIF_KEEP") != "") || os.Getenv("VERIF_KEEP") == "all" {
			fmt.Fprintf(os.Stderr, "KEPT %s for case %d\n", dir, idx)
			return
		}
		os.RemoveAll(dir)
	}()
	// genesis of the source chain
	gd := &types.GenesisDoc{ChainID: ch.chainID, Plugins: "adminOp,querycache"}
	for i, v := range ch.valSet.Validators {
		_ = i
		gd.Validators = append(gd.Validators, types.GenesisValidator{PubKey: v.PubKey, Amount: v.VotingPower, IsCA: true})
	}
	gfile := dir + "-genesis.json"
	gd.SaveAs(gfile)
	defer os.Remove(gfile)
	genesisJSON := gd.JSONBytes()

	// the node under test
	target := int64(c.Len - 1)
	sf := dir + "-script.json"
	writeJSONFile(sf, &nodeScript{Target: target, TimeoutMS: 30000})
	defer os.Remove(sf)
	cmd := exec.Command(os.Args[0], "node", "--dir", dir, "--script", sf, "--genesis", gfile, "--fastsync", "--peer-timeout", "2")
	var stderr bytes.Buffer
	cmd.Stderr = &stderr
	if c.PauseMS > 0 {
		cmd.Env = append(os.Environ(), fmt.Sprintf("VERIF_FASTSYNC_PAUSE_MS=%d", c.PauseMS))
		dist["pause-between-check-and-pop"]++
	}
	out, _ := cmd.StdoutPipe()
	if err := cmd.Start(); err != nil {
		hit("harness-error", err.Error())
		return "(9)", hits, dist, false
	}
	killer := time.AfterFunc(60*time.Second, func() { cmd.Process.Kill() })
	defer killer.Stop()
	listen := make(chan string, 1)
	var smtx sync.Mutex
	lastServer := map[int64]int{}  // height -> peer that handed out a block for it last
	peerSw := map[int]*p2p.Switch{} // peer index -> its switch
	leftAt := map[int64]bool{}
	peerRx := map[int]*bsReactor{}
	var rep *nodeReport
	seenBlocks := map[int64]string{}
	var mtx sync.Mutex
	done := make(chan struct{})
	go func() {
		defer close(done)
		sc := bufio.NewScanner(out)
		sc.Buffer(make([]byte, 1<<20), 1<<26)
		for sc.Scan() {
			line := sc.Text()
			if strings.HasPrefix(line, "NODE-LISTEN ") {
				select {
				case listen <- strings.TrimPrefix(line, "NODE-LISTEN "):
				default:
				}
			} else if strings.HasPrefix(line, "NODE-BLOCK ") {
				var h int64
				var hash string
				fmt.Sscanf(line, "NODE-BLOCK %d %s", &h, &hash)
				mtx.Lock()
				seenBlocks[h] = hash
				mtx.Unlock()
			} else if strings.HasPrefix(line, "NODE-VERIFIED ") {
				var h int64
				fmt.Sscanf(line, "NODE-VERIFIED %d", &h)
				for _, lh := range c.LeaveOnVerified {
					if int64(lh) != h {
						continue
					}
					smtx.Lock()
					pi, ok := lastServer[h]
					sw := peerSw[pi]
					if leftAt[h] {
						ok = false // once per height
					} else {
						dist["left-between-check-and-pop"]++
					}
					leftAt[h] = true
					smtx.Unlock()
					if ok && sw != nil {
						for _, p := range sw.Peers().List() {
							p := p
							catchPanic(func() { sw.StopPeerForError(p, "the scripted peer leaves") })
						}
						// and the peers that tamper with this height keep pushing their version of it, asked or
						// not, for as long as the node waits (its requests do not go out meanwhile)
						go func() {
							for t := 0; t < c.PauseMS+100; t += 20 {
								smtx.Lock()
								var pushers []int
								for idx := range peerSw {
									if idx != pi && c.Peers[idx].Tamper[fmt.Sprint(h)] != "" {
										pushers = append(pushers, idx)
									}
								}
								smtx.Unlock()
								for _, idx := range pushers {
									smtx.Lock()
									psw, prx := peerSw[idx], peerRx[idx]
									smtx.Unlock()
									b, _ := prx.serve(h)
									if b == nil {
										continue
									}
									for _, p := range psw.Peers().List() {
										p := p
										catchPanic(func() { p.TrySend(blockchain.BlockchainChannel, blockchain.VerifBlockResponse(b)) })
									}
								}
								time.Sleep(20 * time.Millisecond)
							}
						}()
					}
				}
			} else if strings.HasPrefix(line, "NODE-REPORT ") {
				var x nodeReport
				if json.Unmarshal([]byte(line[len("NODE-REPORT "):]), &x) == nil {
					rep = &x
				}
			}
		}
	}()
	var addr string
	select {
	case addr = <-listen:
	case <-time.After(15 * time.Second):
		cmd.Process.Kill()
		<-done
		cmd.Wait()
		hit("harness-error", "the node did not come up: "+tailOf(stderr.String(), 800))
		return "(9)", hits, dist, false
	}
	// the peers
	var sws []*p2p.Switch
	var rxs []*bsReactor
	servedForged := map[string]bool{} // "h:hash" of non-genuine blocks handed out
	var dialWG sync.WaitGroup
	for i := len(c.Peers) - 1; i >= 0; i-- {
		pj := c.Peers[i]
		pidx := i
		pr := r.Fork()
		rx := &bsReactor{height: pj.Height, asked: map[int64]int{}}
		rx.kindOf = func(h int64) string { return pj.Tamper[fmt.Sprint(h)] }
		rx.serve = func(h int64) (*types.Block, time.Duration) {
			if h > pj.Height {
				return nil, 0
			}
			kind := pj.Tamper[fmt.Sprint(h)]
			b, genuine := ch.served(h, kind, pr)
			if b == nil {
				return nil, 0
			}
			smtx.Lock()
			lastServer[h] = pidx
			if kind != "" {
				dist["served="+kind]++
			}
			if !genuine && b.Header != nil {
				servedForged[fmt.Sprintf("%d:%x", h, b.Hash())] = true
			}
			smtx.Unlock()
			return b, time.Duration(pj.DelayMS[fmt.Sprint(h)]) * time.Millisecond
		}
		sw := newScriptPeer(i, c.Seed, genesisJSON, rx)
		sws = append(sws, sw)
		rxs = append(rxs, rx)
		smtx.Lock()
		peerSw[i] = sw
		peerRx[i] = rx
		smtx.Unlock()
		late := 0
		if i == 0 {
			late = c.HonestLateMS
		}
		if i == 0 || c.PauseMS > 0 {
			// the honest peer is a persistent one (so is a peer that leaves by itself): dropped by the node (its block stood next to a
			// forged one, both peers go), it dials again
			hsw := sw
			rx.redial = func() {
				if na, err := p2p.NewNetAddressString(addr); err == nil {
					catchPanic(func() { hsw.DialPeerWithAddress(na) })
				}
			}
		}
		dialWG.Add(1)
		leaves := c.LeaveAtMS[fmt.Sprint(i)]
		go func(sw *p2p.Switch, late int) {
			defer dialWG.Done()
			time.Sleep(time.Duration(late) * time.Millisecond)
			na, err := p2p.NewNetAddressString(addr)
			if err == nil {
				catchPanic(func() { _, err = sw.DialPeerWithAddress(na) })
			}
			_ = err
			for _, leave := range leaves {
				leave := leave
				go func() {
					time.Sleep(time.Duration(leave) * time.Millisecond)
					for _, p := range sw.Peers().List() {
						p := p
						catchPanic(func() { sw.StopPeerForError(p, "the scripted peer leaves") })
					}
				}()
			}
		}(sw, late)
	}
	dialWG.Wait()
	<-done
	cmd.Wait()
	for _, sw := range sws {
		catchPanic(func() { sw.Stop() })
	}
	exit := cmd.ProcessState.ExitCode()
	ctx := fmt.Sprintf("chain of %d blocks, %d validators %v, %d peers", c.Len, len(c.Powers), c.Powers, len(c.Peers))
	if rep == nil {
		hit("node-panic at=blocksync", fmt.Sprintf("%s: the syncing node died (exit %d): %s", ctx, exit, tailOf(stderr.String(), 1500)))
		return "(9)", hits, dist, false
	}
	// 1. nothing but the source chain is stored
	var stored []string
	for i, w := range rep.Wire {
		h := int64(i + 1)
		if int(h) > len(ch.blocks) {
			hit("forged-block-applied", fmt.Sprintf("%s: the node holds a block at height %d beyond the source chain", ctx, h))
			break
		}
		same := bytes.Equal(unhex(w), wire.BinaryBytes(ch.blocks[h-1]))
		if !same {
			hit("forged-block-applied", fmt.Sprintf("%s: the block stored at height %d is not the source chain's", ctx, h))
		}
		stored = append(stored, sxBool(same))
	}
	mtx.Lock()
	for h, hash := range seenBlocks {
		if int(h) <= len(ch.blocks) && hash != fmt.Sprintf("%x", ch.blocks[h-1].Hash()) {
			hit("forged-block-applied", fmt.Sprintf("%s: the node showed block %s at height %d", ctx, hash, h))
		}
	}
	mtx.Unlock()
	// 2. it ends where an honest peer could take it, with the application state of the source chain
	if rep.Height < target {
		var asked []string
		for i, rx := range rxs {
			rx.mtx.Lock()
			asked = append(asked, fmt.Sprintf("peer%d asked %v removed=%v", i, rx.asked, rx.removed))
			rx.mtx.Unlock()
		}
		lg, _ := ioutil.ReadFile(filepath.Join(dir, "node.log"))
		var keep []string
		for _, l := range strings.Split(string(lg), "\n") {
			if !strings.Contains(l, "Stopping") && !strings.Contains(l, `"debug"`) && !strings.Contains(l, "Starting") {
				keep = append(keep, l)
			}
		}
		lg = []byte(strings.Join(keep, "\n"))
		hit("blocksync-wedged", fmt.Sprintf("%s (peer 0 honest and complete): the node reached height %d of %d within the time limit; tampering %v; %v; log tail: %s", ctx, rep.Height, target, tamperSummary(c), asked, tailOf(string(lg), 6000)))
	} else if rep.AppHeight >= 1 && int(rep.AppHeight) <= len(ch.appHash) && rep.AppHash != hexs(ch.appHash[rep.AppHeight-1]) {
		hit("synced-state-differs", fmt.Sprintf("%s: app hash at height %d is %s, the source chain's %x", ctx, rep.AppHeight, rep.AppHash, ch.appHash[rep.AppHeight-1]))
	}
	// for the model: per height, for each peer, what its block for height h+1 carries as justification
	// of block h (voting powers of valid signatures for the source block id), and whether the node stored h
	var hs []string
	for h := 1; h < c.Len; h++ {
		var js []string
		for pi, pj := range c.Peers {
			if int64(h+1) > pj.Height {
				continue
			}
			b, _ := ch.served(int64(h+1), pj.Tamper[fmt.Sprint(h+1)], NewRng(1))
			js = append(js, sxL(sxZ(int64(pi)), ch.commitSx(int64(h), b)))
		}
		st := "0"
		if h <= len(rep.Wire) {
			st = "1"
		}
		hs = append(hs, sxL(sxL(js...), st))
	}
	var pw []string
	for _, v := range ch.valSet.Validators {
		pw = append(pw, sxZ(v.VotingPower))
	}
	return sxL(sxL(pw...), sxL(hs...)), hits, dist, len(servedForged) > 0
}

// the commit a served block carries for block h, as the model sees it: per slot () or
// (height round type names-the-source-block signature-verifies-under-that-slot's-key)
func (ch *bsChain) commitSx(h int64, b *types.Block) string {
	if b == nil || b.LastCommit == nil {
		return "()"
	}
	var slots []string
	for i, v := range b.LastCommit.Precommits {
		if v == nil {
			slots = append(slots, "()")
			continue
		}
		okID := v.BlockID.Equals(ch.ids[h-1])
		okSig := false
		if i < len(ch.privs) {
			okSig = ch.privs[i].PubKey.VerifyBytes(types.SignBytes(ch.chainID, v), v.Signature)
		}
		slots = append(slots, sxL(sxZ(v.Height), sxZ(v.Round), sxZ(int64(v.Type)), sxBool(okID), sxBool(okSig)))
	}
	return sxL(slots...)
}

func tamperSummary(c *bsCase) string {
	var s []string
	for i, p := range c.Peers {
		for h, k := range p.Tamper {
			s = append(s, fmt.Sprintf("peer%d@%s:%s", i, h, k))
		}
	}
	sort.Strings(s)
	return strings.Join(s, " ")
}

func tailOf(s string, n int) string {
	if len(s) > n {
		return s[len(s)-n:]
	}
	return s
}

func writeJSONFile(path string, v interface{}) {
	bs, _ := json.Marshal(v)
	ioutil.WriteFile(path, bs, 0644)
}

func init() {
	engines["blocksync"] = func(args []string) error {
		genericParallel = 12
		defer func() { genericParallel = 1 }()
		return runGenericEngine("blocksync",
			"case = a source chain of 4..8 blocks built here (1..4 validators with powers 1..5 and real ed25519 keys, a third of the blocks with transactions, app and receipts hashes from a scratch application), a complete node (Angine + EVM application) started in fast-sync mode as a child process, and 2..4 scripted peers (real p2p switches dialling the node over loopback TCP, answering block requests on the real channel with per-height delays 0..120 ms): peer 0 honest and complete, the others serve for a third of the heights a block that is altered (transactions with and without a fixed data hash, header time / app hash / validators hash, the unhashed Extra field), swapped with another height, missing its header / data / last commit, or whose last commit under-signs the previous block, is signed by foreign keys, names another block, repeats one signer in every slot or is empty; in a third of the multi-validator cases one validator colludes with a peer (a forged block, and its own precommit for it in every slot of the next block's last commit); checked: every block the node stores or shows is the source chain's, the node does not die, it reaches the last verifiable height and its application state is the source chain's; for the model: per height the justifications on offer and whether the node stored the block; distinct = case line; non-trivial = a forged block was served",
			args,
			func(r *Rng, i int) interface{} { return genBSCase(r, i) },
			func(f string) (interface{}, error) {
				var c bsCase
				if err := readCase(f, &c); err != nil {
					return nil, err
				}
				return &c, nil
			},
			func(i int, ci interface{}, out string) (string, []MonitorHit, map[string]int, bool) {
				return runBSCase(i, ci.(*bsCase))
			})
	}
}
