package main

// Engine "netrun" (C12, C01, C05, C06): a network of four complete nodes (Angine with every
// reactor and its goroutines, real TCP over loopback, EVM application, LevelDBs, WAL, signer
// files), each a child process.  Transactions are offered to one node; one validator (a quarter
// of the power) is killed - by a failpoint immediately before one of its durable writes, at an
// arbitrary moment - and restarted.  Every validator must reach the target height in time, all
// must hold the same block at every height, and re-executing the chain on a fresh application
// must reproduce the hashes it records.

import (
	"bytes"
	"fmt"
	"io/ioutil"
	"net"
	"os"
	"sync"

	crypto "github.com/dappledger/AnnChain/gemmill/go-crypto"
	"github.com/dappledger/AnnChain/gemmill/go-wire"
	"github.com/dappledger/AnnChain/gemmill/types"
)

type netCase struct {
	Seed    uint64              `json:"seed"`
	Target  int64               `json:"target"`
	Txs     map[string][]string `json:"txs_at_height"`
	Victim  int                 `json:"victim"`   // which validator dies (-1: none)
	CrashAt int                 `json:"crash_at"` // before its k-th durable write counted from the commit of CrashBlock
	CrashBlock int64            `json:"crash_block"`
}

func genNetCase(r *Rng, i int) *netCase {
	c := &netCase{Seed: r.U64(), Target: int64(5 + r.Intn(3)), Txs: map[string][]string{}, Victim: -1}
	g := genCrashCase(r.Fork(), i)
	c.Txs = g.Txs
	if r.Chance(3, 4) {
		c.Victim = r.Intn(4)
		c.CrashBlock = int64(2 + r.Intn(2))
		c.CrashAt = 1 + r.Intn(40)
	}
	return c
}

func freePorts(n int) []int {
	var ls []net.Listener
	var ps []int
	for i := 0; i < n; i++ {
		l, err := net.Listen("tcp", "127.0.0.1:0")
		if err != nil {
			continue
		}
		ls = append(ls, l)
		ps = append(ps, l.Addr().(*net.TCPAddr).Port)
	}
	for _, l := range ls {
		l.Close()
	}
	return ps
}

func runNetCase(idx int, c *netCase) (string, []MonitorHit, map[string]int, bool) {
	dist := map[string]int{}
	var hits []MonitorHit
	var hmtx sync.Mutex
	hit := func(sig, what string) {
		hmtx.Lock()
		hits = append(hits, MonitorHit{Case: idx, Sig: sig, What: what})
		hmtx.Unlock()
	}
	root, _ := ioutil.TempDir("", "annverif-net")
	defer func() {
		if len(hits) > 0 && os.Getenv("VERIF_KEEP") != "" {
			fmt.Fprintf(os.Stderr, "KEPT %s for case %d\n", root, idx)
			return
		}
		os.RemoveAll(root)
	}()
	const n = 4
	ports := freePorts(n)
	if len(ports) < n {
		hit("harness-error", "no free ports")
		return "(9)", hits, dist, false
	}
	// genesis with the four validators
	gd := &types.GenesisDoc{ChainID: "verif-chain", Plugins: "adminOp,querycache"}
	secrets := make([]string, n)
	for i := 0; i < n; i++ {
		secrets[i] = fmt.Sprintf("net-val-%d-%d", c.Seed, i)
		pk := crypto.GenPrivKeyEd25519FromSecret([]byte(secrets[i]))
		gd.Validators = append(gd.Validators, types.GenesisValidator{PubKey: pk.PubKey(), Amount: 10, IsCA: true})
	}
	gfile := root + "/genesis.json"
	gd.SaveAs(gfile)
	seedsFor := func(i int) string {
		var s []string
		for j := 0; j < n; j++ {
			if j != i {
				s = append(s, fmt.Sprintf("127.0.0.1:%d", ports[j]))
			}
		}
		return joinComma(s)
	}
	type result struct {
		run childRun
	}
	results := make([]childRun, n)
	var wg sync.WaitGroup
	limit := 40000
	for i := 0; i < n; i++ {
		wg.Add(1)
		go func(i int) {
			defer wg.Done()
			dir := fmt.Sprintf("%s/node%d", root, i)
			sc := &nodeScript{Target: c.Target, TimeoutMS: limit}
			if i == 0 {
				sc.TxsAtHeight = c.Txs
			}
			var waits []string
			for j := 0; j < n; j++ {
				waits = append(waits, fmt.Sprintf("%s/reached%d", root, j))
			}
			extra := []string{"--genesis", gfile, "--key-secret", secrets[i], "--p2p-port", fmt.Sprint(ports[i]), "--seeds", seedsFor(i),
				"--reached-file", waits[i], "--wait-files", joinComma(waits)}
			var env []string
			if i == c.Victim {
				env = []string{fmt.Sprintf("VERIF_CRASH_ARM=gdb:set:H:%d", c.CrashBlock), fmt.Sprintf("VERIF_CRASH_AT=%d", c.CrashAt)}
			}
			r1 := runChildArgs(dir, sc, env, extra)
			if i == c.Victim && r1.exit == 77 {
				dist["victim-died"]++
				// back at once, undisturbed
				r2 := runChildArgs(dir, sc, nil, extra)
				for h, x := range r1.blocks {
					if y, ok := r2.blocks[h]; ok && x != y {
						hit("block-changed-after-crash", fmt.Sprintf("validator %d height %d: %s before, %s after", i, h, x, y))
					}
				}
				if r2.report == nil || !r2.report.Started {
					hit("node-does-not-recover at=start", fmt.Sprintf("validator %d killed before write %d of the commit of block %d: exit %d %s", i, c.CrashAt, c.CrashBlock, r2.exit, tailOf(r2.tail, 1200)))
				}
				results[i] = r2
				return
			}
			results[i] = r1
		}(i)
	}
	wg.Wait()
	ctx := fmt.Sprintf("4 validators, target height %d, victim %d (write %d of block %d)", c.Target, c.Victim, c.CrashAt, c.CrashBlock)
	// liveness: everybody reaches the target
	for i, r := range results {
		if r.report == nil {
			hit("node-died", fmt.Sprintf("%s: validator %d ended without a report (exit %d): %s", ctx, i, r.exit, tailOf(r.tail, 1500)))
			continue
		}
		if r.report.Height < c.Target {
			hit("network-does-not-progress", fmt.Sprintf("%s: validator %d reached height %d within %d ms", ctx, i, r.report.Height, limit))
		}
	}
	// agreement: the same block at every height on every node
	ref := map[int64]string{}
	for i, r := range results {
		for h, x := range r.blocks {
			if y, ok := ref[h]; ok && y != x {
				hit("fork", fmt.Sprintf("%s: height %d is %s on one validator and %s on validator %d", ctx, h, y, x, i))
			}
			ref[h] = x
		}
	}
	// the chain re-executes to the hashes it records
	applied := 0
	for i, r := range results {
		if r.report == nil || len(r.report.Wire) == 0 {
			continue
		}
		adir, _ := ioutil.TempDir("", "annverif-net-app")
		app, err := openApp(adir)
		if err != nil {
			os.RemoveAll(adir)
			continue
		}
		var prev *types.Block
		var prevOut blockOutcome
		for _, w := range r.report.Wire {
			var k int
			var derr error
			b := wire.ReadBinary(&types.Block{}, bytes.NewReader(unhex(w)), 0, &k, &derr).(*types.Block)
			if derr != nil {
				break
			}
			if prev != nil {
				if !bytes.Equal(b.Header.AppHash, prevOut.app) {
					hit("recorded-hash-not-reproduced kind=app-hash", fmt.Sprintf("%s: validator %d block %d records %x for block %d, re-execution gives %x", ctx, i, b.Height, b.Header.AppHash, prev.Height, prevOut.app))
				} else if !bytes.Equal(b.Header.ReceiptsHash, prevOut.rcpt) {
					hit("recorded-hash-not-reproduced kind=receipts-hash", fmt.Sprintf("%s: validator %d block %d records %x for block %d, re-execution gives %x", ctx, i, b.Height, b.Header.ReceiptsHash, prev.Height, prevOut.rcpt))
				}
			}
			prevOut = execBlock(app, b)
			if prevOut.panic != "" {
				hit("re-execution-failed", prevOut.panic)
				break
			}
			applied += len(prevOut.valid)
			prev = b
		}
		catchPanic(func() { app.Stop() })
		os.RemoveAll(adir)
		break // one validator's copy is enough: the chains are compared above
	}
	dist[fmt.Sprintf("victim=%v", c.Victim >= 0)]++
	dist[fmt.Sprintf("txs-applied=%d", applied/3*3)]++
	return sxL(sxU(c.Seed), sxZ(int64(applied))), hits, dist, applied > 0
}

func joinComma(s []string) string {
	out := ""
	for i, x := range s {
		if i > 0 {
			out += ","
		}
		out += x
	}
	return out
}

func init() {
	engines["netrun"] = func(args []string) error {
		genericParallel = 4
		defer func() { genericParallel = 1 }()
		return runGenericEngine("netrun",
			"case = four complete validator nodes (child processes: Angine with all reactors and goroutines, loopback TCP, EVM application, LevelDB, WAL, signer file; equal power) dialling each other; transactions offered to one of them; in three quarters of the cases one validator exits inside a failpoint before the k-th durable write (k = 1..40) counted from the first block-store write of block 2 or 3 and is started again at once; target height 5..7 within 40 s; checked: every validator reaches the target, the same block hash at every height on all of them, a killed validator starts again with its earlier blocks unchanged, the chain re-executes on a fresh application to the app and receipts hashes it records; no model (monitors only); distinct = case line; non-trivial = the chain holds applied transactions",
			args,
			func(r *Rng, i int) interface{} { return genNetCase(r, i) },
			func(f string) (interface{}, error) {
				var c netCase
				if err := readCase(f, &c); err != nil {
					return nil, err
				}
				return &c, nil
			},
			func(i int, ci interface{}, out string) (string, []MonitorHit, map[string]int, bool) {
				return runNetCase(i, ci.(*netCase))
			})
	}
}
