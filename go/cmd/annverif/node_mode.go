package main

// Sub-command "node": a complete AnnChain node (chain/core.Node = Angine + EVM application) on a
// runtime directory, in this process.  The crash engine (C06) runs it as a child process: the child
// initialises the directory if needed, starts the node, feeds it the transactions of a script,
// waits until a target height and prints one JSON line describing what it sees (heights, hashes,
// nonces).  With failpoints armed (environment VERIF_CRASH_AT=<k>) the child exits abruptly before
// its k-th durable write.

import (
	"strconv"
	"strings"
	"encoding/json"
	"flag"
	"fmt"
	"io/ioutil"
	"os"
	"path/filepath"
	"time"

	"github.com/spf13/viper"

	"github.com/dappledger/AnnChain/chain/core"
	rtypes "github.com/dappledger/AnnChain/chain/types"
	"github.com/dappledger/AnnChain/eth/rlp"
	"github.com/dappledger/AnnChain/gemmill"
	"github.com/dappledger/AnnChain/gemmill/config"
	crypto "github.com/dappledger/AnnChain/gemmill/go-crypto"
	"github.com/dappledger/AnnChain/gemmill/blockchain"
	"github.com/dappledger/AnnChain/gemmill/go-wire"
	dbm "github.com/dappledger/AnnChain/gemmill/modules/go-db"
	sm "github.com/dappledger/AnnChain/gemmill/state"
)

type nodeScript struct {
	// transactions (hex) to submit once the node has reached the height that is the key
	TxsAtHeight map[string][]string `json:"txs_at_height"`
	Target      int64               `json:"target"` // stop when this height is committed
	TimeoutMS   int                 `json:"timeout_ms"`
}

type nodeReport struct {
	Started     bool     `json:"started"`
	Error       string   `json:"error,omitempty"`
	Height      int64    `json:"height"`       // block store
	StateHeight int64    `json:"state_height"` // via GetValidators height / consensus
	AppHeight   int64    `json:"app_height"`
	AppHash     string   `json:"app_hash"`
	Blocks      []string `json:"blocks"` // per height: hash|apphash|receiptshash|numtxs
	Wire        []string `json:"wire"`   // per height: the block's wire bytes
	Nonces      []uint64 `json:"nonces"`
	Submitted   int      `json:"submitted"`
}

func nodeConf(dir string) *viper.Viper {
	conf := config.DefaultConfig()
	conf.Set("app_name", "evm")
	conf.Set("p2p_laddr", "tcp://127.0.0.1:0")
	conf.Set("rpc_laddr", "")
	conf.Set("auth_by_ca", false)
	conf.Set("non_validator_node_auth", false)
	conf.Set("fast_sync", false)
	conf.Set("pex_reactor", false)
	conf.Set("log_path", filepath.Join(dir, "node.log"))
	conf.Set("audit_log_path", filepath.Join(dir, "audit.log"))
	conf.Set("environment", "production")
	conf.Set("timeout_propose", 400)
	conf.Set("timeout_propose_delta", 50)
	conf.Set("timeout_prevote", 100)
	conf.Set("timeout_prevote_delta", 50)
	conf.Set("timeout_precommit", 100)
	conf.Set("timeout_precommit_delta", 50)
	conf.Set("timeout_commit", 30)
	conf.Set("skip_timeout_commit", false)
	conf.Set("block_size", 100)
	return conf
}

func runNodeMode(args []string) error {
	fs := flag.NewFlagSet("node", flag.ExitOnError)
	dir := fs.String("dir", "", "runtime directory")
	scriptFile := fs.String("script", "", "JSON script")
	genesisFile := fs.String("genesis", "", "genesis file to install instead of the generated one")
	fastSync := fs.Bool("fastsync", false, "start in fast-sync mode")
	peerTimeout := fs.Int("peer-timeout", 0, "block pool peer timeout in seconds (0: leave the default)")
	keySecret := fs.String("key-secret", "", "derive the node's validator key from this secret instead of generating one")
	p2pPort := fs.Int("p2p-port", 0, "listen on this port (0: any)")
	seeds := fs.String("seeds", "", "comma-separated addresses to dial")
	reachedFile := fs.String("reached-file", "", "create this file when the target height is reached")
	waitFiles := fs.String("wait-files", "", "then keep running until all these files exist (comma-separated)")
	pex := fs.Bool("pex", false, "run the peer-exchange reactor")
	stopFile := fs.String("stop-file", "", "stop in order as soon as this file exists (the report then omits the blocks' bytes)")
	fs.Parse(args)
	if *peerTimeout > 0 {
		blockchain.VerifSetPeerTimeout(*peerTimeout)
	}
	var sc nodeScript
	if *scriptFile != "" {
		if err := readJSON(*scriptFile, &sc); err != nil {
			return err
		}
	}
	if sc.TimeoutMS == 0 {
		sc.TimeoutMS = 20000
	}
	rep := nodeReport{}
	emit := func() {
		bs, _ := json.Marshal(rep)
		fmt.Println("NODE-REPORT " + string(bs))
	}
	os.MkdirAll(*dir, 0700)
	conf := nodeConf(*dir)
	if *p2pPort > 0 {
		conf.Set("p2p_laddr", fmt.Sprintf("tcp://127.0.0.1:%d", *p2pPort))
	}
	if _, err := os.Stat(filepath.Join(*dir, "genesis.json")); err != nil {
		crypto.NodeInit(crypto.CryptoType)
		if *keySecret != "" {
			conf.Set("gen_privkey", crypto.GenPrivKeyEd25519FromSecret([]byte(*keySecret)))
		}
		if err := config.InitRuntime(*dir, "verif-chain", conf); err != nil {
			rep.Error = "init: " + err.Error()
			emit()
			return nil
		}
		conf = nodeConf(*dir)
		if *p2pPort > 0 {
			conf.Set("p2p_laddr", fmt.Sprintf("tcp://127.0.0.1:%d", *p2pPort))
		}
		if *genesisFile != "" {
			bs, err := ioutil.ReadFile(*genesisFile)
			if err == nil {
				err = ioutil.WriteFile(filepath.Join(*dir, "genesis.json"), bs, 0644)
			}
			if err != nil {
				rep.Error = "genesis: " + err.Error()
				emit()
				return nil
			}
		}
	}
	conf.Set("fast_sync", *fastSync)
	conf.Set("seeds", *seeds)
	conf.Set("pex_reactor", *pex)
	config.SetDefaults(*dir, conf)
	node, err := core.NewNode(conf, *dir, "evm")
	if err != nil {
		rep.Error = "new node: " + err.Error()
		emit()
		return nil
	}
	{
		sh, _ := node.Angine.GetValidators()
		info := node.Application.Info()
		fmt.Printf("NODE-RECOVERED store=%d state=%d app=%d\n", node.Angine.Height(), sh, info.LastBlockHeight)
		fmt.Printf("NODE-LISTEN 127.0.0.1:%d\n", node.Angine.P2PPort())
	}
	if ms, _ := strconv.Atoi(os.Getenv("VERIF_FASTSYNC_PAUSE_MS")); ms > 0 {
		// widen the gap between the commit check of a block and its removal from the pool
		if bcR := node.Angine.VerifBlockchainReactor(); bcR != nil {
			bcR.VerifAfterVerify(func(h int64) {
				fmt.Printf("NODE-VERIFIED %d\n", h)
				time.Sleep(time.Duration(ms) * time.Millisecond)
			})
		}
	}
	if err := node.Start(); err != nil {
		rep.Error = "start: " + err.Error()
		emit()
		return nil
	}
	rep.Started = true
	deadline := time.Now().Add(time.Duration(sc.TimeoutMS) * time.Millisecond)
	done := map[string]bool{}
	seen := int64(0)
	for time.Now().Before(deadline) {
		h := node.Angine.Height()
		for seen < h {
			seen++
			if b, _, err := node.Angine.GetBlock(seen); err == nil && b != nil {
				fmt.Printf("NODE-BLOCK %d %x\n", seen, b.Hash())
			}
		}
		for k, txs := range sc.TxsAtHeight {
			var at int64
			fmt.Sscan(k, &at)
			if h >= at && !done[k] {
				done[k] = true
				for _, t := range txs {
					if err := node.Angine.BroadcastTx(unhex(t)); err == nil {
						rep.Submitted++
					}
				}
			}
		}
		if *stopFile != "" {
			if _, err := os.Stat(*stopFile); err == nil {
				break
			}
		}
		if h >= sc.Target {
			if *reachedFile != "" {
				ioutil.WriteFile(*reachedFile, []byte("reached"), 0644)
			}
			all := true
			for _, f := range strings.Split(*waitFiles, ",") {
				if f != "" {
					if _, err := os.Stat(f); err != nil {
						all = false
					}
				}
			}
			if all {
				break
			}
		}
		time.Sleep(10 * time.Millisecond)
	}
	// let a commit in flight finish, so that the three heights are read between two commits
	time.Sleep(5 * time.Millisecond)
	rep.Height = node.Angine.Height()
	rep.StateHeight, _ = node.Angine.GetValidators()
	info := node.Application.Info()
	rep.AppHeight = info.LastBlockHeight
	rep.AppHash = hexs(info.LastBlockAppHash)
	for h := int64(1); h <= rep.Height; h++ {
		b, _, err := node.Angine.GetBlock(h)
		if err != nil || b == nil {
			rep.Blocks = append(rep.Blocks, fmt.Sprintf("%d:unreadable", h))
			continue
		}
		rep.Blocks = append(rep.Blocks, fmt.Sprintf("%d:%x|%x|%x|%d", h, b.Hash(), b.Header.AppHash, b.Header.ReceiptsHash, len(b.Data.Txs)))
		if *stopFile == "" {
			rep.Wire = append(rep.Wire, hexs(wire.BinaryBytes(b)))
		}
	}
	for i := 0; i < 3; i++ {
		a := appAddr(i)
		q := node.Application.Query(append([]byte{byte(rtypes.QueryType_Nonce)}, a[:]...))
		var n uint64
		rlp.DecodeBytes(q.Data, &n)
		rep.Nonces = append(rep.Nonces, n)
	}
	emit()
	node.Stop()
	return nil
}

var _ = gemmill.Initialize
var _ = ioutil.ReadFile

func init() {
	engines["node"] = runNodeMode
}

// sub-command "inspect": what the databases of a runtime directory hold, read without starting anything
func runInspect(args []string) error {
	fs := flag.NewFlagSet("inspect", flag.ExitOnError)
	dir := fs.String("dir", "", "runtime directory")
	fs.Parse(args)
	data := filepath.Join(*dir, "data")
	sdb := dbm.NewDB("state", "leveldb", data)
	st := sm.LoadState(sdb)
	if st != nil {
		fmt.Printf("state: height=%d apphash=%x receipts=%x lastblockid=%x\n", st.LastBlockHeight, st.AppHash, st.ReceiptsHash, st.LastBlockID.Hash)
	}
	bdb := dbm.NewDB("blockstore", "leveldb", data)
	bs := blockchain.NewBlockStore(bdb, nil)
	fmt.Printf("store: height=%d\n", bs.Height())
	for h := int64(1); h <= bs.Height()+1; h++ {
		if m := bs.LoadBlockMeta(h); m != nil {
			fmt.Printf("  block %d hash=%x apphash=%x seen-commit=%v\n", h, m.Hash, m.Header.AppHash, bs.LoadSeenCommit(h) != nil)
		}
	}
	adb := dbm.NewDB("evm", "leveldb", data)
	fmt.Printf("app lastblock raw=%x\n", adb.Get([]byte("lastblock")))
	return nil
}

func init() { engines["inspect"] = runInspect }
