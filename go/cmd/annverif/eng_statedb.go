package main

// Engine "statedb" (C11): operation histories on the in-tree eth/core/state.StateDB - writes of
// nonce, balance and storage with get-or-create, CreateAccount, Suicide, nested Snapshot /
// RevertToSnapshot, Finalise, IntermediateRoot, Commit followed by reopening at the root with
// fresh caches - in lockstep with the reference go-ethereum v1.8.27 StateDB (roots) and with
// Model/StateDB.v (what every reader sees after every operation).

import (
	"fmt"
	"math/big"
	"sort"
	"strings"

	"github.com/dappledger/AnnChain/eth/common"
	"github.com/dappledger/AnnChain/eth/core/state"
	"github.com/dappledger/AnnChain/eth/ethdb"
)

type sdbOp struct {
	Op string `json:"op"` // nonce bal state suicide create snap revert finalise root commit, and finalise0 root0 commit0 (deleteEmptyObjects = false)
	A  int    `json:"a"`
	K  int    `json:"k,omitempty"`
	V  int64  `json:"v,omitempty"`
	ID int    `json:"id,omitempty"` // revert: which of the currently valid snapshots, counted from the oldest
}
type sdbCase struct {
	Ops []sdbOp `json:"ops"`
}

func genSdbCase(r *Rng, i int) *sdbCase {
	c := &sdbCase{}
	n := 8 + r.Intn(40)
	valid := 0
	// one StateDB object (from open to the commit that reopens it) settles with one deleteEmptyObjects
	// flag, as a chain does: false for genesis and pre-EIP-158 callers (empty accounts are kept and
	// written), true otherwise; the flag may change from one lifetime to the next
	keep := r.Chance(1, 4)
	settle := func(op string) string {
		if keep {
			return op + "0"
		}
		return op
	}
	for j := 0; j < n; j++ {
		a := r.Intn(3)
		if r.Chance(1, 12) {
			// one slot through every combination of committed value (none, some), pending write before
			// a snapshot (none, clear, other value), writes after the snapshot, and a revert to it:
			// what the journal puts back must be what was visible at the snapshot, pending clears included
			k := r.Intn(3)
			if r.Bool() {
				o := []string{"finalise", "root", "commit"}[r.Intn(3)]
				c.Ops = append(c.Ops, sdbOp{Op: "state", A: a, K: k, V: int64(1 + r.Intn(2))}, sdbOp{Op: settle(o)})
				if o == "commit" {
					keep = r.Chance(1, 4)
				}
				valid = 0
			}
			switch r.Intn(3) {
			case 0:
				c.Ops = append(c.Ops, sdbOp{Op: "state", A: a, K: k, V: 0})
			case 1:
				c.Ops = append(c.Ops, sdbOp{Op: "state", A: a, K: k, V: int64(1 + r.Intn(2))})
			}
			c.Ops = append(c.Ops, sdbOp{Op: "snap"})
			valid++
			for w := 1 + r.Intn(2); w > 0; w-- {
				c.Ops = append(c.Ops, sdbOp{Op: "state", A: a, K: k, V: int64(r.Intn(3))})
			}
			c.Ops = append(c.Ops, sdbOp{Op: "revert", ID: valid - 1})
			valid--
			if r.Bool() {
				o := []string{"finalise", "root", "commit"}[r.Intn(3)]
				c.Ops = append(c.Ops, sdbOp{Op: settle(o)})
				if o == "commit" {
					keep = r.Chance(1, 4)
				}
				valid = 0
			}
			continue
		}
		switch x := r.Intn(40); {
		case x < 6:
			c.Ops = append(c.Ops, sdbOp{Op: "nonce", A: a, V: int64(r.Intn(3))})
		case x < 11:
			c.Ops = append(c.Ops, sdbOp{Op: "bal", A: a, V: int64(r.Intn(3))})
		case x < 22:
			// values 0 (clear), 1, 2: the same slot is set, cleared and set again
			c.Ops = append(c.Ops, sdbOp{Op: "state", A: a, K: r.Intn(3), V: int64(r.Intn(3))})
		case x < 24:
			c.Ops = append(c.Ops, sdbOp{Op: "suicide", A: a})
		case x < 26:
			c.Ops = append(c.Ops, sdbOp{Op: "create", A: a})
		case x < 30:
			c.Ops = append(c.Ops, sdbOp{Op: "snap"})
			valid++
		case x < 33:
			if valid > 0 {
				id := r.Intn(valid)
				c.Ops = append(c.Ops, sdbOp{Op: "revert", ID: id})
				valid = id
			}
		case x < 35:
			c.Ops = append(c.Ops, sdbOp{Op: settle("finalise")})
			valid = 0
		case x < 38:
			c.Ops = append(c.Ops, sdbOp{Op: settle("root")})
			valid = 0
		default:
			c.Ops = append(c.Ops, sdbOp{Op: settle("commit")})
			keep = r.Chance(1, 4)
			valid = 0
		}
	}
	c.Ops = append(c.Ops, sdbOp{Op: settle("commit")})
	return c
}

func sdbAddr(a int) common.Address {
	return common.BytesToAddress(append([]byte("verif-account-"), byte(a)))
}

func runSdbCase(idx int, c *sdbCase) (string, []MonitorHit, map[string]int, bool) {
	dist := map[string]int{}
	var hits []MonitorHit
	hit := func(sig, what string) { hits = append(hits, MonitorHit{Case: idx, Sig: sig, What: what}) }
	ref := func(cmd string, a int, val []byte) string {
		out, err := refCall(map[string]string{"cmd": cmd, "key": hexs([]byte{byte(a)}), "value": hexs(val)})
		if err != "" {
			hit("reference-error", cmd+": "+err)
		}
		return out
	}
	disk := ethdb.NewMemDatabase()
	sdb, _ := state.New(common.Hash{}, state.NewDatabase(disk))
	ref("sdb-new", 0, nil)
	var snaps []int // valid snapshot ids, oldest first
	rootOf := map[string]string{}
	reads := func() (string, string) {
		var rs, key []string
		for a := 0; a < 3; a++ {
			ad := sdbAddr(a)
			ex := sdb.Exist(ad)
			var st []string
			for k := 0; k < 3; k++ {
				v := sdb.GetState(ad, common.BytesToHash([]byte{byte(k)}))
				st = append(st, sxU(new(big.Int).SetBytes(v[:]).Uint64()))
			}
			rs = append(rs, sxL(sxBool(ex), sxU(sdb.GetNonce(ad)), sxU(sdb.GetBalance(ad).Uint64()), sxL(st...)))
			key = append(key, fmt.Sprintf("%v/%d/%v/%v", ex, sdb.GetNonce(ad), sdb.GetBalance(ad), st))
		}
		return sxL(rs...), strings.Join(key, ";")
	}
	var steps []string
	writes := 0
	for _, op := range c.Ops {
		dist["op="+op.Op]++
		ad := sdbAddr(op.A)
		var code string
		panicked, msg := catchPanic(func() {
			switch op.Op {
			case "nonce":
				sdb.SetNonce(ad, uint64(op.V))
				ref("sdb-setnonce", op.A, big.NewInt(op.V).Bytes())
				code = sxL("0", sxZ(int64(op.A)), sxZ(op.V))
				writes++
			case "bal":
				sdb.AddBalance(ad, big.NewInt(op.V))
				ref("sdb-addbal", op.A, big.NewInt(op.V).Bytes())
				code = sxL("1", sxZ(int64(op.A)), sxZ(op.V))
				writes++
			case "state":
				sdb.SetState(ad, common.BytesToHash([]byte{byte(op.K)}), common.BigToHash(big.NewInt(op.V)))
				ref("sdb-setstate", op.A, append([]byte{byte(op.K)}, big.NewInt(op.V).Bytes()...))
				code = sxL("2", sxZ(int64(op.A)), sxZ(int64(op.K)), sxZ(op.V))
				writes++
			case "suicide":
				sdb.Suicide(ad)
				ref("sdb-suicide", op.A, nil)
				code = sxL("3", sxZ(int64(op.A)))
			case "create":
				// as the EVM does under EIP-158: a created account is written to at once (CreateAccount
				// over an existing account does not by itself mark it dirty - upstream behaviour)
				sdb.CreateAccount(ad)
				ref("sdb-create", op.A, nil)
				rd0, _ := reads()
				steps = append(steps, sxL(sxL("4", sxZ(int64(op.A))), rd0))
				sdb.SetNonce(ad, 1)
				ref("sdb-setnonce", op.A, big.NewInt(1).Bytes())
				code = sxL("0", sxZ(int64(op.A)), sxZ(1))
			case "snap":
				id := sdb.Snapshot()
				rid := ref("sdb-snapshot", 0, nil)
				if fmt.Sprint(id) != rid {
					hit("statedb-differs-from-reference op=snapshot", fmt.Sprintf("id %d vs %s", id, rid))
				}
				snaps = append(snaps, id)
				code = sxL("5", sxZ(int64(id)))
			case "revert":
				if op.ID >= len(snaps) {
					code = "(9)"
					return
				}
				id := snaps[op.ID]
				sdb.RevertToSnapshot(id)
				ref("sdb-revert", 0, big.NewInt(int64(id)).Bytes())
				snaps = snaps[:op.ID]
				code = sxL("6", sxZ(int64(id)))
			case "finalise":
				sdb.Finalise(true)
				ref("sdb-finalise", 0, nil)
				snaps = nil
				code = sxL("7")
			case "finalise0":
				sdb.Finalise(false)
				ref("sdb-finalise0", 0, nil)
				snaps = nil
				code = sxL("a")
			case "root", "root0":
				root := sdb.IntermediateRoot(op.Op == "root")
				rroot := ref("sdb-"+op.Op, 0, nil)
				if hexs(root[:]) != rroot {
					hit("statedb-differs-from-reference op=root", fmt.Sprintf("%x vs %s", root, rroot))
				}
				snaps = nil
				code = sxL("7")
				if op.Op == "root0" {
					code = sxL("a")
				}
				_, ck := reads()
				if old, ok := rootOf[ck]; ok && old != hexs(root[:]) {
					hit("state-root-depends-on-history", fmt.Sprintf("content %s has roots %s and %x", ck, old, root))
				}
				rootOf[ck] = hexs(root[:])
			case "commit", "commit0":
				del := op.Op == "commit"
				sdb.IntermediateRoot(del) // finalises: from here on a reader's view must survive commit and reopen
				_, before := reads()
				root, err := sdb.Commit(del)
				if err != nil {
					hit("statedb-commit-error", err.Error())
				}
				rcmd := "sdb-commit"
				if !del {
					rcmd = "sdb-commit0"
				}
				rroot := ref(rcmd, 0, nil)
				if hexs(root[:]) != rroot {
					hit("statedb-differs-from-reference op=commit", fmt.Sprintf("%x vs %s", root, rroot))
				}
				sdb.Database().TrieDB().Commit(root, false)
				nsdb, err := state.New(root, state.NewDatabase(disk))
				if err != nil {
					hit("statedb-reopen-failed", err.Error())
					return
				}
				sdb = nsdb
				snaps = nil
				code = sxL("8")
				if !del {
					code = sxL("b")
				}
				_, after := reads()
				if old, ok := rootOf[after]; ok && old != hexs(root[:]) {
					hit("state-root-depends-on-history", fmt.Sprintf("content %s has roots %s and %x", after, old, root))
				}
				rootOf[after] = hexs(root[:])
				if before != after {
					hit("reopen-changes-content", fmt.Sprintf("before commit %s, reopened at the committed root %s", before, after))
				}
			}
		})
		if panicked {
			hit("statedb-panic op="+op.Op, msg)
			code = "(9)"
		}
		rd, _ := reads()
		steps = append(steps, sxL(code, rd))
	}
	var ks []string
	for k := range dist {
		ks = append(ks, k)
	}
	sort.Strings(ks)
	return sxL(steps...), hits, dist, writes >= 4
}

func init() {
	engines["statedb"] = func(args []string) error {
		return runGenericEngine("statedb",
			"case = 8..48 operations on one in-tree StateDB over three accounts and three storage slots each: SetNonce, AddBalance (zero amounts included: touch), SetState with values 0/1/2 (set, clear, set again), Suicide, CreateAccount, Snapshot, RevertToSnapshot to any valid snapshot (nested), Finalise(true), IntermediateRoot(true), Commit followed by reopening at the committed root with fresh caches; the same history runs on the reference go-ethereum v1.8.27 StateDB (snapshot ids and every root compared); after every operation existence, nonce, balance and all nine slots are read and compared with the model; monitors: equal visible content must give equal roots within a case, reopen must not fail; distinct = case line; non-trivial = at least four writes; one operation in twelve is a directed journal sequence on one slot (optionally a committed value, optionally a pending clear or write, a snapshot, one or two writes, the revert to that snapshot, optionally a settle); every lifetime of the StateDB object (from open to the commit that reopens it) settles with one deleteEmptyObjects flag - true, or in a quarter of the lifetimes false, where empty accounts are kept and written to the trie - so that later lifetimes meet committed empty accounts",
			args,
			func(r *Rng, i int) interface{} { return genSdbCase(r, i) },
			func(f string) (interface{}, error) {
				var c sdbCase
				if err := readCase(f, &c); err != nil {
					return nil, err
				}
				return &c, nil
			},
			func(i int, ci interface{}, out string) (string, []MonitorHit, map[string]int, bool) {
				return runSdbCase(i, ci.(*sdbCase))
			})
	}
}
