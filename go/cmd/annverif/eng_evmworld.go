package main

// Engine "evmworld" (C10): one message call into a world of three contracts whose generated
// programs call each other (CALL, CALLCODE, DELEGATECALL, STATICCALL; with value, to accounts with
// and without code, with more value than there is) and ask about other accounts (BALANCE,
// EXTCODESIZE, EXTCODECOPY, RETURNDATASIZE/COPY), executed by the in-tree interpreter and compared
// with Model/EvmWorld.v: outcome class, return data, and afterwards the nonce, balance and every
// storage slot ever addressed of every account of the case, and the logs with their addresses.
// The reference go-ethereum interpreter runs the same request (state root and logs hash).

import (
	"encoding/hex"
	"fmt"
	"math/big"
	"sort"
	"time"

	"github.com/dappledger/AnnChain/eth/common"
	"github.com/dappledger/AnnChain/eth/core/state"
	"github.com/dappledger/AnnChain/eth/core/vm"
	"github.com/dappledger/AnnChain/eth/crypto"
	"github.com/dappledger/AnnChain/eth/ethdb"
	"github.com/dappledger/AnnChain/eth/rlp"
)

// worldTracer remembers, per account, every storage key an SSTORE addressed
type worldTracer struct {
	keys map[common.Address]map[common.Hash]bool
	oog  bool // some frame ran out of gas (or could not pay for memory): what follows depends on how gas is metered
}

func (t *worldTracer) note(a common.Address, k common.Hash) {
	if t.keys[a] == nil {
		t.keys[a] = map[common.Hash]bool{}
	}
	t.keys[a][k] = true
}
func (t *worldTracer) CaptureStart(from common.Address, to common.Address, call bool, input []byte, gas uint64, value *big.Int) error {
	return nil
}
func (t *worldTracer) CaptureState(env *vm.EVM, pc uint64, op vm.OpCode, gas, cost uint64, memory *vm.Memory, stack *vm.Stack, contract *vm.Contract, depth int, err error) error {
	if err == vm.ErrOutOfGas || err == vm.ErrCodeStoreOutOfGas {
		t.oog = true
	}
	if op == vm.SSTORE && len(stack.Data()) >= 2 {
		t.note(contract.Address(), common.BigToHash(stack.Back(0)))
	}
	return nil
}
func (t *worldTracer) CaptureFault(env *vm.EVM, pc uint64, op vm.OpCode, gas, cost uint64, memory *vm.Memory, stack *vm.Stack, contract *vm.Contract, depth int, err error) error {
	if err == vm.ErrOutOfGas || err == vm.ErrCodeStoreOutOfGas {
		t.oog = true
	}
	return nil
}
func (t *worldTracer) CaptureEnd(output []byte, gasUsed uint64, d time.Duration, err error) error { return nil }

type worldObs struct {
	innerOog bool
	cls   int
	ret   []byte
	accs  []string
	logs  []string
	root  string
	logsH string
	panic string
}

var worldUniverse = []string{contractAddrs[0], contractAddrs[1], contractAddrs[2],
	"0x00000000000000000000000000000000000000aa", "0x00000000000000000000000000000000000000bb", "0x000000000000000000000000000000000000dead"}

func runWorldInTree(q *evmReq) (o worldObs) {
	defer func() {
		if p := recover(); p != nil {
			o.cls = 9
			o.panic = fmt.Sprint(p)
		}
	}()
	st, _ := state.New(common.Hash{}, state.NewDatabase(ethdb.NewMemDatabase()))
	tr := &worldTracer{keys: map[common.Address]map[common.Hash]bool{}}
	for _, a := range q.Accounts {
		addr := common.HexToAddress(a.Addr)
		st.CreateAccount(addr)
		st.SetCode(addr, unhex(a.Code))
		b, _ := new(big.Int).SetString(a.Balance, 10)
		st.SetBalance(addr, b)
		st.SetNonce(addr, a.Nonce)
		for _, kv := range a.Storage {
			st.SetState(addr, common.HexToHash(kv[0]), common.HexToHash(kv[1]))
			tr.note(addr, common.HexToHash(kv[0]))
		}
	}
	st.Commit(false)
	val, _ := new(big.Int).SetString(q.Value, 10)
	origin := common.HexToAddress(q.Origin)
	ctx := vm.Context{
		CanTransfer: func(db vm.StateDB, addr common.Address, amount *big.Int) bool { return db.GetBalance(addr).Cmp(amount) >= 0 },
		Transfer: func(db vm.StateDB, sender, recipient common.Address, amount *big.Int) {
			db.SubBalance(sender, amount)
			db.AddBalance(recipient, amount)
		},
		GetHash: func(n uint64) common.Hash {
			return common.BytesToHash(crypto.Keccak256([]byte(new(big.Int).SetUint64(n).String())))
		},
		Origin: origin, Coinbase: common.HexToAddress("0xc0ffee"), BlockNumber: new(big.Int).SetUint64(q.Number),
		Time: new(big.Int).SetUint64(q.Time), Difficulty: big.NewInt(7), GasLimit: q.Gas, GasPrice: new(big.Int),
	}
	env := vm.NewEVM(ctx, st, inAllForks(), vm.Config{EVMGasLimit: q.Gas, Debug: true, Tracer: tr})
	sender := st.GetOrNewStateObject(origin)
	ret, _, err := env.Call(sender, common.HexToAddress(q.Callee), unhex(q.Input), q.Gas, val)
	if err != nil {
		switch err {
		case vm.ErrOutOfGas, vm.ErrCodeStoreOutOfGas:
			o.cls = 3
		default:
			if err.Error() == "evm: execution reverted" {
				o.cls = 1
			} else {
				o.cls = 2
			}
		}
	}
	o.ret = ret
	o.innerOog = tr.oog
	root, _ := st.Commit(true)
	o.root = hex.EncodeToString(root[:])
	// every account of the final state (created ones included), and the universe of the case
	seen := map[common.Address]bool{}
	var addrs []common.Address
	for _, as := range worldUniverse {
		a := common.HexToAddress(as)
		if !seen[a] {
			seen[a] = true
			addrs = append(addrs, a)
		}
	}
	var extra []string
	for as := range st.RawDump().Accounts {
		extra = append(extra, as)
	}
	sort.Strings(extra)
	for _, as := range extra {
		a := common.HexToAddress(as)
		if !seen[a] {
			seen[a] = true
			addrs = append(addrs, a)
		}
	}
	for _, addr := range addrs {
		var ks []*big.Int
		for k := range tr.keys[addr] {
			ks = append(ks, new(big.Int).SetBytes(k[:]))
		}
		sort.Slice(ks, func(i, j int) bool { return ks[i].Cmp(ks[j]) < 0 })
		var kvs [][2]*big.Int
		for _, k := range ks {
			v := st.GetState(addr, common.BigToHash(k))
			if (v != common.Hash{}) {
				kvs = append(kvs, [2]*big.Int{k, new(big.Int).SetBytes(v[:])})
			}
		}
		o.accs = append(o.accs, sxL(addr.Big().Text(16), sxU(st.GetNonce(addr)), st.GetBalance(addr).Text(16), sxB(st.GetCode(addr)), bigsSx(kvs)))
	}
	for _, l := range st.Logs() {
		ts := make([]string, len(l.Topics))
		for i, t := range l.Topics {
			ts[i] = new(big.Int).SetBytes(t[:]).Text(16)
		}
		o.logs = append(o.logs, sxL(l.Address.Big().Text(16), sxL(ts...), sxB(l.Data)))
	}
	lb, _ := rlp.EncodeToBytes(st.Logs())
	o.logsH = hex.EncodeToString(crypto.Keccak256(lb))
	return o
}

func init() {
	engines["evmworld"] = func(args []string) error {
		return runGenericEngine("evmworld",
			"case = one message call (with call data and value) into a world of three contracts with generated programs (the gadgets of engine evmcore plus: CALL, CALLCODE, DELEGATECALL and STATICCALL to contracts further down the order, to accounts without code, to an absent account and to the origin, with zero, small and unaffordable values, with dirt above the 160 address bits, return areas of 0..69 bytes, the flag stored, RETURNDATASIZE, RETURNDATACOPY within and beyond the returned data; BALANCE, EXTCODESIZE and EXTCODECOPY of every account of the case), pre-existing storage, balances and nonces, two accounts without code, under a gas budget of ten million; executed by the in-tree interpreter (observed: outcome class, return data, and afterwards nonce, balance and every storage slot ever addressed of every account, logs with address, topics and data) and compared with Model/EvmWorld.v (frames, world, revert of failed callees, static mode); the reference go-ethereum interpreter runs the same request (state root and logs hash must equal the in-tree ones unless a side ran out of gas); runs that end out of gas, or in which the model meets something it does not cover, are accepted unseen and counted; distinct = request; non-trivial = the top frame did not fail",
			args,
			func(r *Rng, i int) interface{} {
				var accs []evmAccount
				coreSmallGas = false
				for j := 0; j < 3; j++ {
					coreCallTargets = nil
					for k := j + 1; k < 3; k++ {
						coreCallTargets = append(coreCallTargets, contractAddrs[k])
					}
					coreAskTargets = worldUniverse
					code := genCoreProgram(r)
					ac := evmAccount{Addr: contractAddrs[j], Balance: fmt.Sprint(r.Intn(1000)), Nonce: 1, Code: hexs(code)}
					for k := 0; k < r.Intn(3); k++ {
						ac.Storage = append(ac.Storage, [2]string{fmt.Sprintf("0x%x", r.Intn(5)), "0x" + interestingWord(r).Text(16)})
					}
					accs = append(accs, ac)
				}
				coreCallTargets, coreAskTargets = nil, nil
				accs = append(accs, evmAccount{Addr: "0x00000000000000000000000000000000000000aa", Balance: "1000000", Nonce: 5},
					evmAccount{Addr: "0x00000000000000000000000000000000000000bb", Balance: "77", Nonce: 0})
				return &coreCase{SmallGas: coreSmallGas, Req: evmReq{Accounts: accs, Callee: contractAddrs[0], Input: hexs(r.Bytes(r.Intn(70))), Value: fmt.Sprint(r.Intn(3)),
					Origin: "0x00000000000000000000000000000000000000aa", Number: uint64(300 + r.Intn(10)), Time: 1000 + uint64(r.Intn(50)), Gas: 10000000}}
			},
			func(f string) (interface{}, error) {
				var c coreCase
				if err := readCase(f, &c); err != nil {
					return nil, err
				}
				return &c, nil
			},
			func(i int, ci interface{}, out string) (string, []MonitorHit, map[string]int, bool) {
				c := ci.(*coreCase)
				var hits []MonitorHit
				hit := func(sig, what string) { hits = append(hits, MonitorHit{Case: i, Sig: sig, What: what}) }
				dist := map[string]int{}
				q := &c.Req
				o := runWorldInTree(q)
				if c.SmallGas {
					dist["arbitrary-gas-argument=model-only"]++
				}
				dist[fmt.Sprintf("class=%d", o.cls)]++
				if o.cls == 9 {
					hit("evm-panic", o.panic)
				}
				ref, rerr := evmRes{}, ""
				if o.innerOog && o.cls != 3 {
					dist["inner-out-of-gas=model-only"]++
				}
				if !c.SmallGas && o.cls != 3 && !o.innerOog {
					// the reference hands a callee 63/64 of what is left and burns it when the callee
					// fails; the in-tree budget does not: ample gas keeps the reference on the same path
					q2 := *q
					q2.CallGas = 1 << 56
					ref, rerr = runEvmRef(&q2)
				}
				if c.SmallGas || o.cls == 3 || o.innerOog {
				} else if rerr != "" {
					hit("reference-error", rerr)
				} else if ref.InnerOog && ref.Err != "oog" {
					dist["reference-inner-out-of-gas=model-only"]++
				} else if o.cls != 3 && ref.Err != "oog" && o.cls != 9 {
					cls := map[string]int{"": 0, "revert": 1, "fail": 2}[ref.Err]
					switch {
					case cls != o.cls:
						hit("evm-differs-from-reference kind=outcome", fmt.Sprintf("in-tree class %d reference %q", o.cls, ref.Err))
					case hex.EncodeToString(o.ret) != ref.Ret:
						hit("evm-differs-from-reference kind=return-data", "")
					case o.root != ref.Root:
						hit("evm-differs-from-reference kind=state", "")
					case o.logsH != ref.Logs:
						hit("evm-differs-from-reference kind=logs", "")
					}
				} else if (o.cls == 3) != (ref.Err == "oog") {
					dist["out-of-gas-on-one-side-only"]++
				}
				var accs []string
				for _, a := range q.Accounts {
					var s0 []string
					for _, kv := range a.Storage {
						s0 = append(s0, sxL(common.HexToHash(kv[0]).Big().Text(16), common.HexToHash(kv[1]).Big().Text(16)))
					}
					for l, rr := 0, len(s0)-1; l < rr; l, rr = l+1, rr-1 {
						s0[l], s0[rr] = s0[rr], s0[l]
					}
					bal, _ := new(big.Int).SetString(a.Balance, 10)
					accs = append(accs, sxL(common.HexToAddress(a.Addr).Big().Text(16), sxU(a.Nonce), bal.Text(16), sxB(unhex(a.Code)), sxL(s0...)))
				}
				val, _ := new(big.Int).SetString(q.Value, 10)
				envSx := sxL(common.HexToAddress(q.Origin).Big().Text(16), common.HexToAddress("0xc0ffee").Big().Text(16), sxU(q.Time), sxU(q.Number), "7", sxU(q.Gas))
				line := sxL(envSx, sxL(accs...), common.HexToAddress(q.Callee).Big().Text(16), val.Text(16), sxB(unhex(q.Input)),
					sxZ(int64(o.cls)), sxB(o.ret), sxL(o.accs...), sxL(o.logs...))
				c.Note = fmt.Sprintf("class=%d", o.cls)
				return line, hits, dist, o.cls != 2
			})
	}
}
