package main

// Engine "evmcore" (C10): generated single-contract programs over the instructions Model/EvmCore.v
// covers (the interpreter loop: stack with its limit, memory, storage, logs, jumps and their
// validity, PUSH/DUP/SWAP, call data and code copies, environment, RETURN/REVERT/STOP/INVALID and
// undefined opcodes), executed by the in-tree interpreter and compared with the model: outcome
// class, return data, the contract's storage afterwards and the logs.  The same request also runs
// on the reference go-ethereum interpreter (state root and logs hash), as in "evmdiff".

import (
	"encoding/hex"
	"fmt"
	"math/big"
	"sort"
	"time"

	"github.com/dappledger/AnnChain/eth/common"
	"github.com/dappledger/AnnChain/eth/core/state"
	"github.com/dappledger/AnnChain/eth/core/vm"
	"github.com/dappledger/AnnChain/eth/crypto"
	"github.com/dappledger/AnnChain/eth/ethdb"
	"github.com/dappledger/AnnChain/eth/rlp"
)

type coreCase struct {
	Req  evmReq `json:"req"`
	Note string `json:"note,omitempty"`
	// a call passes an arbitrary gas argument: in-tree ignores it (fixed budget), the reference
	// would starve the callee - such cases are compared with the model only
	SmallGas bool `json:"small_gas,omitempty"`
}

// sstoreTracer remembers every storage key an SSTORE addressed
type sstoreTracer struct{ keys map[common.Hash]bool }

func (t *sstoreTracer) CaptureStart(from common.Address, to common.Address, call bool, input []byte, gas uint64, value *big.Int) error {
	return nil
}
func (t *sstoreTracer) CaptureState(env *vm.EVM, pc uint64, op vm.OpCode, gas, cost uint64, memory *vm.Memory, stack *vm.Stack, contract *vm.Contract, depth int, err error) error {
	if op == vm.SSTORE && len(stack.Data()) >= 2 {
		t.keys[common.BigToHash(stack.Back(0))] = true
	}
	return nil
}
func (t *sstoreTracer) CaptureFault(env *vm.EVM, pc uint64, op vm.OpCode, gas, cost uint64, memory *vm.Memory, stack *vm.Stack, contract *vm.Contract, depth int, err error) error {
	return nil
}
func (t *sstoreTracer) CaptureEnd(output []byte, gasUsed uint64, d time.Duration, err error) error { return nil }

type coreObs struct {
	cls     int // 0 ok, 1 revert, 2 fail, 3 out of gas, 9 panic
	ret     []byte
	storage [][2]*big.Int
	logs    []string
	root    string
	logsH   string
	panic   string
}

func runCoreInTree(q *evmReq) (o coreObs) {
	defer func() {
		if p := recover(); p != nil {
			o.cls = 9
			o.panic = fmt.Sprint(p)
		}
	}()
	st, _ := state.New(common.Hash{}, state.NewDatabase(ethdb.NewMemDatabase()))
	keys := map[common.Hash]bool{}
	for _, a := range q.Accounts {
		addr := common.HexToAddress(a.Addr)
		st.CreateAccount(addr)
		st.SetCode(addr, unhex(a.Code))
		b, _ := new(big.Int).SetString(a.Balance, 10)
		st.SetBalance(addr, b)
		st.SetNonce(addr, a.Nonce)
		for _, kv := range a.Storage {
			st.SetState(addr, common.HexToHash(kv[0]), common.HexToHash(kv[1]))
			if a.Addr == q.Callee {
				keys[common.HexToHash(kv[0])] = true
			}
		}
	}
	st.Commit(false)
	val, _ := new(big.Int).SetString(q.Value, 10)
	origin := common.HexToAddress(q.Origin)
	ctx := vm.Context{
		CanTransfer: func(db vm.StateDB, addr common.Address, amount *big.Int) bool { return db.GetBalance(addr).Cmp(amount) >= 0 },
		Transfer: func(db vm.StateDB, sender, recipient common.Address, amount *big.Int) {
			db.SubBalance(sender, amount)
			db.AddBalance(recipient, amount)
		},
		GetHash: func(n uint64) common.Hash {
			return common.BytesToHash(crypto.Keccak256([]byte(new(big.Int).SetUint64(n).String())))
		},
		Origin: origin, Coinbase: common.HexToAddress("0xc0ffee"), BlockNumber: new(big.Int).SetUint64(q.Number),
		Time: new(big.Int).SetUint64(q.Time), Difficulty: big.NewInt(7), GasLimit: q.Gas, GasPrice: new(big.Int),
	}
	tr := &sstoreTracer{keys: keys}
	env := vm.NewEVM(ctx, st, inAllForks(), vm.Config{EVMGasLimit: q.Gas, Debug: true, Tracer: tr})
	sender := st.GetOrNewStateObject(origin)
	callee := common.HexToAddress(q.Callee)
	ret, _, err := env.Call(sender, callee, unhex(q.Input), q.Gas, val)
	if err != nil {
		switch err {
		case vm.ErrOutOfGas, vm.ErrCodeStoreOutOfGas:
			o.cls = 3
		default:
			if err.Error() == "evm: execution reverted" {
				o.cls = 1
			} else {
				o.cls = 2
			}
		}
	}
	o.ret = ret
	var ks []*big.Int
	for k := range keys {
		ks = append(ks, new(big.Int).SetBytes(k[:]))
	}
	sort.Slice(ks, func(i, j int) bool { return ks[i].Cmp(ks[j]) < 0 })
	for _, k := range ks {
		v := st.GetState(callee, common.BigToHash(k))
		if (v != common.Hash{}) {
			o.storage = append(o.storage, [2]*big.Int{k, new(big.Int).SetBytes(v[:])})
		}
	}
	for _, l := range st.Logs() {
		ts := make([]string, len(l.Topics))
		for i, t := range l.Topics {
			ts[i] = new(big.Int).SetBytes(t[:]).Text(16)
		}
		o.logs = append(o.logs, sxL(sxL(ts...), sxB(l.Data)))
	}
	root, _ := st.Commit(true)
	o.root = hex.EncodeToString(root[:])
	lb, _ := rlp.EncodeToBytes(st.Logs())
	o.logsH = hex.EncodeToString(crypto.Keccak256(lb))
	return o
}

// ---------- program generation ----------

type casm struct {
	asm
	fix    map[int]int // position of a PUSH2 operand -> label
	labels map[int]int // label -> position of its JUMPDEST
	nlab   int
}

func (a *casm) label() int { a.nlab++; return a.nlab }
func (a *casm) pushLabel(l int) {
	a.op(0x61, 0, 0)
	a.fix[len(a.code)-2] = l
}
func (a *casm) place(l int) {
	a.labels[l] = len(a.code)
	a.op(0x5b)
}
func (a *casm) finish() []byte {
	for pos, l := range a.fix {
		d, ok := a.labels[l]
		if !ok {
			d = 0xffff
		}
		a.code[pos] = byte(d >> 8)
		a.code[pos+1] = byte(d)
	}
	return a.code
}

var corePure = []struct {
	op    byte
	arity int
}{{0x01, 2}, {0x02, 2}, {0x03, 2}, {0x04, 2}, {0x05, 2}, {0x06, 2}, {0x07, 2}, {0x08, 3}, {0x09, 3}, {0x0a, 2}, {0x0b, 2},
	{0x10, 2}, {0x11, 2}, {0x12, 2}, {0x13, 2}, {0x14, 2}, {0x15, 1}, {0x16, 2}, {0x17, 2}, {0x18, 2}, {0x19, 1}, {0x1a, 2}, {0x1b, 2}, {0x1c, 2}, {0x1d, 2}}

var coreClean bool // the program being generated avoids deliberate faults

// engine "evmworld": the addresses the program being generated may call or ask about (none: no such gadgets)
var coreCallTargets []string
var coreAskTargets []string
var coreSmallGas bool // a call with an arbitrary gas argument was generated: the reference would starve the callee

func coreOffset(r *Rng) *big.Int {
	k := r.Intn(12)
	if coreClean && k < 2 {
		k = 2
	}
	switch k {
	case 0:
		return new(big.Int).Lsh(big.NewInt(1), uint(41+r.Intn(215))) // beyond anything payable
	case 1:
		return new(big.Int).Sub(new(big.Int).Lsh(big.NewInt(1), 64), big.NewInt(int64(r.Intn(70)))) // around 2^64
	case 2:
		return big.NewInt(int64(r.Intn(4)) * 32)
	default:
		return big.NewInt(int64(r.Intn(700)))
	}
}

func genCoreProgram(r *Rng) []byte {
	a := &casm{fix: map[int]int{}, labels: map[int]int{}}
	coreClean = r.Chance(3, 5)
	clean := coreClean
	depth := 0 // a lower bound of what is on the stack
	push := func(w *big.Int) { a.push(w); depth++ }
	small := func(n int) *big.Int { return big.NewInt(int64(r.Intn(n))) }
	// make the word on top of the stack visible afterwards: in storage or in (returnable) memory
	visible := func() {
		switch r.Intn(3) {
		case 0:
			push(big.NewInt(int64(30 + r.Intn(6))))
			a.op(0x55)
			depth -= 2
		case 1:
			push(big.NewInt(int64(r.Intn(3)) * 32))
			a.op(0x52)
			depth -= 2
		}
	}
	switch r.Intn(30) {
	case 0:
		// the stack filled to one below, exactly at, or one above its limit: a counted loop that
		// leaves one more word per turn, then two or three more words and a store
		turns := 1021 + r.Intn(2)
		top := a.label()
		a.pushN(int64(turns))
		a.place(top)
		a.op(0x80, 0x80, 0x01, 0x90) // DUP1 DUP1 ADD SWAP1
		a.pushN(1)
		a.op(0x90, 0x03, 0x80) // SWAP1 SUB DUP1
		a.pushLabel(top)
		a.op(0x57)
		for j := 0; j < 1+r.Intn(2); j++ {
			a.pushN(int64(1 + j))
		}
		a.pushN(7)
		a.op(0x55) // SSTORE: visible only if the pushes fitted
		a.op(0x00)
		return a.finish()
	case 1:
		// a jump into the operand of a PUSH that holds code storing a value: must fail
		pos := len(a.code) + 5
		a.op(0x61, byte(pos>>8), byte(pos), 0x56)         // PUSH2 pos; JUMP
		a.op(0x66, 0x5b, 0x60, 0x01, 0x60, 0x07, 0x55, 0x00) // PUSH7 <JUMPDEST PUSH1 1 PUSH1 7 SSTORE STOP>
		a.op(0x00)
		return a.finish()
	}
	n := 4 + r.Intn(22)
	kmax := 40
	if len(coreAskTargets) > 0 {
		kmax = 56
	}
	addrWord := func(list []string) *big.Int {
		w := common.HexToAddress(list[r.Intn(len(list))]).Big()
		if r.Chance(1, 6) {
			// dirt above the low 160 bits is ignored
			w = new(big.Int).Add(w, new(big.Int).Lsh(big.NewInt(int64(1+r.Intn(200))), 160))
		}
		return w
	}
	for i := 0; i < n; i++ {
		switch k := r.Intn(kmax); {
		case k >= 52: // CREATE / CREATE2 of a small contract, its address made visible, then called
			rt := [][]byte{{0x60, byte(r.Intn(256)), 0x60, 0x00, 0x55, 0x00}, {0x33, 0x60, 0x01, 0x55, 0x34, 0x00}, {0x30, 0x60, 0x02, 0x55, 0x00, 0x00}}[r.Intn(3)]
			var init []byte
			switch r.Intn(6) {
			case 0:
				init = []byte{0xfe}
			case 1:
				init = []byte{0x60, 0x2a, 0x60, 0x00, 0x53, 0x60, 0x01, 0x60, 0x00, 0xfd} // REVERT with one byte of data
			case 2:
				init = nil
			default:
				init = append([]byte{0x65}, rt...)
				init = append(init, 0x60, 0x00, 0x52, 0x60, 0x06, 0x60, 0x1a, 0xf3)
			}
			word := make([]byte, 32)
			copy(word, init)
			off := int64(r.Intn(3)) * 32
			a.op(0x7f)
			a.op(word...)
			a.pushN(off)
			a.op(0x52)
			two := r.Chance(1, 3)
			if two {
				push(big.NewInt(int64(r.Intn(3)))) // salt
			}
			push(big.NewInt(int64(len(init))))
			push(big.NewInt(off))
			v := small(3)
			if r.Chance(1, 12) {
				v = big.NewInt(3000000)
			}
			push(v)
			again := two && r.Chance(1, 3) // the same CREATE2 a second time: an address collision
			if again {
				// keep a copy of the four operands below
				a.op(0x83, 0x83, 0x83, 0x83) // DUP4 x4
				depth += 4
			}
			if two {
				a.op(0xf5)
				depth -= 3
			} else {
				a.op(0xf0)
				depth -= 2
			}
			a.op(0x80) // DUP1: the address
			depth++
			visible()
			if again {
				a.op(0x50) // POP the first address: the copied operands are on top again
				depth--
				a.op(0xf5)
				depth -= 3
				a.op(0x80)
				depth++
				visible()
			}
			if r.Chance(2, 3) {
				// call what was created
				a.pushN(0)
				a.pushN(0)
				a.pushN(0)
				a.pushN(0)
				push(small(2))
				depth += 4
				a.op(0x85) // DUP6: the address
				depth++
				push(new(big.Int).Lsh(big.NewInt(1), 62))
				a.op(0xf1)
				depth -= 6
				visible()
			}
		case k >= 46: // BALANCE / EXTCODESIZE / EXTCODECOPY / EXTCODEHASH of some account
			switch r.Intn(4) {
			case 3:
				push(addrWord(coreAskTargets))
				a.op(0x3f)
				visible()
			case 0:
				push(addrWord(coreAskTargets))
				a.op(0x31)
				visible()
			case 1:
				push(addrWord(coreAskTargets))
				a.op(0x3b)
				visible()
			default:
				ln := small(60)
				if r.Chance(1, 5) {
					ln = big.NewInt(0)
				}
				push(ln)
				push(small(40))
				push(coreOffset(r))
				push(addrWord(coreAskTargets))
				a.op(0x3c)
				depth -= 4
			}
		case k >= 40: // a call of one of the four kinds, its flag stored, its return data looked at
			targets := coreCallTargets
			if len(targets) == 0 || r.Chance(1, 4) {
				targets = []string{"0x00000000000000000000000000000000000000bb", "0x000000000000000000000000000000000000dead", "0x00000000000000000000000000000000000000aa"}
			}
			kind := []byte{0xf1, 0xf1, 0xf2, 0xf4, 0xfa}[r.Intn(5)]
			push(small(70))      // retSize
			push(big.NewInt(int64(r.Intn(5)) * 32)) // retOffset
			push(small(40))      // inSize
			push(small(100))     // inOffset
			if kind == 0xf1 || kind == 0xf2 {
				v := small(3)
				if r.Chance(1, 10) {
					v = big.NewInt(2000000) // more than anybody has
				}
				push(v)
			}
			push(addrWord(targets))
			if r.Chance(1, 18) {
				push(interestingWord(r)) // the gas argument is not what meters the callee (deliberate deviation)
				coreSmallGas = true
			} else {
				push(new(big.Int).Lsh(big.NewInt(1), 62))
			}
			a.op(kind)
			if kind == 0xf1 || kind == 0xf2 {
				depth -= 6
			} else {
				depth -= 5
			}
			push(big.NewInt(int64(20 + r.Intn(4))))
			a.op(0x55) // the flag becomes visible
			depth -= 2
			switch r.Intn(4) {
			case 0:
				a.op(0x3d) // RETURNDATASIZE
				depth++
			case 1: // copy all of it
				a.op(0x3d)
				a.pushN(0)
				push(big.NewInt(int64(r.Intn(4)) * 32))
				depth++
				a.op(0x3e)
				depth -= 2
			case 2: // copy beyond it: fails unless there is that much
				if !clean {
					if r.Bool() {
						push(small(40))
						push(small(40))
						push(small(64))
						a.op(0x3e)
						depth -= 3
					} else {
						// exactly one byte more than there is
						a.op(0x3d)
						a.pushN(1)
						a.op(0x01)
						a.pushN(0)
						push(small(64))
						depth++
						a.op(0x3e)
						depth -= 3
					}
				}
			}
		case k < 8: // pure instruction on fresh or stacked operands
			o := corePure[r.Intn(len(corePure))]
			for j := 0; j < o.arity; j++ {
				if depth > j && r.Chance(1, 3) {
					continue
				}
				push(interestingWord(r))
			}
			a.op(o.op)
			if depth >= o.arity {
				depth -= o.arity - 1
			} else {
				depth = 1
			}
		case k < 11: // MSTORE / MSTORE8
			push(interestingWord(r))
			push(coreOffset(r))
			a.op([]byte{0x52, 0x53}[r.Intn(2)])
			depth -= 2
		case k < 13: // MLOAD, MSIZE, SHA3
			switch r.Intn(3) {
			case 0:
				push(coreOffset(r))
				a.op(0x51)
			case 1:
				a.op(0x59)
				depth++
			default:
				ln := small(200)
				if r.Chance(1, 6) {
					ln = big.NewInt(int64([]int{0, 135, 136, 137, 272}[r.Intn(5)])) // around the rate of the sponge
				}
				push(ln)
				push(coreOffset(r))
				a.op(0x20)
				depth--
				visible()
			}
		case k < 16: // SSTORE
			push(interestingWord(r))
			if r.Chance(1, 3) {
				push(interestingWord(r))
			} else {
				push(small(5))
			}
			a.op(0x55)
			depth -= 2
		case k < 18: // SLOAD
			if r.Chance(1, 4) {
				push(interestingWord(r))
			} else {
				push(small(5))
			}
			a.op(0x54)
		case k < 20: // environment and block
			if r.Chance(1, 6) {
				// BLOCKHASH of a block around the window of 256
				n := int64(300 + r.Intn(10))
				push(big.NewInt(n - int64([]int{0, 1, 2, 255, 256, 257, 258, 400}[r.Intn(8)])))
				a.op(0x40)
				visible()
				break
			}
			a.op([]byte{0x30, 0x32, 0x33, 0x34, 0x36, 0x38, 0x3a, 0x3d, 0x41, 0x42, 0x43, 0x44, 0x45, 0x58, 0x33, 0x34, 0x30}[r.Intn(17)])
			depth++
			visible()
		case k < 22: // CALLDATALOAD
			if r.Chance(1, 3) {
				push(interestingWord(r))
			} else {
				push(small(80))
			}
			a.op(0x35)
		case k < 25: // CALLDATACOPY / CODECOPY / RETURNDATACOPY
			op := []byte{0x37, 0x39}[r.Intn(2)]
			if r.Chance(1, 10) {
				op = 0x3e
			}
			ln := small(90)
			if r.Chance(1, 5) || (clean && op == 0x3e) {
				ln = big.NewInt(0)
			}
			push(ln)
			if clean && op == 0x3e {
				push(big.NewInt(0)) // with no return data only the empty copy from offset 0 is in bounds
			} else if r.Chance(1, 4) {
				push(interestingWord(r))
			} else {
				push(small(100))
			}
			push(coreOffset(r))
			a.op(op)
			depth -= 3
		case k < 28: // DUP / SWAP
			dup := r.Bool()
			x := 1 + r.Intn(16)
			if clean || r.Chance(3, 4) {
				need := 1
				if !dup {
					need = 2
				}
				for depth < need {
					push(interestingWord(r))
				}
				lim := depth
				if !dup {
					lim = depth - 1
				}
				if lim > 16 {
					lim = 16
				}
				x = 1 + r.Intn(lim)
			}
			if dup {
				a.op(byte(0x7f + x))
				depth++
			} else {
				a.op(byte(0x8f + x))
			}
		case k < 29: // POP
			if clean && depth == 0 {
				break
			}
			a.op(0x50)
			if depth > 0 {
				depth--
			}
		case k < 32: // forward conditional or unconditional jump over a few instructions
			l := a.label()
			if r.Bool() {
				push(interestingWord(r))
				a.pushLabel(l)
				depth++
				a.op(0x57)
				depth -= 2
			} else {
				a.pushLabel(l)
				a.op(0x56)
			}
			for j := 0; j < r.Intn(3); j++ {
				push(interestingWord(r))
				push(small(5))
				a.op(0x55)
				depth -= 2
			}
			a.place(l)
		case k < 33: // a jump to something that is not a destination
			if clean {
				break
			}
			switch r.Intn(4) {
			case 0: // into the data of a PUSH that contains the JUMPDEST byte
				pos := len(a.code) + 4 // PUSH2 pos ; then the PUSH3 below starts at +3, its data at +4
				a.op(0x61, byte(pos>>8), byte(pos))
				a.op(0x62, 0x5b, 0x5b, 0x5b)
				a.op(0x50)
				a.op(0x56)
			case 1:
				push(interestingWord(r))
				a.op(0x56)
			case 2:
				push(big.NewInt(int64(len(a.code) + 3))) // not a JUMPDEST
				a.op(0x56)
			default:
				push(big.NewInt(1))
				push(new(big.Int).Lsh(big.NewInt(1), 63))
				a.op(0x57)
			}
		case k < 35: // bounded loop: counter on the stack
			cnt := 1 + r.Intn(6)
			if !clean && r.Chance(1, 6) {
				cnt = 1030 // runs into the stack limit when the body grows the stack
			}
			top := a.label()
			push(big.NewInt(int64(cnt)))
			a.place(top)
			if r.Bool() {
				a.op(0x80) // DUP1
				a.pushN(int64(r.Intn(3)))
				a.op(0x55) // SSTORE slot <- counter
			} else {
				a.op(0x80, 0x80) // two copies of the counter
				a.op(0x01)       // their sum stays below
				a.op(0x90)       // SWAP1: counter back on top; the stack grew by one
			}
			a.pushN(1)
			a.op(0x90, 0x03) // counter - 1
			a.op(0x80)       // DUP1
			a.pushLabel(top)
			a.op(0x57) // JUMPI while non-zero
		case k < 37: // LOG0..4
			nt := r.Intn(5)
			for j := 0; j < nt; j++ {
				push(interestingWord(r))
			}
			ln := small(70)
			if r.Chance(1, 5) {
				ln = big.NewInt(0)
			}
			push(ln)
			push(coreOffset(r))
			a.op(byte(0xa0 + nt))
			depth -= nt + 2
		case k < 38: // raw bytes: undefined opcodes, truncated pushes
			if !clean {
				a.op(r.Bytes(1 + r.Intn(3))...)
			}
		default: // early exit
			if r.Chance(1, 3) {
				ln := small(70)
				push(ln)
				push(coreOffset(r))
				a.op([]byte{0xf3, 0xfd}[r.Intn(2)])
			}
		}
		if depth < 0 {
			depth = 0
		}
	}
	if len(coreAskTargets) > 0 && r.Chance(1, 7) {
		// the contract destroys itself in favour of some account (itself included)
		a.push(addrWord(coreAskTargets))
		a.op(0xff)
		return a.finish()
	}
	switch r.Intn(7) {
	case 0:
		a.op(0x00)
	case 1:
		a.op(0xfe)
	case 2:
		a.push(small(70))
		a.push(coreOffset(r))
		a.op(0xfd)
	case 3:
		// falls off the end, perhaps inside a PUSH
		if r.Bool() {
			a.op(byte(0x60+r.Intn(32)), 0x01)
		}
	default:
		a.push(small(70))
		a.push(coreOffset(r))
		a.op(0xf3)
	}
	return a.finish()
}

func bigsSx(kvs [][2]*big.Int) string {
	xs := make([]string, len(kvs))
	for i, kv := range kvs {
		xs[i] = sxL(kv[0].Text(16), kv[1].Text(16))
	}
	return sxL(xs...)
}

func init() {
	engines["evmcore"] = func(args []string) error {
		return runGenericEngine("evmcore",
			"case = one call of a generated single-contract program (4..25 gadgets: all 25 pure instructions on boundary words and on what the stack holds, MSTORE/MSTORE8/MLOAD/MSIZE at small, word-aligned, around-2^64 and unpayable offsets, SSTORE/SLOAD with small and arbitrary keys, environment and block instructions, CALLDATALOAD/CALLDATACOPY/CODECOPY/RETURNDATACOPY with zero and non-zero lengths and offsets beyond the data, DUP1..16/SWAP1..16 within and beyond the stack, POP, forward JUMP/JUMPI, jumps into PUSH data holding the JUMPDEST byte, to non-destinations and to 2^63, counted loops incl. one that reaches the stack limit, LOG0..4, raw bytes (undefined opcodes, truncated PUSH), RETURN/REVERT/STOP/INVALID or falling off the end), with call data, call value and pre-existing storage, under a gas budget of ten million; executed by the in-tree interpreter (observed: outcome class, return data, every storage slot ever addressed, logs with topics and data) and compared with Model/EvmCore.v; the reference go-ethereum interpreter runs the same request (state root and logs hash must equal the in-tree ones); runs in which the model meets an instruction or a memory size it does not cover are accepted unseen; distinct = request; non-trivial = the run did not fail",
			args,
			func(r *Rng, i int) interface{} {
				code := genCoreProgram(r)
				ac := evmAccount{Addr: contractAddrs[0], Balance: fmt.Sprint(r.Intn(1000)), Nonce: 1, Code: hexs(code)}
				for k := 0; k < r.Intn(4); k++ {
					ac.Storage = append(ac.Storage, [2]string{fmt.Sprintf("0x%x", r.Intn(5)), "0x" + interestingWord(r).Text(16)})
				}
				accs := []evmAccount{ac, {Addr: "0x00000000000000000000000000000000000000aa", Balance: "1000000", Nonce: 5}}
				return &coreCase{Req: evmReq{Accounts: accs, Callee: contractAddrs[0], Input: hexs(r.Bytes(r.Intn(70))), Value: fmt.Sprint(r.Intn(3)),
					Origin: "0x00000000000000000000000000000000000000aa", Number: uint64(300 + r.Intn(10)), Time: 1000 + uint64(r.Intn(50)), Gas: 10000000}}
			},
			func(f string) (interface{}, error) {
				var c coreCase
				if err := readCase(f, &c); err != nil {
					return nil, err
				}
				return &c, nil
			},
			func(i int, ci interface{}, out string) (string, []MonitorHit, map[string]int, bool) {
				c := ci.(*coreCase)
				var hits []MonitorHit
				hit := func(sig, what string) { hits = append(hits, MonitorHit{Case: i, Sig: sig, What: what}) }
				dist := map[string]int{}
				q := &c.Req
				o := runCoreInTree(q)
				dist[fmt.Sprintf("class=%d", o.cls)]++
				if o.cls == 9 {
					hit("evm-panic", o.panic)
				}
				ref, rerr := runEvmRef(q)
				if rerr != "" {
					hit("reference-error", rerr)
				} else if o.cls != 3 && ref.Err != "oog" && o.cls != 9 {
					cls := map[string]int{"": 0, "revert": 1, "fail": 2}[ref.Err]
					switch {
					case cls != o.cls:
						hit("evm-differs-from-reference kind=outcome", fmt.Sprintf("in-tree class %d reference %q", o.cls, ref.Err))
					case hex.EncodeToString(o.ret) != ref.Ret:
						hit("evm-differs-from-reference kind=return-data", "")
					case o.root != ref.Root:
						hit("evm-differs-from-reference kind=state", "")
					case o.logsH != ref.Logs:
						hit("evm-differs-from-reference kind=logs", "")
					}
				} else if (o.cls == 3) != (ref.Err == "oog") {
					dist["out-of-gas-on-one-side-only"]++
				}
				var callee evmAccount
				for _, a := range q.Accounts {
					if a.Addr == q.Callee {
						callee = a
					}
				}
				var s0 []string
				for _, kv := range callee.Storage {
					s0 = append(s0, sxL(common.HexToHash(kv[0]).Big().Text(16), common.HexToHash(kv[1]).Big().Text(16)))
				}
				// the pre-state as the model reads it: latest binding first
				for l, rr := 0, len(s0)-1; l < rr; l, rr = l+1, rr-1 {
					s0[l], s0[rr] = s0[rr], s0[l]
				}
				val, _ := new(big.Int).SetString(q.Value, 10)
				envSx := sxL(common.HexToAddress(q.Callee).Big().Text(16), common.HexToAddress(q.Origin).Big().Text(16), val.Text(16),
					common.HexToAddress("0xc0ffee").Big().Text(16), sxU(q.Time), sxU(q.Number), "7", sxU(q.Gas))
				line := sxL(envSx, sxB(unhex(callee.Code)), sxB(unhex(q.Input)), sxL(s0...), sxZ(int64(o.cls)), sxB(o.ret), bigsSx(o.storage), sxL(o.logs...))
				c.Note = fmt.Sprintf("class=%d code=%d bytes", o.cls, len(unhex(callee.Code)))
				return line, hits, dist, o.cls != 2
			})
	}
}
