package main

import (
	"fmt"
	"os"
)

type engine func(args []string) error

var engines = map[string]engine{}

func main() {
	if len(os.Args) < 2 {
		fmt.Fprintln(os.Stderr, "usage: annverif <engine> [flags]")
		os.Exit(2)
	}
	e, ok := engines[os.Args[1]]
	if !ok {
		fmt.Fprintln(os.Stderr, "unknown engine", os.Args[1])
		os.Exit(2)
	}
	if err := e(os.Args[2:]); err != nil {
		fmt.Fprintln(os.Stderr, "engine error:", err)
		os.Exit(3)
	}
}
