package main

// Engine "admin" (property C14): drives plugin.AdminOp (ExecTX / EndBlock) with the validator
// flow of state.ExecBlock, and probes the 0xfe precompile.

import (
	"bytes"
	"encoding/json"
	"flag"
	"fmt"
	"io/ioutil"
	"path/filepath"
	"sort"
	"strings"

	"github.com/spf13/viper"

	"github.com/dappledger/AnnChain/eth/core/vm"
	crypto "github.com/dappledger/AnnChain/gemmill/go-crypto"
	wire "github.com/dappledger/AnnChain/gemmill/go-wire"
	"github.com/dappledger/AnnChain/gemmill/p2p"
	"github.com/dappledger/AnnChain/gemmill/plugin"
	"github.com/dappledger/AnnChain/gemmill/refuse_list"
	"github.com/dappledger/AnnChain/gemmill/types"
)

type AdminReq struct {
	Cmd      string  `json:"cmd"`    // add_peer update_node remove_node other
	Target   int     `json:"target"` // index into the key pool
	Power    int64   `json:"power"`
	From     string  `json:"from"`       // Addr inside the signed message
	MsgNonce uint64  `json:"msg_nonce"`  // Nonce inside the signed message
	SubFrom  string  `json:"sub_from"`   // submitting account
	SubNonce uint64  `json:"sub_nonce"`  // its nonce as the state reports it
	Signers  []int   `json:"signers"`    // key-pool indices, in order, duplicates allowed
	BadSig   []int   `json:"bad_sig"`    // positions in Signers whose signature is over another message
	OldSigs  bool    `json:"old_sigs,omitempty"` // every signer's entry carries the signature it made for the latest earlier request of the case it signed (over that request's message)
	KeyPad   []int   `json:"key_pad,omitempty"` // positions in Signers whose key bytes carry that many extra bytes after the key (position p: KeyPad[p] bytes)
	SelfOK   bool    `json:"self_ok"`
	CmdType  string  `json:"cmd_type"`
	BadMsg   bool    `json:"bad_msg"`
	Replay   int     `json:"replay"` // >0: re-submit the (replay-1)-th earlier request of the case verbatim
}
type AdminCase struct {
	Secrets []string     `json:"secrets"` // key pool
	Initial []int        `json:"initial"` // pool indices of the initial validators
	Powers  []int64      `json:"powers"`
	Blocks  [][]AdminReq `json:"blocks"`
}

type stubApp struct {
	from  []byte
	nonce uint64
}

func (a *stubApp) GetNonce() uint64 { return a.nonce }
func (a *stubApp) From() []byte     { return a.from }

func genAdminCase(r *Rng, directed int) AdminCase {
	var c AdminCase
	pool := 5 + r.Intn(4)
	for i := 0; i < pool; i++ {
		c.Secrets = append(c.Secrets, hexs(r.Bytes(8)))
	}
	n := 1 + r.Intn(4)
	if directed%4 == 0 {
		n = 4
	}
	c.Initial = r.Perm(pool)[:n]
	c.Powers = genPowers(r, n, directed%4)
	if directed%4 == 0 {
		for i := range c.Powers {
			c.Powers[i] = 10
		}
	}
	for i := range c.Powers {
		if c.Powers[i] > 1<<40 {
			c.Powers[i] = 1 + int64(r.Intn(50))
		}
	}
	member := map[int]bool{}
	for _, i := range c.Initial {
		member[i] = true
	}
	admin := hexs(r.Bytes(20))
	nonce := uint64(r.Intn(5))
	var all []AdminReq
	nb := 2 + r.Intn(4)
	for b := 0; b < nb; b++ {
		var blk []AdminReq
		nr := r.Intn(4)
		for k := 0; k < nr; k++ {
			var q AdminReq
			if len(all) > 0 && r.Chance(1, 5) {
				q = all[r.Intn(len(all))]
				q.Replay = 1
				if r.Chance(1, 2) { // replay with the nonce the account has now
					q.SubNonce = nonce + 1
				}
				blk = append(blk, q)
				continue
			}
			q.CmdType = "changeValidator"
			q.SelfOK = true
			q.From, q.SubFrom = admin, admin
			q.MsgNonce, q.SubNonce = nonce, nonce+1
			q.Target = r.Intn(pool)
			switch r.Intn(10) {
			case 0, 1, 2:
				q.Cmd = "add_peer"
				q.Power = int64(r.Intn(12))
			case 3, 4, 5:
				q.Cmd = "update_node"
				q.Power = int64(r.Intn(12))
			case 6, 7, 8:
				q.Cmd = "remove_node"
			default:
				q.Cmd = "frobnicate"
			}
			// signers: usually all current members (in the generator's view), then perturbations
			var cur []int
			for i := range member {
				cur = append(cur, i)
			}
			sort.Ints(cur)
			q.Signers = append([]int{}, cur...)
			switch r.Intn(12) {
			case 0: // drop some
				if len(q.Signers) > 0 {
					q.Signers = q.Signers[:r.Intn(len(q.Signers))]
				}
			case 1: // one validator repeated
				if len(cur) > 0 {
					x := cur[r.Intn(len(cur))]
					q.Signers = []int{x, x, x, x}
					if r.Bool() {
						// ... each time under other bytes: the key followed by 0..3 more bytes names the same
						// validator (the key type is a fixed array filled by copy), and the same signature verifies
						q.KeyPad = []int{0, 1, 2, 3}
					}
				}
			case 2: // non-validators only
				q.Signers = nil
				for i := 0; i < pool; i++ {
					if !member[i] {
						q.Signers = append(q.Signers, i)
					}
				}
			case 3: // some signatures over another message
				for i := range q.Signers {
					if r.Bool() {
						q.BadSig = append(q.BadSig, i)
					}
				}
			case 4: // exactly-at-boundary subsets: keep a prefix
				if len(q.Signers) > 1 {
					q.Signers = q.Signers[:len(q.Signers)-1]
				}
			case 5:
				q.SubNonce = nonce + uint64(r.Intn(3))*2
			case 6:
				q.SubFrom = hexs(r.Bytes(20))
			case 7:
				q.SelfOK = false
			case 8:
				q.CmdType = "somethingElse"
			case 9:
				q.BadMsg = true
			case 10:
				// a request nobody signed, dressed in the validators' signatures over an earlier request
				q.OldSigs = true
			}
			blk = append(blk, q)
			all = append(all, q)
			// generator's view of membership (assuming acceptance) to keep later requests interesting
			if q.CmdType == "changeValidator" && !q.BadMsg && q.SubFrom == q.From && q.SubNonce == q.MsgNonce+1 {
				nonce++
				switch q.Cmd {
				case "add_peer":
					member[q.Target] = true
				case "remove_node":
					if len(member) > 1 && r.Chance(2, 3) {
						delete(member, q.Target)
					}
				}
			}
		}
		c.Blocks = append(c.Blocks, blk)
	}
	return c
}

func adminKeys(c AdminCase) []crypto.PrivKeyEd25519 {
	ks := make([]crypto.PrivKeyEd25519, len(c.Secrets))
	for i, s := range c.Secrets {
		ks[i] = crypto.GenPrivKeyEd25519FromSecret(unhex(s))
	}
	return ks
}

func pubBytes(k crypto.PrivKeyEd25519) []byte {
	p := k.PubKey().(crypto.PubKeyEd25519)
	return p[:]
}

func adminCode(err error) int {
	if err == nil {
		return 0
	}
	s := err.Error()
	switch {
	case strings.Contains(s, "need more than 2/3"):
		return 1
	case strings.Contains(s, "unsupported admin operation:"):
		return 8
	case strings.Contains(s, "unsupported admin operation"):
		return 2
	case strings.Contains(s, "parse validator err"):
		return 3
	case strings.Contains(s, "verify nonce err"):
		return 4
	case strings.Contains(s, "admin nonce error"):
		return 5
	case strings.Contains(s, "self verify failed"):
		return 6
	case strings.Contains(s, "not add into chain"):
		return 7
	}
	return 9
}

type adminReplica struct {
	op  *plugin.AdminOp
	cur *types.ValidatorSet
}

func newReplica(set *types.ValidatorSet, dir string, tag string) *adminReplica {
	r := &adminReplica{op: &plugin.AdminOp{}, cur: set}
	sw := p2p.NewSwitch(viper.New())
	rl := refuse_list.NewRefuseList("memdb", dir)
	r.op.Init(&plugin.InitParams{Switch: sw, Validators: &r.cur, RefuseList: rl})
	return r
}

func (r *adminReplica) endBlock() (bool, string) {
	next := r.cur.Copy().Copy()
	var err error
	pan, msg := catchPanic(func() {
		_, err = r.op.EndBlock(&plugin.EndBlockParams{NextValidatorSet: next})
		if err == nil {
			next.IncrementAccum(1)
		}
	})
	if pan {
		return true, "panic: " + msg
	}
	if err != nil {
		return true, err.Error()
	}
	return false, ""
}

func setLine(s *types.ValidatorSet) string {
	var sb strings.Builder
	for _, v := range s.Validators {
		fmt.Fprintf(&sb, "%x:%d:%d;", v.Address, v.VotingPower, v.Accum)
	}
	return sb.String()
}

func runAdminCase(idx int, c AdminCase, workdir string) (string, []MonitorHit, map[string]int, bool) {
	var hits []MonitorHit
	dist := map[string]int{}
	hit := func(sig, what string) { hits = append(hits, MonitorHit{Case: idx, Sig: sig, What: what}) }
	keys := adminKeys(c)
	var vals []*types.Validator
	for k, i := range c.Initial {
		pk := keys[i].PubKey()
		vals = append(vals, &types.Validator{Address: pk.Address(), PubKey: pk, VotingPower: c.Powers[k], IsCA: true})
	}
	set := types.NewValidatorSet(vals)
	rep := newReplica(set, workdir, "a")
	// a second replica that starts from the persisted form of the same set
	var set2 *types.ValidatorSet
	if err := wire.ReadBinaryBytes(wire.BinaryBytes(set), &set2); err != nil {
		hit("roundtrip-failed", err.Error())
		set2 = set.Copy()
	}
	twin := newReplica(set2, workdir, "b")
	initVals := make([]string, len(set.Validators))
	for i, v := range set.Validators {
		initVals[i] = sxVal(val16J(v))
	}
	var ops []string
	nontrivial := false
	type built struct {
		tx []byte
		q  AdminReq
	}
	var history []built
	lastSig := map[int][]byte{} // signer -> its latest genuine signature over some earlier request
	expected := map[string]int64{} // address -> power, by the plain reading of the accepted requests
	for _, v := range set.Validators {
		expected[string(v.Address)] = v.VotingPower
	}
	for _, blk := range c.Blocks {
		type accepted struct{ q AdminReq }
		var acc []accepted
		for _, q := range blk {
			dist["cmd:"+q.Cmd]++
			target := keys[q.Target%len(keys)]
			attr := &types.ValidatorAttr{PubKey: pubBytes(target), Power: q.Power, Cmd: types.ValidatorCmd(q.Cmd), Addr: unhex(q.From), Nonce: q.MsgNonce}
			cmd := &types.AdminOPCmd{CmdType: q.CmdType, Nonce: q.MsgNonce}
			cmd.LoadMsg(attr)
			if q.BadMsg {
				cmd.Msg = []byte("{not json")
			}
			selfSig := sigBytes(target.Sign(cmd.Msg))
			if !q.SelfOK {
				selfSig = sigBytes(target.Sign([]byte("something else")))
			}
			cmd.SelfSign = selfSig
			bad := map[int]bool{}
			for _, p := range q.BadSig {
				bad[p] = true
			}
			var sigsSx []string
			fresh := map[int][]byte{}
			good := map[string]int64{}
			for pos, si := range q.Signers {
				k := keys[si%len(keys)]
				m := cmd.Msg
				if bad[pos] {
					m = []byte("other message")
				}
				sg := sigBytes(k.Sign(m))
				if old, ok := lastSig[si%len(keys)]; ok && q.OldSigs {
					sg = old
				} else if !bad[pos] {
					fresh[si%len(keys)] = sg
				}
				kb := pubBytes(k)
				if pos < len(q.KeyPad) {
					for e := 0; e < q.KeyPad[pos]; e++ {
						kb = append(kb, byte(e))
					}
				}
				cmd.SInfos = append(cmd.SInfos, types.SigInfo{PubKey: kb, Signature: sg})
				addr := k.PubKey().Address()
				ok := k.PubKey().VerifyBytes(cmd.Msg, crypto.SetNodeSignature(sg))
				sigsSx = append(sigsSx, sxL(sxB(addr), sxBool(ok)))
				if _, v := rep.cur.GetByAddress(addr); v != nil && v.VotingPower > 0 && ok {
					good[string(addr)] = v.VotingPower
				}
			}
			js, _ := json.Marshal(cmd)
			tx := types.TagAdminOPTx(js)
			history = append(history, built{tx, q})
			for k, v := range fresh {
				lastSig[k] = v
			}
			app := &stubApp{from: unhex(q.SubFrom), nonce: q.SubNonce}
			pendBefore := len(rep.op.ChangedValidators)
			var err error
			pan, msg := catchPanic(func() { err = rep.op.ExecTX(app, tx) })
			code := adminCode(err)
			if pan {
				code = 10
				hit("exectx-panic", "ExecTX panicked: "+msg)
			}
			dist[fmt.Sprintf("code:%d", code)]++
			// twin replica sees the same request
			var err2 error
			catchPanic(func() { err2 = twin.op.ExecTX(&stubApp{from: unhex(q.SubFrom), nonce: q.SubNonce}, tx) })
			if adminCode(err2) != code {
				hit("replica-divergence accept", fmt.Sprintf("a replica that reloaded its validator set decides differently on the same request (%d vs %d)", adminCode(err2), code))
			}
			pend := len(rep.op.ChangedValidators)
			cmdKind := map[string]string{"add_peer": "0", "update_node": "1", "remove_node": "2"}[q.Cmd]
			if cmdKind == "" {
				cmdKind = "3"
			}
			selfOK := target.PubKey().VerifyBytes(cmd.Msg, crypto.SetNodeSignature(selfSig))
			attrSx := sxL(sxB(pubBytes(target)), sxB(target.PubKey().Address()), sxZ(q.Power), cmdKind, sxB(unhex(q.From)), sxU(q.MsgNonce))
			ops = append(ops, sxL("0", sxL(sxBool(q.CmdType == types.AdminOpChangeValidator), sxBool(!q.BadMsg), attrSx, sxBool(selfOK), sxL(sigsSx...)),
				sxB(unhex(q.SubFrom)), sxU(q.SubNonce), sxZ(int64(code)), sxZ(int64(pend))))
			// ---- monitors
			total := int64(0)
			for _, v := range rep.cur.Validators {
				total += v.VotingPower
			}
			gp := int64(0)
			for _, p := range good {
				gp += p
			}
			if pend > pendBefore {
				nontrivial = true
				if !(gp > total*2/3) {
					hit("accepted-without-two-thirds", fmt.Sprintf("request accepted with valid distinct signer power %d of %d", gp, total))
				}
				if q.SubFrom != q.From || q.SubNonce != q.MsgNonce+1 {
					hit("accepted-wrong-sender-or-nonce", "request accepted although sender or nonce does not match the signed request")
				}
				if q.CmdType != types.AdminOpChangeValidator || q.BadMsg {
					hit("accepted-malformed", "malformed request accepted")
				}
				acc = append(acc, accepted{q})
			} else if code == 0 && gp > total*2/3 {
				// accepted as a no-op (already member / same power / not a member)
			}
			if code == 0 && !(gp > total*2/3) {
				hit("ok-without-two-thirds", fmt.Sprintf("ExecTX returned nil with valid distinct signer power %d of %d", gp, total))
			}
		}
		errd, emsg := rep.endBlock()
		twin.endBlock()
		emptied := len(rep.cur.Validators) == 0
		if errd && !emptied {
			hit("endblock-failed", "EndBlock failed: "+emsg)
		}
		if setLine(rep.cur) != setLine(twin.cur) {
			hit("replica-divergence set", "replicas hold different validator sets after the same block")
		}
		// plain reading of the accepted requests
		for _, a := range acc {
			addr := string(keys[a.q.Target%len(keys)].PubKey().Address())
			switch a.q.Cmd {
			case "add_peer":
				// an add is accepted only when the target is not in the set the block started with;
				// a second accepted add of the same target in the same block is a signed request of
				// its own and, applied in order at EndBlock, sets the power it names
				expected[addr] = a.q.Power
			case "update_node":
				expected[addr] = a.q.Power
			case "remove_node":
				delete(expected, addr)
			}
		}
		if !errd {
			got := map[string]int64{}
			var addrs [][]byte
			for _, v := range rep.cur.Validators {
				got[string(v.Address)] = v.VotingPower
				addrs = append(addrs, v.Address)
			}
			if !sort.SliceIsSorted(addrs, func(i, j int) bool { return bytes.Compare(addrs[i], addrs[j]) < 0 }) {
				hit("not-sorted", "validator set not sorted after EndBlock")
			}
			same := len(got) == len(expected)
			for k, v := range expected {
				if got[k] != v {
					same = false
				}
				if _, ok := got[k]; !ok {
					same = false
				}
			}
			if !same {
				hit("membership-differs", "validator set after the block is not what the accepted requests say")
				expected = got
			}
		}
		vs := make([]string, len(rep.cur.Validators))
		for i, v := range rep.cur.Validators {
			vs[i] = sxVal(val16J(v))
		}
		ops = append(ops, sxL("1", sxBool(errd), sxL(vs...)))
		if errd {
			// the set was emptied (a chain without validators cannot continue) or the block failed: end of the case
			dist["ended:emptied-or-failed"]++
			break
		}
	}
	// probe of the 0xfe precompile: the submitting account is whatever the input bytes claim
	if idx == 0 {
		var seenFrom []byte
		adm := vm.AdminOP{}
		adm.SetCallback(func(app *vm.AdminDBApp, data []byte) error { seenFrom = append([]byte{}, app.From()...); return nil })
		claimed := bytes.Repeat([]byte{0x42}, 20)
		payload := []byte("payload")
		in := make([]byte, 32)
		in[31] = byte(20 + len(payload))
		in = append(in, claimed...)
		in = append(in, payload...)
		pan, _ := catchPanic(func() { adm.Run(in) })
		if !pan && bytes.Equal(seenFrom, claimed) {
			hit("precompile-trusts-claimed-sender", "the 0xfe precompile takes the submitting account from its input bytes: any caller can present another account as the sender of a signed request (replay while that account's nonce is unchanged)")
		}
	}
	tv := rep.cur // initial cache state is the fresh set's: NewValidatorSet already computed the total
	_ = tv
	return sxL(sxL(initVals...), sxZ(totalOf(set)), sxL(ops...)), hits, dist, nontrivial
}

func totalOf(s *types.ValidatorSet) int64 {
	t := int64(0)
	for _, v := range s.Validators {
		t += v.VotingPower
	}
	return t
}

func engAdmin(args []string) error {
	var corpus string
	c, err := commonFlags("admin", args, func(fs *flag.FlagSet) { fs.StringVar(&corpus, "corpus", "", "corpus directory") })
	if err != nil {
		return err
	}
	meta := NewMeta("admin", c.Seed)
	meta.Rule = "case = initial validator set (1..4 of a key pool, several power distributions incl. 4x10) and 2..5 blocks of administrative requests (add/update/remove/unknown; signer lists complete, partial, one validator repeated (also under key bytes with 0..3 bytes appended, which name the same validator), non-validators, mis-signed, or carrying the signatures the same validators made over an earlier request; wrong sender / nonce / self-signature / command type / malformed message; verbatim replays within and across blocks) driven through AdminOp.ExecTX and EndBlock on two replicas (one reloaded from the persisted set); distinct = case line; non-trivial = at least one request changed the pending list"
	var cases []AdminCase
	if c.Replay != "" {
		var rc struct{ Case AdminCase `json:"case"` }
		if err := readJSON(c.Replay, &rc); err != nil {
			return err
		}
		cases = append(cases, rc.Case)
	} else {
		fs, _ := filepath.Glob(filepath.Join(corpus, "*.json"))
		for _, f := range fs {
			var rc struct{ Case AdminCase `json:"case"` }
			if err := readJSON(f, &rc); err == nil && len(rc.Case.Secrets) > 0 {
				cases = append(cases, rc.Case)
				meta.Dist["corpus"]++
			}
		}
		r := NewRng(c.Seed)
		for i := 0; i < c.N; i++ {
			cases = append(cases, genAdminCase(r.Fork(), i))
		}
	}
	dist := NewDistinct()
	var sb strings.Builder
	for i, ac := range cases {
		line, hits, d, nontrivial := runAdminCase(i, ac, c.Out)
		sb.WriteString(line + "\n")
		meta.Monitor = append(meta.Monitor, hits...)
		for k, v := range d {
			meta.Dist[k] += v
		}
		writeCase(c.Out, i, ac)
		meta.Evaluations++
		if nontrivial {
			dist.Add(line)
		}
		if i < 1 {
			meta.Samples = append(meta.Samples, ac)
		}
	}
	meta.Distinct = dist.Len()
	if err := ioutil.WriteFile(filepath.Join(c.Out, "cases.sx"), []byte(sb.String()), 0644); err != nil {
		return err
	}
	return meta.Write(c.Out)
}

func init() { engines["admin"] = engAdmin }
