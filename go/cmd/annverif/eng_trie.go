package main

// Engine "trie" (C11): operation histories on the in-tree eth/trie (update, delete, get, hash,
// commit, reopen from the database, Merkle proofs) over keys with shared prefixes of every length
// and values on both sides of the 32-byte embedding threshold, in lockstep with the reference
// go-ethereum v1.8.27 trie and with Model/Trie.v (structure after every write, root through the
// node images the trie database holds).

import (
	"bytes"
	"fmt"
	"sort"

	"github.com/dappledger/AnnChain/eth/common"
	"github.com/dappledger/AnnChain/eth/crypto"
	"github.com/dappledger/AnnChain/eth/ethdb"
	intrie "github.com/dappledger/AnnChain/eth/trie"
)

type trieOp struct {
	Op    string `json:"op"` // put del get hash reopen prove
	Key   string `json:"key"`
	Value string `json:"value,omitempty"`
}
type trieCase struct {
	Ops []trieOp `json:"ops"`
}

func genTrieCase(r *Rng, i int) *trieCase {
	// a key universe with shared prefixes of every length, including keys that are prefixes of others
	alpha := [][]byte{{0x00}, {0x01}, {0x10}, {0x11}, {0xab}, {0xa0}, {0xff}}
	var keys [][]byte
	nk := 3 + r.Intn(10)
	for len(keys) < nk {
		l := r.Intn(5)
		var k []byte
		if len(keys) > 0 && r.Chance(2, 3) {
			base := keys[r.Intn(len(keys))]
			cut := r.Intn(len(base) + 1)
			k = append([]byte{}, base[:cut]...)
		}
		for len(k) < l {
			k = append(k, alpha[r.Intn(len(alpha))]...)
		}
		if r.Chance(1, 10) {
			k = r.Bytes(32) // a hashed key, as the secure trie uses
		}
		keys = append(keys, k)
	}
	c := &trieCase{}
	n := 5 + r.Intn(40)
	for j := 0; j < n; j++ {
		k := keys[r.Intn(len(keys))]
		switch x := r.Intn(20); {
		case x < 9:
			var l int
			switch r.Intn(5) {
			case 0:
				l = 1
			case 1:
				l = 31 + r.Intn(3)
			case 2:
				l = 60 + r.Intn(10)
			default:
				l = 1 + r.Intn(12)
			}
			c.Ops = append(c.Ops, trieOp{Op: "put", Key: hexs(k), Value: hexs(r.Bytes(l))})
		case x < 13:
			c.Ops = append(c.Ops, trieOp{Op: "del", Key: hexs(k)})
		case x < 15:
			c.Ops = append(c.Ops, trieOp{Op: "get", Key: hexs(k)})
		case x < 17:
			c.Ops = append(c.Ops, trieOp{Op: "hash"})
		case x < 18:
			c.Ops = append(c.Ops, trieOp{Op: "reopen"})
		case x < 19:
			c.Ops = append(c.Ops, trieOp{Op: "put", Key: hexs(k), Value: ""}) // empty value = delete
		default:
			c.Ops = append(c.Ops, trieOp{Op: "prove", Key: hexs(k)})
		}
	}
	c.Ops = append(c.Ops, trieOp{Op: "hash"})
	return c
}

func runTrieCase(idx int, c *trieCase) (string, []MonitorHit, map[string]int, bool) {
	dist := map[string]int{}
	var hits []MonitorHit
	hit := func(sig, what string) { hits = append(hits, MonitorHit{Case: idx, Sig: sig, What: what}) }
	ref := func(cmd string, k, v []byte) []byte {
		out, err := refCall(map[string]string{"cmd": cmd, "key": hexs(k), "value": hexs(v)})
		if err != "" {
			hit("reference-error", cmd+": "+err)
		}
		return unhex(out)
	}
	disk := ethdb.NewMemDatabase()
	tdb := intrie.NewDatabase(disk)
	t, _ := intrie.New(common.Hash{}, tdb)
	ref("trie-new", nil, nil)
	content := map[string][]byte{}
	oracle := map[string][]byte{}
	empty := crypto.Keccak256([]byte{0x80})
	oracle[string([]byte{0x80})] = empty
	// roots seen for a content: equal content must give equal roots whatever the history
	rootOf := map[string]string{}
	contentKey := func() string {
		var ks []string
		for k := range content {
			ks = append(ks, k)
		}
		sort.Strings(ks)
		var sb bytes.Buffer
		for _, k := range ks {
			fmt.Fprintf(&sb, "%x=%x;", k, content[k])
		}
		return sb.String()
	}
	var steps []string
	maxc := 0
	for _, op := range c.Ops {
		dist["op="+op.Op]++
		k, v := unhex(op.Key), unhex(op.Value)
		var obs string
		panicked, msg := catchPanic(func() {
			switch op.Op {
			case "put":
				t.Update(k, v)
				ref("trie-put", k, v)
				if len(v) == 0 {
					delete(content, string(k))
				} else {
					content[string(k)] = v
				}
				d, err := t.VerifDump()
				if err != nil {
					hit("trie-missing-node", err.Error())
				}
				obs = sxL("0", sxB(k), sxB(v), d)
			case "del":
				t.Delete(k)
				ref("trie-del", k, nil)
				delete(content, string(k))
				d, err := t.VerifDump()
				if err != nil {
					hit("trie-missing-node", err.Error())
				}
				obs = sxL("1", sxB(k), d)
			case "get":
				got := t.Get(k)
				rgot := ref("trie-get", k, nil)
				want, ok := content[string(k)]
				if !bytes.Equal(got, rgot) {
					hit("trie-differs-from-reference op=get", fmt.Sprintf("key %x: %x vs %x", k, got, rgot))
				}
				if (ok && !bytes.Equal(got, want)) || (!ok && len(got) != 0) {
					hit("trie-get-wrong", fmt.Sprintf("key %x: got %x, content has %x", k, got, want))
				}
				obs = sxL("2", sxB(k), sxOpt(sxB(got), len(got) > 0))
			case "hash":
				root, err := t.Commit(nil)
				if err != nil {
					hit("trie-commit-error", err.Error())
				}
				rroot := ref("trie-root", nil, nil)
				if !bytes.Equal(root[:], rroot[:]) {
					hit("trie-differs-from-reference op=root", fmt.Sprintf("%x vs %x", root, rroot))
				}
				ck := contentKey()
				if old, ok := rootOf[ck]; ok && old != string(root[:]) {
					hit("trie-root-depends-on-history", fmt.Sprintf("content %s hashed to %x and to %x", ck, old, root))
				}
				rootOf[ck] = string(root[:])
				for _, h := range tdb.Nodes() {
					if blob, err := tdb.Node(h); err == nil {
						oracle[string(blob)] = append([]byte{}, h[:]...)
					}
				}
				obs = sxL("3", sxB(root[:]))
			case "reopen":
				root, err := t.Commit(nil)
				if err != nil {
					hit("trie-commit-error", err.Error())
				}
				for _, h := range tdb.Nodes() {
					if blob, err := tdb.Node(h); err == nil {
						oracle[string(blob)] = append([]byte{}, h[:]...)
					}
				}
				tdb.Commit(root, false)
				tdb = intrie.NewDatabase(disk) // nothing cached: everything comes back from the store
				nt, err := intrie.New(root, tdb)
				if err != nil {
					hit("trie-reopen-failed", err.Error())
					return
				}
				t = nt
				if rroot := ref("trie-reopen", nil, nil); !bytes.Equal(root[:], rroot) {
					hit("trie-differs-from-reference op=root", fmt.Sprintf("%x vs %x", root, rroot))
				}
				// the reopened trie holds exactly the content
				for ks, want := range content {
					if got := t.Get([]byte(ks)); !bytes.Equal(got, want) {
						hit("trie-reopen-lost-content", fmt.Sprintf("key %x: %x, expected %x", ks, got, want))
					}
				}
				d, err := t.VerifDump()
				if err != nil {
					hit("trie-missing-node", err.Error())
				}
				obs = sxL("4", sxB(root[:]), d)
			case "prove":
				root, _ := t.Commit(nil)
				ref("trie-root", nil, nil)
				for _, h := range tdb.Nodes() {
					if blob, err := tdb.Node(h); err == nil {
						oracle[string(blob)] = append([]byte{}, h[:]...)
					}
				}
				proof := ethdb.NewMemDatabase()
				if err := t.Prove(k, 0, proof); err != nil {
					hit("trie-prove-error", err.Error())
				}
				val, _, err := intrie.VerifyProof(root, k, proof)
				want := content[string(k)]
				if err != nil {
					kind := "non-empty-trie"
					if len(content) == 0 {
						kind = "empty-trie"
					}
					hit("trie-proof-rejected kind="+kind, fmt.Sprintf("key %x: %v", k, err))
				} else if !bytes.Equal(val, want) {
					hit("trie-proof-wrong-value", fmt.Sprintf("key %x: proof yields %x, trie holds %x", k, val, want))
				}
				// the proof must not verify another value or another key's presence
				if len(want) > 0 {
					other := append([]byte{}, k...)
					other = append(other, 0x5a)
					if _, has := content[string(other)]; !has {
						if v2, _, err2 := intrie.VerifyProof(root, other, proof); err2 == nil && len(v2) > 0 {
							hit("trie-proof-proves-absent-key", fmt.Sprintf("key %x", other))
						}
					}
				}
				obs = sxL("3", sxB(root[:]))
			}
		})
		if panicked {
			hit("trie-panic op="+op.Op, msg)
			obs = "(9)"
		}
		steps = append(steps, obs)
		if len(content) > maxc {
			maxc = len(content)
		}
	}
	dist[fmt.Sprintf("max-keys=%d", maxc/4*4)]++
	var tbl []string
	for pre, dig := range oracle {
		tbl = append(tbl, sxL(sxB([]byte(pre)), sxB(dig)))
	}
	sort.Strings(tbl)
	return sxL(sxL(tbl...), sxL(steps...)), hits, dist, maxc >= 3
}

func init() {
	engines["trie"] = func(args []string) error {
		return runGenericEngine("trie",
			"case = operation history on one trie: 5..45 operations over 3..12 keys built to share prefixes of every length (keys that are prefixes of other keys, the empty key, 32-byte hashed keys), values of 1, 31..33, 60..70 and 1..12 bytes (both sides of the 32-byte embedding threshold), operations put / put-empty (delete) / delete / get / commit-and-hash / commit-and-reopen from an uncached database / Merkle proof and verification; the same history runs on the reference go-ethereum v1.8.27 trie; after every write the fully resolved node structure is dumped (verif shim) for the model; the model computes roots through the (encoding, hash) pairs read from the trie database; distinct = case line; non-trivial = at least 3 keys held at once",
			args,
			func(r *Rng, i int) interface{} { return genTrieCase(r, i) },
			func(f string) (interface{}, error) {
				var c trieCase
				if err := readCase(f, &c); err != nil {
					return nil, err
				}
				return &c, nil
			},
			func(i int, ci interface{}, out string) (string, []MonitorHit, map[string]int, bool) {
				return runTrieCase(i, ci.(*trieCase))
			})
	}
}
