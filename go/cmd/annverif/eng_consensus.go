package main

// Engine "consensus" (C01, C02, C04, C07, C12; C16 proposer rotation inside the state machine):
// N real pbft.ConsensusState instances stepped synchronously through the verif shim under an
// adversarial scheduler (any delivery order, duplication, loss, timeouts, Byzantine validators
// holding < 1/3 of the power that equivocate, crash/restart with WAL replay), followed by a fair
// suffix.  Every honest node's sequence of (input, observation) pairs is a case for Model/Node.v.

import (
	"bytes"
	"crypto/sha256"
	"encoding/json"
	"fmt"
	"io/ioutil"
	"os"
	"path/filepath"
	"reflect"
	"sort"
	"strings"

	"github.com/spf13/viper"

	bc "github.com/dappledger/AnnChain/gemmill/blockchain"
	"github.com/dappledger/AnnChain/gemmill/consensus/pbft"
	crypto "github.com/dappledger/AnnChain/gemmill/go-crypto"
	wire "github.com/dappledger/AnnChain/gemmill/go-wire"
	"github.com/dappledger/AnnChain/gemmill/mempool"
	gcmn "github.com/dappledger/AnnChain/gemmill/modules/go-common"
	dbm "github.com/dappledger/AnnChain/gemmill/modules/go-db"
	"github.com/dappledger/AnnChain/gemmill/modules/go-events"
	sm "github.com/dappledger/AnnChain/gemmill/state"
	"github.com/dappledger/AnnChain/gemmill/types"
)

type csCase struct {
	Seed uint64 `json:"seed"`
	Note string `json:"note"`
	// engine "sysrun": while an honest node is still at height 1 crashes leave the log intact, so
	// that the schedule of height 1 is complete (restarts are events of it)
	NoCrashH1 bool `json:"no_crash_h1,omitempty"`
}

type nullExec struct{}

func (nullExec) BeginBlock(*types.Block, events.Fireable, *types.PartSetHeader) error { return nil }
func (nullExec) ExecBlock(*types.Block, events.Fireable, *types.ExecuteResult) error  { return nil }
func (nullExec) EndBlock(*types.Block, events.Fireable, *types.PartSetHeader, []*types.ValidatorAttr, *types.ValidatorSet) error {
	return nil
}

type netMsg struct {
	msg   pbft.ConsensusMessage
	from  string
	after int // not delivered before this scheduler step (adversarial prefix only)
}

type vnode struct {
	idx      int
	dir      string
	stateDB  dbm.DB
	blockDB  dbm.DB
	archDB   dbm.DB
	conf     *viper.Viper
	cs       *pbft.ConsensusState
	ticker   *pbft.VerifTicker
	st       *sm.State
	store    *bc.BlockStore
	pv       *types.PrivValidator
	inbox    []netMsg
	internal []pbft.ConsensusMessage
	timeout  *pbft.VerifTimeout // armed timer, if any
	tiLast   pbft.VerifTimeout  // the ticker's memory of the last request it accepted
	trace    []string // sx of steps
	preCrash string
	evsw     types.EventSwitch
	walIn    []bool   // the inputs logged since the current height began: true = record intact
	down     bool
	panicked string
	// what this node signed: "h/r/type" -> block id key
	signed map[string]string
	// lock bookkeeping for the C04 monitor
	lastPrecommitRound int64
	lastPrecommitHash  []byte
	lastPrecommitH     int64
	commits            map[int64][]byte
}

type cnet struct {
	r        *Rng
	chainID  string
	n        int
	keys     []crypto.PrivKeyEd25519
	addrs    [][]byte
	powers   []int64
	byz      []bool
	nodes    []*vnode
	genDoc   *types.GenesisDoc
	archive  map[int64][]netMsg
	workdir  string
	skip     bool
	partSize int
	hits     []MonitorHit
	caseIdx  int
	dist     map[string]int
	blocks   map[string]*types.Block // by part-set-header key: blocks seen on the wire
	psets    map[string]*types.PartSet
	txn      int
	proposers map[string][]byte
	madeInvalid map[string]string // blocks built to be invalid, by hash -> what is wrong with them
	delay    int                   // how often a broadcast message is held back for a while
	now      int
	// the global schedule of height 1 for the system model (engine "sysrun"): every input and
	// majority claim an honest node handled while at height 1, in order, until the first crash
	glog     []string
	gCommits []string
	gStop    bool
	sysClaimed map[int]bool // nodes whose state a (never logged) majority claim changed at height 1
	sysDown    map[int]bool // nodes that crashed at height 1 with an intact log: their restart is an event
}

// sysNote records one handled event of a node that was at height 1 for the system model
func (c *cnet) sysNote(nd *vnode, hBefore int64, in string) {
	if c.gStop || hBefore != 1 {
		return
	}
	c.glog = append(c.glog, sxL(sxB(c.addrs[nd.idx]), in))
	if nd.cs.GetRoundState().Height > 1 {
		if h, ok := nd.commits[1]; ok {
			c.gCommits = append(c.gCommits, sxL(sxB(c.addrs[nd.idx]), sxB(h)))
		}
	}
}

// lastSysLine is the system-model case of the network runConsensusCase ran last ("" if none)
var lastSysLine string

func (c *cnet) hit(sig, what string) {
	c.hits = append(c.hits, MonitorHit{Case: c.caseIdx, Sig: sig, What: what})
}

func pshKey(h types.PartSetHeader) string { return fmt.Sprintf("%d:%x", h.Total, h.Hash) }

func (c *cnet) conf(i int) *viper.Viper {
	conf := viper.New()
	conf.Set("chain_id", c.chainID)
	conf.Set("cs_wal_dir", filepath.Join(c.workdir, fmt.Sprintf("node%d", i), "wal"))
	conf.Set("cs_wal_light", false)
	conf.Set("timeout_propose", 3000)
	conf.Set("timeout_propose_delta", 500)
	conf.Set("timeout_prevote", 1000)
	conf.Set("timeout_prevote_delta", 500)
	conf.Set("timeout_precommit", 1000)
	conf.Set("timeout_precommit_delta", 500)
	conf.Set("timeout_commit", 1000)
	conf.Set("skip_timeout_commit", c.skip)
	conf.Set("block_size", 50)
	conf.Set("block_part_size", c.partSize)
	conf.Set("mempool_wal_dir", "")
	conf.Set("mempool_recheck", false)
	return conf
}

// boot (re)creates the consensus state of node i from its durable parts
func (c *cnet) boot(i int, fresh bool) error {
	nd := c.nodes[i]
	if fresh {
		nd = &vnode{idx: i, dir: filepath.Join(c.workdir, fmt.Sprintf("node%d", i)), stateDB: dbm.NewMemDB(), blockDB: dbm.NewMemDB(), archDB: dbm.NewMemDB(),
			signed: map[string]string{}, commits: map[int64][]byte{}, lastPrecommitRound: -1}
		os.MkdirAll(nd.dir, 0700)
		c.nodes[i] = nd
		pv, err := types.GenPrivValidator("", c.keys[i])
		if err != nil {
			return err
		}
		pv.SetFile(filepath.Join(nd.dir, "priv_validator.json"))
		if err := pv.Save(); err != nil {
			return err
		}
	}
	nd.conf = c.conf(i)
	st := sm.LoadState(nd.stateDB)
	if st == nil {
		gd := *c.genDoc
		st = sm.MakeGenesisState(nd.stateDB, &gd)
		st.Save()
	}
	st.SetBlockExecutable(nullExec{})
	nd.st = st
	nd.store = bc.NewBlockStore(nd.blockDB, nd.archDB)
	pool := mempool.NewMempool(nd.conf)
	for k := 0; k < 2; k++ {
		c.txn++
		pool.ReceiveTx(types.Tx(fmt.Sprintf("tx-%d-%d-%s", i, c.txn, strings.Repeat("x", c.r.Intn(300)+c.bigTx()))))
	}
	cs := pbft.NewConsensusState(nd.conf, st, nd.store, pool)
	if cs == nil {
		return fmt.Errorf("NewConsensusState returned nil")
	}
	st.SetBlockVerifier(cs)
	pv, err := types.LoadPrivValidator(filepath.Join(nd.dir, "priv_validator.json"))
	if err != nil {
		return err
	}
	nd.pv = pv
	cs.SetPrivValidator(pv)
	evsw := types.NewEventSwitch()
	evsw.Start()
	types.AddListenerForEvent(evsw, "h", types.EventStringHookNewRound(), func(ed types.TMEventData) {
		ed.(types.EventDataHookNewRound).ResCh <- types.NewRoundResult{}
	})
	types.AddListenerForEvent(evsw, "h", types.EventStringHookExecute(), func(ed types.TMEventData) {
		ed.(types.EventDataHookExecute).ResCh <- types.ExecuteResult{}
	})
	types.AddListenerForEvent(evsw, "h", types.EventStringHookCommit(), func(ed types.TMEventData) {
		d := ed.(types.EventDataHookCommit)
		h := sha256.Sum256(append([]byte("app"), d.Block.Hash()...))
		d.ResCh <- types.CommitResult{AppHash: h[:20], ReceiptsHash: h[12:]}
	})
	cs.SetEventSwitch(evsw)
	nd.evsw = evsw
	nd.cs = cs
	nd.ticker = cs.VerifInstallTicker()
	nd.down = false
	nd.internal = nil
	nd.timeout = nil
	nd.tiLast = pbft.VerifTimeout{}
	var berr error
	if p, msg := catchPanic(func() { berr = cs.VerifBoot() }); p {
		nd.panicked = msg
		c.hit("node-panic at=boot", msg)
	}
	_ = berr
	return nil
}

// ---------- observation ----------

func bitsSx(ba *gcmn.BitArray, n int) string {
	var xs []string
	for i := 0; i < n; i++ {
		xs = append(xs, sxBool(ba != nil && ba.GetIndex(i)))
	}
	return sxL(xs...)
}
func majSx(vs *types.VoteSet) string {
	if b, ok := vs.TwoThirdsMajority(); ok {
		return sxL(sxBid(bidJ(b)))
	}
	return "()"
}

func (c *cnet) observe(nd *vnode, outs []string) string {
	rs := nd.cs.GetRoundState()
	lb := "()"
	if rs.LockedBlock != nil {
		h := rs.LockedBlockParts.Header()
		lb = sxL(sxB(rs.LockedBlock.Hash()), sxZ(int64(h.Total)), sxB(h.Hash))
	}
	pr := "()"
	if rs.Proposal != nil {
		p := rs.Proposal
		pr = sxL(sxZ(p.Height), sxZ(p.Round), sxZ(p.POLRound), sxZ(int64(p.BlockPartsHeader.Total)), sxB(p.BlockPartsHeader.Hash))
	}
	pb := "()"
	if rs.ProposalBlock != nil {
		pb = sxL(sxB(rs.ProposalBlock.Hash()))
	}
	pp := "()"
	if rs.ProposalBlockParts != nil {
		h := rs.ProposalBlockParts.Header()
		pp = sxL(sxZ(int64(h.Total)), sxB(h.Hash), sxZ(int64(rs.ProposalBlockParts.Count())))
	}
	nv := rs.Validators.Size()
	var vs []string
	for r := int64(0); r <= rs.Votes.Round()+3; r++ {
		pv, pc := rs.Votes.Prevotes(r), rs.Votes.Precommits(r)
		if pv == nil {
			continue
		}
		vs = append(vs, sxL(sxZ(r), bitsSx(pv.BitArray(), nv), majSx(pv), bitsSx(pc.BitArray(), nv), majSx(pc)))
	}
	prop := rs.Validators.Proposer()
	// C16: all honest nodes name the same proposer for a height and round
	pk := fmt.Sprintf("%d/%d", rs.Height, rs.Round)
	if old, ok := c.proposers[pk]; ok && !bytes.Equal(old, prop.Address) {
		c.hit("proposer-disagreement", fmt.Sprintf("height/round %s: node%d names %x, another honest node named %x", pk, nd.idx, prop.Address, old))
	} else if !ok {
		c.proposers[pk] = prop.Address
	}
	lc := "()"
	if rs.LastCommit != nil {
		lc = sxL(bitsSx(rs.LastCommit.BitArray(), rs.LastCommit.Size()), majSx(rs.LastCommit))
	}
	return sxL(sxZ(rs.Height), sxZ(rs.Round), sxZ(int64(rs.Step)), sxZ(rs.LockedRound), lb, pr, pb, pp, sxZ(rs.CommitRound),
		sxB(prop.Address), sxL(vs...), lc, sxL(outs...))
}

// collect what the node queued for itself and scheduled; returns the sx of the outputs
func (c *cnet) collect(nd *vnode, hBefore int64) []string {
	var outs []string
	me := fmt.Sprintf("node%d", nd.idx)
	var curProp string
	nparts := 0
	flush := func() {
		if curProp != "" {
			outs = append(outs, strings.Replace(curProp, "NPARTS", sxZ(int64(nparts)), 1))
			curProp, nparts = "", 0
		}
	}
	for {
		m, ok := nd.cs.VerifPopInternal()
		if !ok {
			break
		}
		nd.internal = append(nd.internal, m)
		switch x := m.(type) {
		case *pbft.ProposalMessage:
			flush()
			p := x.Proposal
			curProp = sxL("1", sxZ(p.Round), sxZ(p.POLRound), sxZ(int64(p.BlockPartsHeader.Total)), sxB(p.BlockPartsHeader.Hash), "NPARTS")
			c.broadcast(nd.idx, p.Height, netMsg{msg: m, from: me})
		case *pbft.BlockPartMessage:
			nparts++
			c.broadcast(nd.idx, x.Height, netMsg{msg: m, from: me})
		case *pbft.VoteMessage:
			flush()
			v := x.Vote
			outs = append(outs, sxL("0", sxZ(int64(v.Type)), sxZ(v.Round), sxBid(bidJ(v.BlockID))))
			c.broadcast(nd.idx, v.Height, netMsg{msg: m, from: me})
			c.noteSigned(nd, v)
		}
	}
	flush()
	c.learnOwnBlocks(nd)
	for _, t := range nd.ticker.Drain() {
		outs = append(outs, sxL("3", sxZ(t.Height), sxZ(t.Round), sxZ(int64(t.Step))))
		// the real ticker (ticker.go timeoutRoutine) ignores a request older than the last one it took
		ti := nd.tiLast
		if t.Height < ti.Height {
			continue
		} else if t.Height == ti.Height {
			if t.Round < ti.Round {
				continue
			} else if t.Round == ti.Round && ti.Step > 0 && t.Step <= ti.Step {
				continue
			}
		}
		tt := t
		nd.tiLast = t
		nd.timeout = &tt
	}
	rs := nd.cs.GetRoundState()
	for h := hBefore; h < rs.Height; h++ {
		b := nd.store.LoadBlock(h)
		if b != nil {
			outs = append(outs, sxL("4", sxZ(h), sxB(b.Hash())))
			nd.commits[h] = b.Hash()
			c.checkCommitted(nd, h, b)
		}
	}
	return outs
}

func (c *cnet) broadcast(from int, height int64, m netMsg) {
	c.archive[height] = append(c.archive[height], m)
	for j, nd := range c.nodes {
		if j == from || nd == nil {
			continue
		}
		mm := m
		if c.delay > 0 && c.r.Intn(100) < c.delay {
			mm.after = c.now + 10 + c.r.Intn(150)
		}
		nd.inbox = append(nd.inbox, mm)
	}
}

// ---------- monitors ----------

func (c *cnet) noteSigned(nd *vnode, v *types.Vote) {
	k := fmt.Sprintf("%d/%d/%d", v.Height, v.Round, v.Type)
	id := string(v.BlockID.Key())
	if old, ok := nd.signed[k]; ok && old != id {
		c.hit("honest-equivocation", fmt.Sprintf("node%d signed two different votes for h/r/type %s", nd.idx, k))
	}
	nd.signed[k] = id
	rs := nd.cs.GetRoundState()
	// C04: a prevote that leaves an earlier precommit needs a later polka for something else
	if v.Type == types.VoteTypePrevote && nd.lastPrecommitH == v.Height && len(nd.lastPrecommitHash) > 0 &&
		v.Round > nd.lastPrecommitRound && !bytes.Equal(v.BlockID.Hash, nd.lastPrecommitHash) {
		justified := false
		for r := nd.lastPrecommitRound + 1; r <= v.Round; r++ {
			if pv := rs.Votes.Prevotes(r); pv != nil {
				if b, ok := pv.TwoThirdsMajority(); ok && !bytes.Equal(b.Hash, nd.lastPrecommitHash) {
					justified = true
				}
			}
		}
		if !justified {
			c.hit("lock-abandoned-without-polka", fmt.Sprintf("node%d precommitted %x in round %d and prevotes %x in round %d without a +2/3 prevote for anything else in between",
				nd.idx, nd.lastPrecommitHash, nd.lastPrecommitRound, v.BlockID.Hash, v.Round))
		}
	}
	if v.Type == types.VoteTypePrecommit {
		if len(v.BlockID.Hash) > 0 {
			// C04: precommit only on an own +2/3 prevote for that block in that round
			pv := rs.Votes.Prevotes(v.Round)
			b, ok := types.BlockID{}, false
			if pv != nil {
				b, ok = pv.TwoThirdsMajority()
			}
			if !ok || !b.Equals(v.BlockID) {
				c.hit("precommit-without-polka", fmt.Sprintf("node%d precommits %x in round %d", nd.idx, v.BlockID.Hash, v.Round))
			}
			nd.lastPrecommitH, nd.lastPrecommitRound, nd.lastPrecommitHash = v.Height, v.Round, v.BlockID.Hash
		}
	}
}

// C12: a lock does not outlive a +2/3 prevote for something else in a later round the node has reached
// (this version prevotes its locked block whatever is proposed: releasing the lock is what lets a
// height terminate once the others have moved on)
func (c *cnet) checkLock(nd *vnode) {
	if nd.down || nd.panicked != "" {
		return
	}
	rs := nd.cs.GetRoundState()
	if rs.LockedBlock == nil || rs.Votes == nil {
		return
	}
	for r := rs.LockedRound + 1; r <= rs.Round; r++ {
		if pv := rs.Votes.Prevotes(r); pv != nil {
			if b, ok := pv.TwoThirdsMajority(); ok && !bytes.Equal(b.Hash, rs.LockedBlock.Hash()) {
				c.hit("lock-kept-against-later-polka", fmt.Sprintf("node%d at %d/%d stays locked on %x from round %d although it holds +2/3 prevotes for %x in round %d",
					nd.idx, rs.Height, rs.Round, rs.LockedBlock.Hash(), rs.LockedRound, b.Hash, r))
				return
			}
		}
	}
}

// C01/C02 on every commit
func (c *cnet) checkCommitted(nd *vnode, h int64, b *types.Block) {
	for j, o := range c.nodes {
		if o == nil || j == nd.idx {
			continue
		}
		if oh, ok := o.commits[h]; ok && !bytes.Equal(oh, b.Hash()) {
			c.hit("fork", fmt.Sprintf("height %d: node%d committed %x, node%d committed %x", h, nd.idx, b.Hash(), j, oh))
		}
	}
	if h > 1 {
		prev := nd.store.LoadBlockMeta(h - 1)
		if prev == nil || !bytes.Equal(prev.Hash, b.LastBlockID.Hash) {
			c.hit("chain-not-linear", fmt.Sprintf("node%d height %d", nd.idx, h))
		}
	}
	// the stored commit verifies, signature by signature, against the height's validator set
	sc := nd.store.LoadSeenCommit(h)
	vals := nd.st.Validators // state was updated already: LastValidators signed height h
	st := nd.cs.GetState()
	if st != nil {
		vals = st.LastValidators
	}
	meta := nd.store.LoadBlockMeta(h)
	bid := types.BlockID{Hash: meta.Hash, PartsHeader: meta.PartsHeader}
	if sc == nil {
		c.hit("commit-missing", fmt.Sprintf("node%d height %d", nd.idx, h))
	} else if err := vals.VerifyCommit(c.chainID, bid, h, sc); err != nil {
		c.hit("stored-commit-does-not-verify", fmt.Sprintf("node%d height %d: %v", nd.idx, h, err))
	}
	// every header commitment equals the hash of what it commits to
	if !bytes.Equal(b.DataHash, b.Data.Hash()) || !bytes.Equal(b.LastCommitHash, b.LastCommit.Hash()) {
		c.hit("committed-block-invalid", fmt.Sprintf("node%d height %d: data or last-commit hash", nd.idx, h))
	}
	if vals != nil && !bytes.Equal(b.ValidatorsHash, vals.Hash()) {
		c.hit("committed-block-invalid kind=validators-hash", fmt.Sprintf("node%d height %d", nd.idx, h))
	}
	if h > 1 {
		if pb := nd.store.LoadBlock(h - 1); pb != nil {
			if lc := nd.store.LoadBlockCommit(h - 1); lc == nil || !bytes.Equal(lc.Hash(), b.LastCommit.Hash()) {
				c.hit("block-commit-mismatch", fmt.Sprintf("node%d height %d", nd.idx, h))
			}
		}
	}
}

// ---------- model inputs ----------

func (c *cnet) signerOf(p *types.Proposal) []byte {
	sb := types.SignBytes(c.chainID, p)
	for i, k := range c.keys {
		if p.Signature != nil && k.PubKey().VerifyBytes(sb, p.Signature) {
			return c.addrs[i]
		}
	}
	return nil
}

func (c *cnet) voteSigOK(v *types.Vote) bool {
	if v.ValidatorIndex < 0 || v.ValidatorIndex >= c.n {
		return false
	}
	return v.Signature != nil && c.keys[v.ValidatorIndex].PubKey().VerifyBytes(types.SignBytes(c.chainID, v), v.Signature)
}

// blockOfPart identifies the block a part was cut from (by the Merkle root in its proof)
func (c *cnet) blockOfPart(nd *vnode, part *types.Part) (string, bool) {
	for key, ps := range c.psets {
		if part.Index >= 0 && part.Index < ps.Total() && part.Proof.Verify(part.Index, ps.Total(), part.Hash(), ps.Hash()) {
			b := c.blocks[key]
			if b == nil {
				// a part set that is not the encoding of a block
				return sxL("#", sxZ(int64(ps.Total())), sxB(ps.Hash()), "0"), true
			}
			valid := false
			if p, _ := catchPanic(func() { valid = nd.cs.ValidateBlock(b) == nil }); p {
				valid = false
			}
			if kind, bad := c.madeInvalid[string(b.Hash())]; bad && valid && b.Height == nd.cs.GetRoundState().Height {
				c.hit("invalid-block-accepted kind="+kind, fmt.Sprintf("node%d: ValidateBlock accepts a height-%d block whose %s is wrong", nd.idx, b.Height, kind))
			}
			return sxL(sxB(b.Hash()), sxZ(int64(ps.Total())), sxB(ps.Hash()), sxBool(valid)), true
		}
	}
	return sxL("#", "0", "#", "0"), false
}

func (c *cnet) inputSx(nd *vnode, m netMsg) string {
	peer := sxB([]byte(m.from))
	switch x := m.msg.(type) {
	case *pbft.ProposalMessage:
		p := x.Proposal
		return sxL("0", sxL(sxZ(p.Height), sxZ(p.Round), sxZ(p.POLRound), sxZ(int64(p.BlockPartsHeader.Total)), sxB(p.BlockPartsHeader.Hash)), sxB(c.signerOf(p)), peer)
	case *pbft.BlockPartMessage:
		b, _ := c.blockOfPart(nd, x.Part)
		return sxL("1", sxZ(x.Height), sxZ(x.Round), sxZ(int64(x.Part.Index)), b, "1", peer)
	case *pbft.VoteMessage:
		return sxL("2", sxVote(voteJ(x.Vote, ""), c.voteSigOK(x.Vote)), peer)
	}
	return "(9)"
}

func (c *cnet) registerBlock(b *types.Block, ps *types.PartSet) {
	k := pshKey(ps.Header())
	c.blocks[k] = b
	c.psets[k] = ps
}

// deliver one message to a node and record the step
func (c *cnet) deliver(nd *vnode, m netMsg) {
	if nd.down || nd.panicked != "" {
		return
	}
	// blocks created by honest proposers are learnt from their own proposals
	if pm, ok := m.msg.(*pbft.ProposalMessage); ok && m.from == "" {
		rs := nd.cs.GetRoundState()
		_ = rs
		_ = pm
	}
	in := c.inputSx(nd, m)
	hBefore := nd.cs.GetRoundState().Height
	nd.walIn = append(nd.walIn, true)
	defer func() {
		if nd.panicked == "" && nd.cs.GetRoundState().Height != hBefore {
			nd.walIn = nil
		}
	}()
	if p, msg := catchPanic(func() { nd.cs.VerifDeliverMsg(m.msg, m.from) }); p {
		nd.panicked = msg
		c.hit("node-panic at=message", fmt.Sprintf("node%d on %s: %s [%s]", nd.idx, in, firstLine(msg), lastPanicWhere))
		nd.trace = append(nd.trace, sxL(in, "(2)"))
		c.gStop = true
		return
	}
	outs := c.collect(nd, hBefore)
	nd.trace = append(nd.trace, sxL(in, c.observe(nd, outs)))
	c.sysNote(nd, hBefore, in)
	c.checkLock(nd)
}

func wireReadBlock(ps *types.PartSet, n *int, err *error) *types.Block {
	var b *types.Block
	catchPanic(func() {
		b = wire.ReadBinary(&types.Block{}, ps.GetReader(), types.MaxBlockSize, n, err).(*types.Block)
	})
	if *err != nil {
		return nil
	}
	return b
}

func firstLine(s string) string {
	if i := strings.Index(s, "\n"); i >= 0 {
		return s[:i]
	}
	return s
}

func (c *cnet) fire(nd *vnode) {
	if nd.down || nd.panicked != "" || nd.timeout == nil {
		return
	}
	t := *nd.timeout
	nd.timeout = nil
	in := sxL("3", sxZ(t.Height), sxZ(t.Round), sxZ(int64(t.Step)))
	hBefore := nd.cs.GetRoundState().Height
	nd.walIn = append(nd.walIn, true)
	defer func() {
		if nd.panicked == "" && nd.cs.GetRoundState().Height != hBefore {
			nd.walIn = nil
		}
	}()
	if p, msg := catchPanic(func() { nd.cs.VerifDeliverTimeout(t) }); p {
		nd.panicked = msg
		c.hit("node-panic at=timeout", fmt.Sprintf("node%d on %s: %s [%s]", nd.idx, in, firstLine(msg), lastPanicWhere))
		nd.trace = append(nd.trace, sxL(in, "(2)"))
		c.gStop = true
		return
	}
	outs := c.collect(nd, hBefore)
	nd.trace = append(nd.trace, sxL(in, c.observe(nd, outs)))
	c.sysNote(nd, hBefore, in)
	c.checkLock(nd)
}

// own messages: learn the blocks honest proposers create before delivering their parts
func (c *cnet) learnOwnBlocks(nd *vnode) {
	var parts []*types.Part
	var hdr *types.PartSetHeader
	for _, m := range nd.internal {
		switch x := m.(type) {
		case *pbft.ProposalMessage:
			h := x.Proposal.BlockPartsHeader
			hdr = &h
			parts = nil
		case *pbft.BlockPartMessage:
			parts = append(parts, x.Part)
			if hdr != nil && len(parts) == hdr.Total {
				if _, ok := c.psets[pshKey(*hdr)]; !ok {
					ps := types.NewPartSetFromHeader(*hdr)
					for _, p := range parts {
						ps.AddPart(p, false)
					}
					if ps.IsComplete() {
						var n int
						var err error
						blk := wireReadBlock(ps, &n, &err)
						if blk != nil {
							c.registerBlock(blk, ps)
						}
					}
				}
			}
		}
	}
}

func (c *cnet) crash(nd *vnode, tear bool) {
	if nd.down || nd.panicked != "" {
		return
	}
	nd.preCrash = c.stateKey(nd)
	atH1 := nd.cs.GetRoundState().Height == 1
	nd.cs.VerifCloseWAL()
	nd.down = true
	nd.internal = nil
	nd.timeout = nil
	tornInput := false
	if tear {
		// the last record of the log is cut at a random byte
		files, _ := filepath.Glob(filepath.Join(nd.dir, "wal", "wal*"))
		sort.Strings(files)
		head := filepath.Join(nd.dir, "wal", "wal")
		data, err := ioutil.ReadFile(head)
		if err == nil && len(data) > 2 {
			end := len(data)
			if data[end-1] == '\n' {
				end--
			}
			start := bytes.LastIndexByte(data[:end], '\n') + 1
			line := data[start:end]
			if len(line) > 1 && line[0] != '#' {
				cut := start + 1 + c.r.Intn(len(line)-1)
				tornInput = bytes.Contains(line, []byte(`"msg":[2,`)) || bytes.Contains(line, []byte(`"msg":[3,`))
				ioutil.WriteFile(head, data[:cut], 0600)
				c.dist["crash=torn"]++
				if tornInput && len(nd.walIn) > 0 {
					nd.walIn[len(nd.walIn)-1] = false
				}
			}
		}
	}
	nd.trace = append(nd.trace, sxL(sxL("5", sxBool(tornInput)), "()"))
	// the system model has a restart step for crashes with the whole log intact
	if atH1 && !c.gStop {
		if tornInput || c.sysClaimed[nd.idx] {
			c.gStop = true
		} else {
			if c.sysDown == nil {
				c.sysDown = map[int]bool{}
			}
			c.sysDown[nd.idx] = true
		}
	}
}

// stateKey summarises what a restart must bring back: height/round/step, lock, proposal block, votes
func (c *cnet) stateKey(nd *vnode) string {
	rs := nd.cs.GetRoundState()
	lb, pb := "-", "-"
	if rs.LockedBlock != nil {
		lb = fmt.Sprintf("%x@%d", rs.LockedBlock.Hash(), rs.LockedRound)
	}
	if rs.ProposalBlock != nil {
		pb = fmt.Sprintf("%x", rs.ProposalBlock.Hash())
	}
	var vs []string
	for r := int64(0); r <= rs.Votes.Round()+3; r++ { // votes of later rounds are kept too (peer catch-up)
		if pv := rs.Votes.Prevotes(r); pv != nil {
			// a round nobody has voted in yet is not part of "the votes it had received": whether its
			// (empty) containers exist depends on whether enterNewRound ran in this process lifetime
			if v := fmt.Sprintf("%d:%v/%v", r, pv.BitArray(), rs.Votes.Precommits(r).BitArray()); strings.Contains(v, "X") {
				vs = append(vs, v)
			}
		}
	}
	return fmt.Sprintf("%d/%d/%d lock=%s block=%s votes=%s", rs.Height, rs.Round, rs.Step, lb, pb, strings.Join(vs, " "))
}

// replayable counts the input records of the current height that WAL replay will reach: the
// lines after the height marker, up to the first line that does not parse
func (c *cnet) replayable(nd *vnode) int {
	st := sm.LoadState(nd.stateDB)
	h := int64(1)
	if st != nil {
		h = st.LastBlockHeight + 1
	}
	files, _ := filepath.Glob(filepath.Join(nd.dir, "wal", "wal.*"))
	sort.Strings(files)
	files = append(files, filepath.Join(nd.dir, "wal", "wal"))
	var lines [][]byte
	for _, f := range files {
		data, err := ioutil.ReadFile(f)
		if err != nil {
			continue
		}
		for _, l := range bytes.Split(data, []byte("\n")) {
			lines = append(lines, l)
		}
	}
	marker := []byte(fmt.Sprintf("#HEIGHT: %d", h))
	start := -1
	for i, l := range lines {
		if bytes.Equal(l, marker) {
			start = i
			break
		}
	}
	if start < 0 {
		return 0
	}
	k := 0
	for _, l := range lines[start+1:] {
		if len(l) == 0 || l[0] == '#' {
			continue
		}
		var msg pbft.TimedWALMessage
		var err error
		// an unreadable record is skipped by replay, the records after it are replayed
		if p, _ := catchPanic(func() { wire.ReadJSON(&msg, l, &err) }); p || err != nil {
			continue
		}
		if msg.Msg == nil {
			continue
		}
		switch reflect.TypeOf(msg.Msg).Name() {
		case "msgInfo", "timeoutInfo":
			k++
		}
	}
	return k
}

func (c *cnet) restart(nd *vnode) {
	if !nd.down {
		return
	}
	before := len(c.hits)
	k := c.replayable(nd)
	var mask []string
	intact := 0
	for _, b := range nd.walIn {
		mask = append(mask, sxBool(b))
		if b {
			intact++
		}
	}
	if k != intact {
		c.hit("harness-error", fmt.Sprintf("node%d: %d readable input records in the log, %d expected", nd.idx, k, intact))
	}
	tag := sxL("6", sxL(mask...))
	if err := c.boot(nd.idx, false); err != nil {
		c.hit("restart-failed", err.Error())
		c.gStop = true
		return
	}
	nd = c.nodes[nd.idx]
	_ = before
	if nd.panicked != "" {
		nd.trace = append(nd.trace, sxL(tag, "(2)"))
		c.gStop = true
		return
	}
	outs := c.collect(nd, nd.cs.GetRoundState().Height)
	nd.trace = append(nd.trace, sxL(tag, c.observe(nd, outs)))
	if c.sysDown[nd.idx] {
		delete(c.sysDown, nd.idx)
		if !c.gStop {
			c.glog = append(c.glog, sxL(sxB(c.addrs[nd.idx]), "(6)"))
			c.dist["sys-restarts"]++
		}
	}
	// C07: with every record intact, replay brings back the step, the lock and the votes
	if intact == len(nd.walIn) {
		if now := c.stateKey(nd); now != nd.preCrash {
			c.hit("replay-diverges", fmt.Sprintf("node%d before the crash %s, after replaying all %d records %s", nd.idx, nd.preCrash, intact, now))
		}
	}
}

// ---------- Byzantine validators ----------

func (c *cnet) byzSignVote(i int, h, r int64, t byte, bid types.BlockID, badSig bool) *types.Vote {
	v := &types.Vote{ValidatorAddress: c.addrs[i], ValidatorIndex: i, Height: h, Round: r, Type: t, BlockID: bid}
	sig := c.keys[i].Sign(types.SignBytes(c.chainID, v))
	if badSig {
		s := sig.(crypto.SignatureEd25519)
		s[3] ^= 0x40
		sig = s
	}
	v.Signature = sig
	return v
}

func (c *cnet) byzAct() {
	var bz []int
	for i, b := range c.byz {
		if b {
			bz = append(bz, i)
		}
	}
	if len(bz) == 0 {
		return
	}
	i := bz[c.r.Intn(len(bz))]
	// aim at a live honest node's current height and round
	var live []*vnode
	for _, nd := range c.nodes {
		if nd != nil && !nd.down && nd.panicked == "" {
			live = append(live, nd)
		}
	}
	if len(live) == 0 {
		return
	}
	tgt := live[c.r.Intn(len(live))]
	rs := tgt.cs.GetRoundState()
	h, r := rs.Height, rs.Round
	from := fmt.Sprintf("byz%d", i)
	// candidate block ids: whatever is on the wire at this height, nil, and garbage
	var bids []types.BlockID
	for _, m := range c.archive[h] {
		if pm, ok := m.msg.(*pbft.ProposalMessage); ok {
			if b, ok := c.blocks[pshKey(pm.Proposal.BlockPartsHeader)]; ok {
				bids = append(bids, types.BlockID{Hash: b.Hash(), PartsHeader: pm.Proposal.BlockPartsHeader})
			}
		}
	}
	bids = append(bids, types.BlockID{}, types.BlockID{Hash: c.r.Bytes(20), PartsHeader: types.PartSetHeader{Total: 1, Hash: c.r.Bytes(20)}})
	switch k := c.r.Intn(10); {
	case k < 5:
		// (possibly equivocating) vote, to one node or to all
		vr := r
		switch c.r.Intn(6) {
		case 0:
			vr = r + 1
		case 1:
			vr = r + int64(2+c.r.Intn(3))
		case 2:
			if r > 0 {
				vr = r - 1
			}
		}
		t := byte(1 + c.r.Intn(2))
		v := c.byzSignVote(i, h, vr, t, bids[c.r.Intn(len(bids))], c.r.Chance(1, 12))
		m := netMsg{msg: &pbft.VoteMessage{Vote: v}, from: from}
		c.dist["byz=vote"]++
		if c.r.Chance(1, 4) {
			// the same signed vote again under every other validator's index (address and signature kept:
			// the sign-bytes cover neither): it must count for its signer's slot only
			c.dist["byz=vote-relabelled"]++
			for idx := 0; idx < c.n; idx++ {
				if idx == i {
					continue
				}
				v2 := *v
				v2.ValidatorIndex = idx
				m2 := netMsg{msg: &pbft.VoteMessage{Vote: &v2}, from: from}
				for _, nd := range live {
					nd.inbox = append(nd.inbox, m2)
				}
			}
		}
		if c.r.Bool() {
			c.archive[h] = append(c.archive[h], m)
			for _, nd := range c.nodes {
				if nd != nil {
					nd.inbox = append(nd.inbox, m)
				}
			}
		} else {
			tgt.inbox = append(tgt.inbox, m)
		}
	case k < 8:
		// a proposal when it is our turn (or not): a block of our own making, maybe two of them
		c.dist["byz=proposal"]++
		nblocks := 1 + c.r.Intn(2)
		for q := 0; q < nblocks; q++ {
			blk, ps := c.byzBlock(tgt, i, c.r.Chance(1, 5))
			if blk == nil {
				return
			}
			c.registerBlock(blk, ps)
			polr := int64(-1)
			if r > 0 && c.r.Chance(1, 3) {
				polr = int64(c.r.Intn(int(r)))
			}
			p := types.NewProposal(h, r, ps.Header(), polr, types.BlockID{})
			p.Signature = c.keys[i].Sign(types.SignBytes(c.chainID, p))
			var dst []*vnode
			if nblocks == 1 || q == 0 {
				dst = live
			} else {
				dst = live[:1+c.r.Intn(len(live))]
			}
			pm := netMsg{msg: &pbft.ProposalMessage{Proposal: p}, from: from}
			c.archive[h] = append(c.archive[h], pm)
			for _, nd := range dst {
				nd.inbox = append(nd.inbox, pm)
			}
			for k := 0; k < ps.Total(); k++ {
				m := netMsg{msg: &pbft.BlockPartMessage{Height: h, Round: r, Part: ps.GetPart(k)}, from: from}
				c.archive[h] = append(c.archive[h], m)
				for _, nd := range dst {
					nd.inbox = append(nd.inbox, m)
				}
			}
		}
	case k < 9:
		// vote for another height
		v := c.byzSignVote(i, h+int64(c.r.Intn(3))-1, r, 2, bids[c.r.Intn(len(bids))], false)
		tgt.inbox = append(tgt.inbox, netMsg{msg: &pbft.VoteMessage{Vote: v}, from: from})
		c.dist["byz=vote-other-height"]++
	default:
		// a part that belongs to nothing being collected
		for _, ps := range c.psets {
			tgt.inbox = append(tgt.inbox, netMsg{msg: &pbft.BlockPartMessage{Height: h, Round: r, Part: ps.GetPart(0)}, from: from})
			c.dist["byz=stray-part"]++
			break
		}
	}
}

// a block a Byzantine proposer can build from what an honest node knows
func (c *cnet) byzBlock(tgt *vnode, i int, invalid bool) (*types.Block, *types.PartSet) {
	rs := tgt.cs.GetRoundState()
	st := tgt.cs.GetState()
	var commit *types.Commit
	if rs.Height == 1 {
		commit = &types.Commit{}
	} else if rs.LastCommit != nil && rs.LastCommit.HasTwoThirdsMajority() {
		commit = rs.LastCommit.MakeCommit()
	} else {
		return nil, nil
	}
	c.txn++
	txs := []types.Tx{types.Tx(fmt.Sprintf("byz-%d-%d-%s", i, c.txn, strings.Repeat("y", c.bigTx())))}
	app, rcpt, valHash, lastID, proposer := st.AppHash, st.ReceiptsHash, st.Validators.Hash(), st.LastBlockID, c.addrs[i]
	kind := ""
	if invalid {
		kinds := []string{"app-hash", "receipts-hash", "validators-hash", "last-block-id", "proposer-unknown"}
		if rs.Height > 1 {
			kinds = append(kinds, "commit-duplicated-signer", "commit-all-nil", "commit-foreign-round", "commit-missing-votes", "commit-resigned-by-us")
		}
		kind = kinds[c.r.Intn(len(kinds))]
		switch kind {
		case "app-hash":
			app = append([]byte{0xff}, app...)
		case "receipts-hash":
			rcpt = append([]byte{0xff}, rcpt...)
		case "validators-hash":
			valHash = c.r.Bytes(20)
		case "last-block-id":
			lastID = types.BlockID{Hash: c.r.Bytes(20), PartsHeader: lastID.PartsHeader}
		case "proposer-unknown":
			proposer = c.r.Bytes(20)
		case "commit-duplicated-signer":
			// our own precommit copied into every slot
			cp := *commit
			cp.Precommits = make([]*types.Vote, len(commit.Precommits))
			mine := c.byzSignVote(i, rs.Height-1, commit.Round(), types.VoteTypePrecommit, commit.BlockID, false)
			for k := range cp.Precommits {
				v := *mine
				cp.Precommits[k] = &v
			}
			commit = &cp
		case "commit-all-nil":
			cp := *commit
			cp.Precommits = make([]*types.Vote, len(commit.Precommits))
			commit = &cp
		case "commit-foreign-round":
			cp := *commit
			cp.Precommits = make([]*types.Vote, len(commit.Precommits))
			for k := range cp.Precommits {
				if c.byz[k] {
					cp.Precommits[k] = c.byzSignVote(k, rs.Height-1, commit.Round()+1, types.VoteTypePrecommit, commit.BlockID, false)
				} else {
					cp.Precommits[k] = commit.Precommits[k]
				}
			}
			commit = &cp
		case "commit-missing-votes":
			cp := *commit
			cp.Precommits = append([]*types.Vote{}, commit.Precommits...)
			kept := 0
			for k := range cp.Precommits {
				if cp.Precommits[k] != nil {
					kept++
					if kept > 1 {
						cp.Precommits[k] = nil
					}
				}
			}
			commit = &cp
		case "commit-resigned-by-us":
			// every slot signed with our key under the slot's address and index
			cp := *commit
			cp.Precommits = make([]*types.Vote, len(commit.Precommits))
			for k := range cp.Precommits {
				v := &types.Vote{ValidatorAddress: c.addrs[k], ValidatorIndex: k, Height: rs.Height - 1, Round: commit.Round(), Type: types.VoteTypePrecommit, BlockID: commit.BlockID}
				v.Signature = c.keys[i].Sign(types.SignBytes(c.chainID, v))
				cp.Precommits[k] = v
			}
			if c.byz[i] {
				commit = &cp
			}
		}
	}
	blk, ps := types.MakeBlock(rs.Height, c.chainID, txs, nil, commit, proposer, lastID, valHash, app, rcpt, c.partSize)
	if invalid {
		c.madeInvalid[string(blk.Hash())] = kind
		if kind == "commit-resigned-by-us" && !c.byz[i] {
			delete(c.madeInvalid, string(blk.Hash()))
		}
	}
	return blk, ps
}

// some blocks are large enough for their WAL records to exceed a bufio buffer
func (c *cnet) bigTx() int {
	if c.partSize >= 65536 && c.r.Chance(1, 3) {
		return 3000 + c.r.Intn(6000)
	}
	return c.r.Intn(60)
}

// ---------- the run ----------

func runConsensusCase(idx int, cse *csCase, workroot string) ([]string, []MonitorHit, map[string]int, bool) {
	r := NewRng(cse.Seed)
	c := &cnet{r: r, chainID: "verif-chain", archive: map[int64][]netMsg{}, dist: map[string]int{}, caseIdx: idx,
		blocks: map[string]*types.Block{}, psets: map[string]*types.PartSet{}, proposers: map[string][]byte{}, madeInvalid: map[string]string{},
		sysClaimed: map[int]bool{}, sysDown: map[int]bool{}}
	c.workdir = filepath.Join(workroot, fmt.Sprintf("net%d", idx))
	os.RemoveAll(c.workdir)
	os.MkdirAll(c.workdir, 0700)
	defer func() {
		for _, nd := range c.nodes {
			if nd != nil && !nd.down && nd.cs != nil {
				catchPanic(func() { nd.cs.VerifCloseWAL() })
			}
		}
		os.RemoveAll(c.workdir)
	}()
	c.n = []int{1, 3, 4, 4, 4, 5, 7}[r.Intn(7)]
	c.skip = r.Chance(1, 4)
	c.partSize = []int{256, 512, 65536}[r.Intn(3)]
	c.delay = []int{0, 0, 15, 40, 70}[r.Intn(5)]
	// keys sorted by address, like the validator set
	type kv struct {
		k crypto.PrivKeyEd25519
		a []byte
	}
	var ks []kv
	for i := 0; i < c.n; i++ {
		k := crypto.GenPrivKeyEd25519FromSecret(r.Bytes(16))
		ks = append(ks, kv{k, k.PubKey().Address()})
	}
	sort.Slice(ks, func(i, j int) bool { return bytes.Compare(ks[i].a, ks[j].a) < 0 })
	total := int64(0)
	skew := r.Chance(1, 3)
	unit := []int64{1, 1, 10, 7}[r.Intn(4)]
	for i := range ks {
		c.keys = append(c.keys, ks[i].k)
		c.addrs = append(c.addrs, ks[i].a)
		p := unit
		if skew {
			p = int64(1 + r.Intn(20))
		}
		c.powers = append(c.powers, p)
		total += p
	}
	// Byzantine subset with strictly less than a third of the power
	c.byz = make([]bool, c.n)
	bp := int64(0)
	for _, i := range r.Perm(c.n) {
		if r.Chance(1, 2) && (bp+c.powers[i])*3 < total {
			c.byz[i] = true
			bp += c.powers[i]
		}
	}
	gd := &types.GenesisDoc{ChainID: c.chainID, AppHash: []byte{}}
	for i := range c.keys {
		gd.Validators = append(gd.Validators, types.GenesisValidator{PubKey: c.keys[i].PubKey(), Amount: c.powers[i], Name: fmt.Sprintf("v%d", i)})
	}
	gd.GenesisTime = gd.GenesisTime.Add(0)
	c.genDoc = gd
	c.nodes = make([]*vnode, c.n)
	nb := 0
	for i := 0; i < c.n; i++ {
		if c.byz[i] {
			nb++
			continue
		}
		if err := c.boot(i, true); err != nil {
			c.hit("harness-error", err.Error())
			return nil, c.hits, c.dist, false
		}
		nd := c.nodes[i]
		nd.trace = append(nd.trace, sxL("(7)", c.observe(nd, c.collect(nd, 1))))
	}
	c.dist[fmt.Sprintf("n=%d", c.n)]++
	c.dist[fmt.Sprintf("byz=%d", nb)]++
	if skew {
		c.dist["powers=skewed"]++
	} else {
		c.dist["powers=equal"]++
	}
	var honest []*vnode
	for _, nd := range c.nodes {
		if nd != nil {
			honest = append(honest, nd)
		}
	}
	steps := 150 + r.Intn(250)
	crashes := 0
	for s := 0; s < steps; s++ {
		c.now = s
		nd := honest[r.Intn(len(honest))]
		nd = c.nodes[nd.idx]
		c.learnOwnBlocks(nd)
		switch k := r.Intn(100); {
		case k < 40:
			if len(nd.internal) > 0 {
				m := nd.internal[0]
				nd.internal = nd.internal[1:]
				c.deliver(nd, netMsg{msg: m, from: ""})
			} else if len(nd.inbox) > 0 {
				c.deliverFromInbox(nd)
			}
		case k < 75:
			if len(nd.inbox) > 0 {
				c.deliverFromInbox(nd)
			} else if len(nd.internal) > 0 {
				m := nd.internal[0]
				nd.internal = nd.internal[1:]
				c.deliver(nd, netMsg{msg: m, from: ""})
			}
		case k < 85:
			if len(nd.internal) == 0 || r.Chance(1, 4) {
				c.fire(nd)
			}
		case k < 94:
			c.byzAct()
		case k < 97:
			atH1 := false
			for _, hn := range honest {
				if x := c.nodes[hn.idx]; x.panicked == "" && !x.down && x.cs.GetRoundState().Height == 1 {
					atH1 = true
				}
			}
			if !nd.down && crashes < 3 && len(honest) > 1 {
				crashes++
				c.dist["crash"]++
				if r.Chance(1, 4) {
					// the log's head file was rotated some time before the crash
					c.dist["wal-rotated-before-crash"]++
					catchPanic(func() { nd.cs.VerifRotateWAL() })
				}
				tear := r.Chance(1, 3)
				if cse.NoCrashH1 && atH1 {
					tear = false // the schedule of height 1 stays complete: crashes there leave the log intact
				}
				c.crash(nd, tear)
			}
		default:
			if nd.down {
				c.restart(nd)
			} else if len(nd.inbox) > 0 && r.Bool() {
				// loss
				j := r.Intn(len(nd.inbox))
				nd.inbox = append(nd.inbox[:j], nd.inbox[j+1:]...)
				c.dist["dropped"]++
			}
		}
	}
	// fair suffix: everyone is up, everything is delivered, timeouts fire when nothing else is pending
	maxH := int64(1)
	for _, nd := range honest {
		nd = c.nodes[nd.idx]
		if nd.down {
			c.restart(nd)
		}
		if h := c.nodes[nd.idx].cs.GetRoundState().Height; h > maxH {
			maxH = h
		}
	}
	target := maxH + 1
	progress := false
	for it := 0; it < 4000; it++ {
		done := true
		idle := true
		for _, hn := range honest {
			nd := c.nodes[hn.idx]
			if nd.panicked != "" {
				continue
			}
			rs := nd.cs.GetRoundState()
			if rs.Height < target {
				done = false
			}
			c.learnOwnBlocks(nd)
			if len(nd.internal) > 0 {
				m := nd.internal[0]
				nd.internal = nd.internal[1:]
				c.deliver(nd, netMsg{msg: m, from: ""})
				idle = false
			} else if len(nd.inbox) > 0 {
				m := nd.inbox[0]
				nd.inbox = nd.inbox[1:]
				c.deliver(nd, m)
				idle = false
			}
		}
		if done {
			progress = true
			break
		}
		if idle {
			// gossip: nodes behind get what was ever sent for their height; then timeouts
			fired := false
			for _, hn := range honest {
				nd := c.nodes[hn.idx]
				if nd.panicked != "" {
					continue
				}
				rs := nd.cs.GetRoundState()
				if rs.Height < target && it%7 == 3 {
					for _, m := range c.archive[rs.Height] {
						if m.from != fmt.Sprintf("node%d", nd.idx) {
							nd.inbox = append(nd.inbox, m)
						}
					}
					c.gossipTo(nd, honest)
				}
				if nd.timeout != nil {
					c.fire(nd)
					fired = true
				}
			}
			if !fired {
				stuck := true
				for _, hn := range honest {
					if len(c.nodes[hn.idx].inbox) > 0 {
						stuck = false
					}
				}
				if stuck && it%7 != 2 {
					// one more gossip round before giving up
					continue
				}
			}
		}
	}
	anyPanic := false
	for _, hn := range honest {
		if c.nodes[hn.idx].panicked != "" {
			anyPanic = true
		}
	}
	if !progress && !anyPanic {
		var where []string
		for _, hn := range honest {
			rs := c.nodes[hn.idx].cs.GetRoundState()
			where = append(where, fmt.Sprintf("node%d %d/%d/%d", hn.idx, rs.Height, rs.Round, rs.Step))
		}
		// finding F-12a has a recognisable shape: a node behind holds +2/3 precommits for a block in some
		// round and is not in the commit step (it was pulled out of it by a later round)
		sig := "no-progress-in-fair-suffix"
		for _, hn := range honest {
			rs := c.nodes[hn.idx].cs.GetRoundState()
			if rs.Height >= target || rs.Step == pbft.RoundStepCommit || rs.Votes == nil {
				continue
			}
			for r := int64(0); r <= rs.Round; r++ {
				if pc := rs.Votes.Precommits(r); pc != nil {
					if b, ok := pc.TwoThirdsMajority(); ok && len(b.Hash) > 0 {
						sig = "no-progress-in-fair-suffix kind=commit-step-abandoned"
						where = append(where, fmt.Sprintf("node%d holds +2/3 precommits for %x in round %d and is in step %d of round %d", hn.idx, b.Hash, r, rs.Step, rs.Round))
					}
				}
			}
		}
		c.hit(sig, fmt.Sprintf("target height %d not reached: %s", target, strings.Join(where, ", ")))
	}
	if progress {
		c.dist["fair-suffix=progress"]++
	}
	// one model case per honest node
	var lines []string
	nontrivial := false
	for _, hn := range honest {
		nd := c.nodes[hn.idx]
		vals := make([]string, c.n)
		for i := range c.keys {
			vals[i] = sxL(sxB(c.addrs[i]), sxB(c.keys[i].PubKey().Bytes()), sxZ(c.powers[i]))
		}
		lines = append(lines, sxL(sxL(vals...), sxB(c.addrs[nd.idx]), sxBool(c.skip), sxL(nd.trace...)))
		for _, t := range nd.trace {
			if strings.HasPrefix(t, "((3 ") {
				nontrivial = true
			}
		}
	}
	lastSysLine = ""
	if !c.skip && len(c.glog) > 0 {
		vals := make([]string, c.n)
		for i := range c.keys {
			vals[i] = sxL(sxB(c.addrs[i]), sxB(c.keys[i].PubKey().Bytes()), sxZ(c.powers[i]))
		}
		var hs []string
		for _, hn := range honest {
			hs = append(hs, sxB(c.addrs[hn.idx]))
		}
		lastSysLine = sxL(sxL(vals...), sxBool(c.skip), sxL(hs...), sxL(c.glog...), sxL(c.gCommits...))
		c.dist[fmt.Sprintf("sys-commits=%d", len(c.gCommits))]++
		c.dist["sys-events"] += len(c.glog)
	}
	cse.Note = fmt.Sprintf("n=%d byz=%d skip=%v part=%d steps=%d crashes=%d reached=%d", c.n, nb, c.skip, c.partSize, steps, crashes, target)
	return lines, c.hits, c.dist, nontrivial
}

// claimMaj23 is the reactor's handling of a VoteSetMaj23Message from a peer
func (c *cnet) claimMaj23(nd *vnode, round int64, t byte, from string, bid types.BlockID) {
	if nd.down || nd.panicked != "" {
		return
	}
	rs := nd.cs.GetRoundState()
	in := sxL("4", sxZ(round), sxZ(int64(t)), sxB([]byte(from)), sxBid(bidJ(bid)))
	if p, msg := catchPanic(func() { rs.Votes.SetPeerMaj23(round, t, from, bid) }); p {
		nd.panicked = msg
		c.hit("node-panic at=peer-maj23", firstLine(msg))
		nd.trace = append(nd.trace, sxL(in, "(2)"))
		c.gStop = true
		return
	}
	nd.trace = append(nd.trace, sxL(in, c.observe(nd, c.collect(nd, rs.Height))))
	c.sysNote(nd, rs.Height, in)
	if rs.Height == 1 {
		if c.sysClaimed == nil {
			c.sysClaimed = map[int]bool{}
		}
		c.sysClaimed[nd.idx] = true
	}
}

// gossipTo hands a node what the reactors of the other honest nodes would send it: the votes they
// hold for its height and round range, and, when it is behind, the stored commit and block parts
func (c *cnet) gossipTo(nd *vnode, honest []*vnode) {
	rs := nd.cs.GetRoundState()
	for _, hn := range honest {
		o := c.nodes[hn.idx]
		if o.idx == nd.idx || o.panicked != "" || o.down {
			continue
		}
		from := fmt.Sprintf("node%d", o.idx)
		ors := o.cs.GetRoundState()
		if ors.Height == rs.Height {
			for r := int64(0); r <= ors.Votes.Round(); r++ {
				for _, vs := range []*types.VoteSet{ors.Votes.Prevotes(r), ors.Votes.Precommits(r)} {
					if vs == nil {
						continue
					}
					if b, ok := vs.TwoThirdsMajority(); ok {
						c.claimMaj23(nd, r, vs.Type(), from, b)
					}
					for i := 0; i < vs.Size(); i++ {
						if v := vs.GetByIndex(i); v != nil {
							nd.inbox = append(nd.inbox, netMsg{msg: &pbft.VoteMessage{Vote: v}, from: from})
						}
					}
				}
			}
		} else if ors.Height > rs.Height && o.store.Height() >= rs.Height {
			h := rs.Height
			sc := o.store.LoadSeenCommit(h)
			meta := o.store.LoadBlockMeta(h)
			if sc == nil || meta == nil {
				continue
			}
			c.claimMaj23(nd, sc.Round(), types.VoteTypePrecommit, from, types.BlockID{Hash: meta.Hash, PartsHeader: meta.PartsHeader})
			for _, v := range sc.Precommits {
				if v != nil {
					nd.inbox = append(nd.inbox, netMsg{msg: &pbft.VoteMessage{Vote: v}, from: from})
				}
			}
			for i := 0; i < meta.PartsHeader.Total; i++ {
				if p := o.store.LoadBlockPart(h, i); p != nil {
					nd.inbox = append(nd.inbox, netMsg{msg: &pbft.BlockPartMessage{Height: h, Round: sc.Round(), Part: p}, from: from})
				}
			}
			return
		}
	}
}

func (c *cnet) deliverFromInbox(nd *vnode) {
	var elig []int
	for k, m := range nd.inbox {
		if m.after <= c.now {
			elig = append(elig, k)
		}
	}
	if len(elig) == 0 {
		return
	}
	j := elig[0]
	if c.r.Chance(1, 3) {
		j = elig[c.r.Intn(len(elig))]
	}
	m := nd.inbox[j]
	if c.r.Chance(1, 15) {
		c.dist["duplicated"]++ // stays in the inbox as well
	} else {
		nd.inbox = append(nd.inbox[:j], nd.inbox[j+1:]...)
	}
	c.deliver(nd, m)
}

func init() {
	engines["consensus"] = func(args []string) error { return consensusEngine("consensus", false, args) }
	engines["sysrun"] = func(args []string) error { return consensusEngine("sysrun", true, args) }
}

// consensusEngine runs simulated networks; with sys it emits, instead of one case per honest
// node, one case per network: the global schedule of height 1 for the system model
func consensusEngine(name string, sys bool, args []string) error {
	{
		c, err := commonFlags(name, args, nil)
		if err != nil {
			return err
		}
		meta := NewMeta(name, c.Seed)
		meta.Rule = "case = one honest validator's run inside a simulated network: 1..7 validators (equal or skewed powers), a Byzantine subset holding < 1/3 of the power whose keys the harness uses to sign equivocating votes (any round, other heights, bad signatures), competing and invalid proposals with their parts, and stray parts; real ConsensusState instances stepped through the verif shim under a random scheduler (own messages, peer messages in any order, duplication, loss, the pending timeout, crash with or without a torn last WAL record, restart with WAL replay), then a fair suffix (everything delivered, gossip of archived messages to nodes behind, timeouts when idle) until every honest node passes the next height; each processed input is followed by an observation of the whole RoundState, the vote bit arrays and majorities of every tracked round, and what the node queued, scheduled and committed; distinct = case line; non-trivial = at least one timeout was handled"
		var cases []*csCase
		if c.Replay != "" {
			var x csCase
			if err := readCase(c.Replay, &x); err != nil {
				return err
			}
			cases = append(cases, &x)
		} else {
			r := NewRng(c.Seed)
			for i := 0; i < c.N; i++ {
				cases = append(cases, &csCase{Seed: r.U64(), NoCrashH1: sys})
			}
		}
		work, err := ioutil.TempDir("", "annverif-consensus")
		if err != nil {
			return err
		}
		defer os.RemoveAll(work)
		dist := NewDistinct()
		var sb strings.Builder
		line := 0
		var names []string
		for i, cs := range cases {
			lines, hits, d, nt := runConsensusCase(i, cs, work)
			if sys {
				lines = nil
				if lastSysLine != "" {
					lines = []string{lastSysLine}
				}
				nt = strings.Contains(lastSysLine, "((2 ") || strings.Contains(lastSysLine, " (2 ")
			}
			for _, h := range hits {
				h.Case = line // first line of this network
				meta.Monitor = append(meta.Monitor, h)
			}
			for k, v := range d {
				meta.Dist[k] += v
			}
			for _, l := range lines {
				sb.WriteString(l + "\n")
				writeCase(c.Out, line, cs)
				names = append(names, cs.Note)
				line++
				meta.Evaluations++
				if nt {
					dist.Add(l)
				}
			}
			if i < 1 {
				meta.Samples = append(meta.Samples, cs)
			}
		}
		meta.Distinct = dist.Len()
		_ = json.Marshal
		if err := ioutil.WriteFile(filepath.Join(c.Out, "cases.sx"), []byte(sb.String()), 0644); err != nil {
			return err
		}
		return meta.Write(c.Out)
	}
}
