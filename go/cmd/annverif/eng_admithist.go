package main

// Engine "admithist" (C20): admission over the life of one node.  One authByCA closure (as Angine
// installs it) and one pointer to the validator set in force; the case is a history of validator-set
// changes and handshakes between two real switches over a pipe (secret connection, node-info
// exchange, refuse list, CA check, announced-key and self checks).  Every decision is compared with
// Model/AdmitHist.v, which decides each handshake against the set in force at that moment and
// remembers nothing.

import (
	"encoding/hex"
	"flag"
	"fmt"
	"io/ioutil"
	"net"
	"path/filepath"
	"strings"
	"time"

	"github.com/spf13/viper"

	"github.com/dappledger/AnnChain/gemmill"
	crypto "github.com/dappledger/AnnChain/gemmill/go-crypto"
	"github.com/dappledger/AnnChain/gemmill/p2p"
	"github.com/dappledger/AnnChain/gemmill/types"
)

type ahVal struct {
	Key int  `json:"key"` // index into the key pool
	CA  bool `json:"ca"`
}
type ahEvent struct {
	Vals []ahVal `json:"vals,omitempty"` // a validator-set change ...
	// ... or a handshake
	Handshake bool `json:"handshake,omitempty"`
	Auth      int  `json:"auth"`      // key the peer holds
	Announced int  `json:"announced"` // key its node info announces
	Cert      int  `json:"cert"`      // >= 0: certificate over the announced key made by that key; -1 invalid; -2 malformed
}
type ahCase struct {
	AuthByCA   bool      `json:"auth_by_ca"`
	NonValAuth bool      `json:"non_validator_node_auth"`
	Refuse     []int     `json:"refuse"`
	Events     []ahEvent `json:"events"`
}

const ahKeys = 7 // key 0 is the node itself

func ahKey(i int) crypto.PrivKeyEd25519 {
	return crypto.GenPrivKeyEd25519FromSecret([]byte(fmt.Sprintf("admithist-key-%d", i)))
}

func genAHCase(r *Rng, i int) *ahCase {
	c := &ahCase{AuthByCA: !r.Chance(1, 6), NonValAuth: !r.Chance(1, 3)}
	if r.Chance(1, 4) {
		c.Refuse = append(c.Refuse, 1+r.Intn(ahKeys-1))
	}
	genVals := func() []ahVal {
		var vs []ahVal
		for k := 1; k < ahKeys; k++ {
			if r.Chance(2, 5) {
				vs = append(vs, ahVal{Key: k, CA: r.Bool()})
			}
		}
		if len(vs) == 0 {
			vs = append(vs, ahVal{Key: 1 + r.Intn(ahKeys-1), CA: r.Bool()})
		}
		return vs
	}
	c.Events = append(c.Events, ahEvent{Vals: genVals()})
	// a few peers that keep coming back with the same certificate while the set changes under them
	type who struct{ auth, ann, cert int }
	var peers []who
	for p := 0; p < 1+r.Intn(3); p++ {
		a := 1 + r.Intn(ahKeys-1)
		w := who{a, a, 1 + r.Intn(ahKeys-1)}
		switch r.Intn(12) {
		case 0:
			w.ann = 1 + r.Intn(ahKeys-1) // announces somebody else's key
		case 1:
			w.auth, w.ann = 0, 0 // our own key on the other side
		case 2:
			w.ann = 0 // claims to be us
		case 3:
			w.cert = -1
		case 4:
			w.cert = -2
		}
		peers = append(peers, w)
	}
	for n := 2 + r.Intn(7); n > 0; n-- {
		if r.Chance(1, 3) {
			// often a small change: one validator loses or gains its authority, or leaves
			prev := []ahVal{}
			for j := len(c.Events) - 1; j >= 0; j-- {
				if c.Events[j].Vals != nil {
					prev = append(prev, c.Events[j].Vals...)
					break
				}
			}
			switch r.Intn(3) {
			case 0:
				k := r.Intn(len(prev))
				prev[k].CA = !prev[k].CA
			case 1:
				if len(prev) > 1 {
					k := r.Intn(len(prev))
					prev = append(prev[:k], prev[k+1:]...)
				}
			default:
				prev = genVals()
			}
			c.Events = append(c.Events, ahEvent{Vals: prev})
		} else {
			w := peers[r.Intn(len(peers))]
			c.Events = append(c.Events, ahEvent{Handshake: true, Auth: w.auth, Announced: w.ann, Cert: w.cert})
		}
	}
	return c
}

func runAHCase(idx int, c *ahCase) (string, []MonitorHit, map[string]int, bool) {
	dist := map[string]int{}
	var hits []MonitorHit
	hit := func(sig, what string) { hits = append(hits, MonitorHit{Case: idx, Sig: sig, What: what}) }
	server := ahKey(0)
	pub := func(i int) crypto.PubKeyEd25519 { return ahKey(i).PubKey().(crypto.PubKeyEd25519) }
	conf := viper.New()
	conf.Set("non_validator_node_auth", c.NonValAuth)
	pp := types.NewValidatorSet(nil)
	var auth func(*p2p.NodeInfo) error
	if c.AuthByCA {
		auth = gemmill.VerifAuthByCA(conf, &pp)
	}
	refused := map[string]bool{}
	var rf []string
	for _, k := range c.Refuse {
		refused[ahKey(k).PubKey().KeyString()] = true
		b := pub(k)
		rf = append(rf, sxB(b[:]))
	}
	selfB := pub(0)
	var evs, outs []string
	var curVals []ahVal
	hs := 0
	for _, e := range c.Events {
		if !e.Handshake {
			var vals []*types.Validator
			var vsx []string
			for _, v := range e.Vals {
				k := ahKey(v.Key)
				vals = append(vals, &types.Validator{Address: k.PubKey().Address(), PubKey: k.PubKey(), VotingPower: 10, IsCA: v.CA})
				b := pub(v.Key)
				vsx = append(vsx, sxL(sxB(b[:]), sxBool(v.CA)))
			}
			pp = types.NewValidatorSet(vals) // what Angine does when the state machine reports a new set
			curVals = e.Vals
			evs = append(evs, sxL("0", sxL(vsx...)))
			dist["set-changes"]++
			continue
		}
		hs++
		client := ahKey(e.Auth)
		annB := pub(e.Announced)
		announced := crypto.PubKey(annB)
		var signed, certSx string
		switch {
		case e.Cert >= 0:
			signed = hex.EncodeToString(sigBytes(ahKey(e.Cert).Sign(annB[:])))
			sb := pub(e.Cert)
			certSx = sxL("0", sxB(sb[:]))
		case e.Cert == -1:
			signed = hex.EncodeToString(sigBytes(ahKey(1).Sign([]byte("something else"))))
			certSx = sxL("1")
		default:
			signed = "zz-not-hex"
			certSx = sxL("2")
		}
		srv := mkSwitch(server, server.PubKey(), "")
		srv.SetRefuseListFilter(func(pk crypto.PubKey) error {
			if refused[pk.KeyString()] {
				return fmt.Errorf("refused")
			}
			return nil
		})
		if auth != nil {
			srv.SetAuthByCA(auth)
		}
		cli := mkSwitch(client, announced, signed)
		a, b := net.Pipe()
		cr := make(chan struct{}, 1)
		go func() { cli.AddPeerWithConnection(pipeConn{b}, true); cr <- struct{}{} }()
		var sp *p2p.Peer
		var serr error
		done := make(chan struct{})
		go func() { sp, serr = srv.AddPeerWithConnection(pipeConn{a}, false); close(done) }()
		select {
		case <-done:
		case <-time.After(20 * time.Second):
			hit("handshake-hung", "admission did not finish")
			a.Close()
			b.Close()
			<-done
		}
		a.Close()
		b.Close()
		<-cr
		admitted := serr == nil && sp != nil
		authB := pub(e.Auth)
		evs = append(evs, sxL("1", sxB(authB[:]), sxB(annB[:]), certSx))
		outs = append(outs, sxBool(admitted))
		if admitted {
			dist["admitted"]++
		} else {
			dist["rejected"]++
		}
		// monitor, from the scenario itself: the property's rule under the set in force now
		isVal, certOK := false, false
		for _, v := range curVals {
			if v.Key == e.Announced {
				isVal = true
			}
			if v.Key == e.Cert && v.CA {
				certOK = true
			}
		}
		caOK := !c.AuthByCA || (isVal && !c.NonValAuth) || certOK
		allowed := !refused[client.PubKey().KeyString()] && e.Auth == e.Announced && e.Announced != 0 && caOK
		if admitted && !allowed {
			why := "key-or-refuse-list"
			if !caOK {
				why = "no-current-ca-signature"
			}
			hit("admitted-forbidden-peer "+why, fmt.Sprintf("handshake %d of the history: a peer was admitted that must not be (%s): %+v under %+v", hs, why, e, curVals))
		}
		if !admitted && allowed {
			hit("rejected-legitimate-peer", fmt.Sprintf("handshake %d of the history: a legitimate peer was rejected: %v %+v under %+v", hs, serr, e, curVals))
		}
	}
	line := sxL(sxL(sxBool(c.AuthByCA), sxBool(c.NonValAuth), sxB(selfB[:]), sxL(rf...)), sxL(evs...), sxL(outs...))
	return line, hits, dist, hs >= 2
}

func init() {
	engines["admithist"] = func(args []string) error {
		_ = flag.ErrHelp
		_ = ioutil.Discard
		_ = filepath.Separator
		_ = strings.TrimSpace
		return runGenericEngine("admithist",
			"case = one node's life: a first validator set, then 2..8 events, each a validator-set change (one validator gains or loses its authority, one leaves, or a fresh set of 1..6 validators out of six keys, each an authority or not) or a handshake of one of 1..3 recurring peers (own key and certificate by one of the six keys; sometimes announcing another key, holding or claiming the node's own key, an invalid or a malformed certificate) between two real switches over a pipe, all decided by ONE authByCA closure reading the set in force through the pointer Angine gives it; auth_by_ca, non_validator_node_auth and a refuse list vary per case; distinct = case line; non-trivial = at least two handshakes",
			args,
			func(r *Rng, i int) interface{} { return genAHCase(r, i) },
			func(f string) (interface{}, error) {
				var c ahCase
				if err := readCase(f, &c); err != nil {
					return nil, err
				}
				return &c, nil
			},
			func(i int, ci interface{}, out string) (string, []MonitorHit, map[string]int, bool) {
				return runAHCase(i, ci.(*ahCase))
			})
	}
}
