package main

// Engines "signbytes" and "rlp" (C18).
//   signbytes: types.SignBytes on votes and proposals versus Model/SignBytes.v, byte for byte;
//              pairs of signables whose sign-bytes are held together; near-miss pairs for injectivity.
//   rlp:       the in-tree eth/rlp versus the reference go-ethereum v1.8.27 rlp versus Model/Rlp.v.

import (
	"bytes"
	"fmt"
	"math/big"
	"unicode/utf8"

	inrlp "github.com/dappledger/AnnChain/eth/rlp"
	ethtypes "github.com/dappledger/AnnChain/eth/core/types"
	"github.com/dappledger/AnnChain/gemmill/types"
	refrlp "github.com/ethereum/go-ethereum/rlp"
)

// ---------------------------------------------------------------- sign-bytes

type sbBid struct {
	Hash  []byte `json:"hash"`
	Total int    `json:"total"`
	PHash []byte `json:"phash"`
}
type sbItem struct {
	IsProposal bool   `json:"is_proposal"`
	Chain      []byte `json:"chain"`
	Height     int64  `json:"height"`
	Round      int64  `json:"round"`
	Type       byte   `json:"type"`
	Bid        sbBid  `json:"bid"`       // vote block id / proposal POL block id
	Total      int    `json:"total"`     // proposal parts header
	PHash      []byte `json:"phash"`     // proposal parts header
	POLRound   int64  `json:"pol_round"` // proposal
}
type sbCase struct {
	Kind int    `json:"kind"` // 0 single, 2 pair held together, 3 non-ASCII chain-id pair
	A    sbItem `json:"a"`
	B    sbItem `json:"b"`
}

func (b sbBid) real() types.BlockID {
	return types.BlockID{Hash: b.Hash, PartsHeader: types.PartSetHeader{Total: b.Total, Hash: b.PHash}}
}
func (b sbBid) sx() string { return sxL(sxB(b.Hash), sxZ(int64(b.Total)), sxB(b.PHash)) }

func (it sbItem) signable() types.Signable {
	if it.IsProposal {
		return &types.Proposal{Height: it.Height, Round: it.Round, POLRound: it.POLRound,
			BlockPartsHeader: types.PartSetHeader{Total: it.Total, Hash: it.PHash}, POLBlockID: it.Bid.real()}
	}
	return &types.Vote{Height: it.Height, Round: it.Round, Type: it.Type, BlockID: it.Bid.real()}
}
func (it sbItem) sx() string {
	if it.IsProposal {
		return sxL("1", sxB(it.Chain), sxZ(int64(it.Total)), sxB(it.PHash), sxZ(it.Height), it.Bid.sx(), sxZ(it.POLRound), sxZ(it.Round))
	}
	return sxL("0", sxB(it.Chain), it.Bid.sx(), sxZ(it.Height), sxZ(it.Round), sxZ(int64(it.Type)))
}

// the fields the property speaks of; nil and empty hashes are the same block id
func (it sbItem) canon() string {
	return fmt.Sprintf("%v|%x|%d|%d|%d|%x|%d|%x|%d|%x|%d", it.IsProposal, it.Chain, it.Height, it.Round, it.Type,
		it.Bid.Hash, it.Bid.Total, it.Bid.PHash, it.Total, it.PHash, it.POLRound)
}

func genSbInt(r *Rng) int64 {
	switch r.Intn(7) {
	case 0:
		return 0
	case 1:
		return -1
	case 2:
		return int64(^uint64(0) >> 1)
	case 3:
		return -int64(^uint64(0)>>1) - 1
	case 4:
		return int64(r.Intn(100))
	case 5:
		return int64(r.U64() >> uint(r.Intn(64)))
	default:
		return -int64(r.U64() >> uint(1+r.Intn(63)))
	}
}
func genSbHash(r *Rng) []byte {
	switch r.Intn(5) {
	case 0:
		return nil
	case 1:
		return []byte{}
	case 2:
		return r.Bytes(1 + r.Intn(3))
	default:
		return r.Bytes(20)
	}
}
func genChain(r *Rng) []byte {
	alphabet := []byte("abcXYZ019-_ \"\\/<>&'\n\r\t\x00\x01\x1f\x7f{}:,")
	n := r.Intn(12)
	b := make([]byte, n)
	for i := range b {
		if r.Chance(1, 3) {
			b[i] = alphabet[r.Intn(len(alphabet))]
		} else {
			b[i] = byte(32 + r.Intn(95))
		}
	}
	return b
}
func genSbItem(r *Rng) sbItem {
	it := sbItem{IsProposal: r.Chance(1, 3), Chain: genChain(r), Height: genSbInt(r), Round: genSbInt(r), Type: byte(r.Intn(256))}
	if r.Bool() {
		it.Type = byte(1 + r.Intn(2))
	}
	it.Bid = sbBid{Hash: genSbHash(r), Total: int(genSbInt(r)), PHash: genSbHash(r)}
	if r.Chance(1, 4) {
		it.Bid = sbBid{}
	}
	if it.IsProposal {
		it.Total, it.PHash, it.POLRound = int(genSbInt(r)), genSbHash(r), genSbInt(r)
		it.Type = 0
	}
	return it
}

// a near miss: one field changed, or material moved across a field boundary
func nearMiss(r *Rng, a sbItem) sbItem {
	b := a
	b.Chain = append([]byte{}, a.Chain...)
	switch r.Intn(9) {
	case 0:
		b.Height++
	case 1:
		b.Round--
	case 2:
		if a.IsProposal {
			b.POLRound++
		} else {
			b.Type++
		}
	case 3:
		b.Chain = append(b.Chain, '"')
	case 4:
		// move a digit from the round into the height
		b.Height, b.Round = a.Height*10+1, a.Round/10
	case 5:
		b.Bid.Hash = append(append([]byte{}, a.Bid.Hash...), 0)
	case 6:
		b.Bid.Total++
	case 7:
		// chain id that spells the following fields
		b.Chain = append(b.Chain, []byte(`","vote":{"block_id":{}`)...)
	default:
		b.Bid.PHash, b.Bid.Hash = a.Bid.Hash, a.Bid.PHash
	}
	return b
}

func init() {
	engines["signbytes"] = func(args []string) error {
		return runGenericEngine("signbytes",
			"case = a vote or proposal with chain ids drawn from printable ASCII plus JSON-significant and control characters, heights/rounds/totals from {0, -1, extremes, random widths}, hashes from {nil, empty, short, 20 bytes}; kind 0 one signable; kind 2 a pair (independent, or a near miss differing in one field or with material moved across a field boundary) whose two sign-bytes are computed one after the other and compared while both are held; kind 3 two chain ids that are not ASCII (invalid UTF-8), outside the theorem's domain; distinct = case line; non-trivial = block id not empty",
			args,
			func(r *Rng, i int) interface{} {
				c := &sbCase{A: genSbItem(r)}
				switch k := r.Intn(10); {
				case k < 4:
					c.Kind = 0
				case k < 9:
					c.Kind = 2
					if r.Bool() {
						c.B = nearMiss(r, c.A)
					} else {
						c.B = genSbItem(r)
					}
				default:
					c.Kind = 3
					c.B = c.A
					c.A.Chain = append(append([]byte{}, c.A.Chain...), 0xff)
					c.B.Chain = append(append([]byte{}, c.B.Chain...), 0xfe)
				}
				return c
			},
			func(f string) (interface{}, error) {
				var c sbCase
				if err := readCase(f, &c); err != nil {
					return nil, err
				}
				return &c, nil
			},
			func(i int, ci interface{}, out string) (string, []MonitorHit, map[string]int, bool) {
				c := ci.(*sbCase)
				dist := map[string]int{fmt.Sprintf("kind=%d", c.Kind): 1}
				var hits []MonitorHit
				hit := func(sig, what string) { hits = append(hits, MonitorHit{Case: i, Sig: sig, What: what}) }
				if c.A.IsProposal {
					dist["proposal"]++
				} else {
					dist["vote"]++
				}
				nt := len(c.A.Bid.Hash) > 0
				switch c.Kind {
				case 0:
					var sb []byte
					if p, msg := catchPanic(func() { sb = types.SignBytes(string(c.A.Chain), c.A.signable()) }); p {
						hit("signbytes-panic", msg)
						return sxL("9"), hits, dist, nt
					}
					if sb2 := types.SignBytes(string(c.A.Chain), c.A.signable()); !bytes.Equal(sb, sb2) {
						hit("signbytes-nondeterministic", "")
					}
					return sxL("0", c.A.sx(), sxB(sb)), hits, dist, nt
				case 2:
					// both results are held at once, as the signer and the vote set do
					sa := types.SignBytes(string(c.A.Chain), c.A.signable())
					sb := types.SignBytes(string(c.B.Chain), c.B.signable())
					differ := c.A.canon() != c.B.canon()
					if differ {
						dist["pair=different"]++
					} else {
						dist["pair=same"]++
					}
					if differ && bytes.Equal(sa, sb) {
						hit("signbytes-collision kind=ascii", fmt.Sprintf("%s vs %s -> %q", c.A.canon(), c.B.canon(), sa))
					}
					if !differ && !bytes.Equal(sa, sb) {
						hit("signbytes-nondeterministic", "")
					}
					return sxL("2", c.A.sx(), sxB(sa), c.B.sx(), sxB(sb)), hits, dist, nt
				default:
					sa := types.SignBytes(string(c.A.Chain), c.A.signable())
					sb := types.SignBytes(string(c.B.Chain), c.B.signable())
					if bytes.Equal(sa, sb) && !utf8.Valid(c.A.Chain) && !utf8.Valid(c.B.Chain) {
						hit("signbytes-collision kind=invalid-utf8-chain-id", fmt.Sprintf("%x vs %x -> %q", c.A.Chain, c.B.Chain, sa))
					} else if bytes.Equal(sa, sb) {
						hit("signbytes-collision kind=other", fmt.Sprintf("%x vs %x", c.A.Chain, c.B.Chain))
					}
					return sxL("3", sxB(c.A.Chain), sxB(c.B.Chain)), hits, dist, nt
				}
			})
	}
}

// ---------------------------------------------------------------- RLP

type rlpItem struct {
	Str  []byte     `json:"str,omitempty"`
	List []*rlpItem `json:"list,omitempty"`
	IsL  bool       `json:"is_list"`
}
type rlpCase struct {
	Kind  int      `json:"kind"` // 0 encode tree, 1 decode bytes generically, 2 decode as uint64, 3 decode as transaction
	Item  *rlpItem `json:"item,omitempty"`
	Bytes []byte   `json:"bytes,omitempty"`
	Note  string   `json:"note,omitempty"`
}

func (it *rlpItem) sx() string {
	if !it.IsL {
		return sxL("0", sxB(it.Str))
	}
	var xs []string
	for _, x := range it.List {
		xs = append(xs, x.sx())
	}
	return sxL("1", sxL(xs...))
}
func (it *rlpItem) goval() interface{} {
	if !it.IsL {
		return append([]byte{}, it.Str...)
	}
	l := []interface{}{}
	for _, x := range it.List {
		l = append(l, x.goval())
	}
	return l
}
func itemOf(v interface{}) *rlpItem {
	switch x := v.(type) {
	case []byte:
		return &rlpItem{Str: x}
	case []interface{}:
		it := &rlpItem{IsL: true}
		for _, e := range x {
			it.List = append(it.List, itemOf(e))
		}
		return it
	}
	return &rlpItem{Str: []byte("?")}
}
func genRlpItem(r *Rng, depth int) *rlpItem {
	if depth > 4 || r.Chance(3, 5) {
		var n int
		switch r.Intn(8) {
		case 0:
			n = 0
		case 1:
			n = 1
		case 2:
			n = 55 + r.Intn(3)
		case 3:
			n = 255 + r.Intn(3)
		case 4:
			if depth == 0 {
				n = 65535 + r.Intn(3)
			} else {
				n = 9
			}
		default:
			n = r.Intn(12)
		}
		b := r.Bytes(n)
		if n == 1 && r.Bool() {
			b[0] = byte(r.Intn(3)) + 0x7e
		}
		return &rlpItem{Str: b}
	}
	it := &rlpItem{IsL: true}
	n := r.Intn(5)
	if r.Chance(1, 10) {
		n = 56 + r.Intn(3)
	}
	for i := 0; i < n; i++ {
		it.List = append(it.List, genRlpItem(r, depth+1))
	}
	return it
}

func mutateRlp(r *Rng, b []byte) ([]byte, string) {
	c := append([]byte{}, b...)
	hostile := [][]byte{
		{0x81, 0x05},                   // single byte < 0x80 with a prefix
		{0xb8, 0x05, 1, 2, 3, 4, 5},    // long form for a short string
		{0xb9, 0x00, 0x40},             // leading zero in the size
		{0xf8, 0x02, 0x01, 0x02},       // long list form for a short list
		{0xbf, 0xff, 0xff, 0xff, 0xff, 0xff, 0xff, 0xff, 0xff}, // huge string size
		{0xff, 0xff, 0xff, 0xff, 0xff, 0xff, 0xff, 0xff, 0xff}, // huge list size
		{0xbb, 0x7f, 0xff, 0xff, 0xff},
		{0xc1, 0x81, 0x00},
		{0x80},
		{0xc0},
		{0x88, 0, 0, 0, 0, 0, 0, 0, 1},
		{0x89, 1, 0, 0, 0, 0, 0, 0, 0, 0},
	}
	switch r.Intn(7) {
	case 0:
		if len(c) > 0 {
			return c[:r.Intn(len(c))], "truncate"
		}
		return c, "truncate"
	case 1:
		return append(c, r.Bytes(1+r.Intn(3))...), "trailing"
	case 2:
		if len(c) > 0 {
			c[r.Intn(len(c))] ^= byte(1 << uint(r.Intn(8)))
		}
		return c, "bitflip"
	case 3:
		if len(c) > 0 {
			c[r.Intn(len(c))] = []byte{0, 0x7f, 0x80, 0x81, 0xb7, 0xb8, 0xbf, 0xc0, 0xf7, 0xf8, 0xff}[r.Intn(11)]
		}
		return c, "setbyte"
	case 4:
		return hostile[r.Intn(len(hostile))], "hostile"
	case 5:
		// wrap a hostile piece in a correct list header
		h := hostile[r.Intn(len(hostile))]
		if len(h) < 56 {
			return append([]byte{0xc0 + byte(len(h))}, h...), "hostile-in-list"
		}
		return h, "hostile"
	default:
		return r.Bytes(r.Intn(20)), "random"
	}
}

func init() {
	engines["rlp"] = func(args []string) error {
		return runGenericEngine("rlp",
			"case = (kind 0) a random item tree (strings of length 0, 1, 55..57, 255..257, 65535.., nested lists up to depth 5, lists of 56+ items) encoded by the in-tree eth/rlp, by the reference go-ethereum v1.8.27 rlp and by the model; (kind 1) a byte string (a valid encoding truncated, extended, bit-flipped, given a non-canonical header, or hostile/random) decoded generically by both implementations and the model; (kind 2) the same decoded as a uint64; (kind 3) a signed transaction's encoding, mutated, decoded as a transaction by both implementations; distinct = case line; non-trivial = more than 3 bytes",
			args,
			func(r *Rng, i int) interface{} {
				c := &rlpCase{Kind: r.Intn(4)}
				switch c.Kind {
				case 0:
					c.Item = genRlpItem(r, 0)
				case 1:
					b, _ := inrlp.EncodeToBytes(genRlpItem(r, 0).goval())
					if r.Chance(1, 4) {
						c.Bytes, c.Note = b, "valid"
					} else {
						c.Bytes, c.Note = mutateRlp(r, b)
					}
				case 2:
					var b []byte
					switch r.Intn(4) {
					case 0:
						b, _ = inrlp.EncodeToBytes(r.U64() >> uint(r.Intn(64)))
						c.Note = "valid"
					case 1:
						b, _ = inrlp.EncodeToBytes(new(big.Int).Lsh(big.NewInt(int64(1+r.Intn(255))), uint(56+r.Intn(16))))
						c.Note = "big"
					default:
						v, _ := inrlp.EncodeToBytes(r.U64() >> uint(r.Intn(64)))
						b, c.Note = mutateRlp(r, v)
					}
					c.Bytes = b
				default:
					tx := ethtypes.NewTransaction(r.U64()>>uint(r.Intn(64)), [20]byte{byte(r.Intn(256))}, new(big.Int).SetUint64(r.U64()>>uint(r.Intn(64))),
						r.U64()>>uint(r.Intn(64)), new(big.Int).SetUint64(r.U64()>>uint(r.Intn(64))), r.Bytes(r.Intn(40)))
					b, _ := inrlp.EncodeToBytes(tx)
					if r.Chance(1, 3) {
						c.Bytes, c.Note = b, "valid"
					} else {
						c.Bytes, c.Note = mutateRlp(r, b)
					}
				}
				return c
			},
			func(f string) (interface{}, error) {
				var c rlpCase
				if err := readCase(f, &c); err != nil {
					return nil, err
				}
				return &c, nil
			},
			func(i int, ci interface{}, out string) (string, []MonitorHit, map[string]int, bool) {
				c := ci.(*rlpCase)
				dist := map[string]int{fmt.Sprintf("kind=%d", c.Kind): 1}
				if c.Note != "" {
					dist["input="+c.Note]++
				}
				var hits []MonitorHit
				hit := func(sig, what string) { hits = append(hits, MonitorHit{Case: i, Sig: sig, What: what}) }
				switch c.Kind {
				case 0:
					var a, b []byte
					var ea, eb error
					if p, msg := catchPanic(func() { a, ea = inrlp.EncodeToBytes(c.Item.goval()) }); p {
						hit("rlp-encode-panic", msg)
					}
					b, eb = refrlp.EncodeToBytes(c.Item.goval())
					if (ea == nil) != (eb == nil) || !bytes.Equal(a, b) {
						hit("rlp-differs-from-reference op=encode", fmt.Sprintf("%x vs %x", a, b))
					}
					// round trip
					var back interface{}
					if err := inrlp.DecodeBytes(a, &back); err != nil {
						hit("rlp-roundtrip-rejected", err.Error())
					} else if itemOf(back).sx() != c.Item.sx() {
						hit("rlp-roundtrip-changed", "")
					}
					return sxL("0", c.Item.sx(), sxB(a)), hits, dist, len(a) > 3
				case 1:
					var va, vb interface{}
					var ea, eb error
					if p, msg := catchPanic(func() { ea = inrlp.DecodeBytes(c.Bytes, &va) }); p {
						hit("rlp-decode-panic", fmt.Sprintf("%x: %s", c.Bytes, msg))
						ea = fmt.Errorf("panic")
					}
					eb = refrlp.DecodeBytes(c.Bytes, &vb)
					res := "()"
					if ea == nil {
						res = sxL(itemOf(va).sx())
						dist["decode=ok"]++
					} else {
						dist["decode=err"]++
					}
					if (ea == nil) != (eb == nil) || (ea == nil && itemOf(va).sx() != itemOf(vb).sx()) {
						hit("rlp-differs-from-reference op=decode", fmt.Sprintf("%x: in-tree err=%v reference err=%v", c.Bytes, ea, eb))
					}
					if ea == nil {
						// canonical: re-encoding gives the input back
						if re, _ := inrlp.EncodeToBytes(va); !bytes.Equal(re, c.Bytes) {
							hit("rlp-noncanonical-accepted", fmt.Sprintf("%x", c.Bytes))
						}
					}
					return sxL("1", sxB(c.Bytes), res), hits, dist, len(c.Bytes) > 3
				case 2:
					var ua, ub uint64
					var ea, eb error
					if p, msg := catchPanic(func() { ea = inrlp.DecodeBytes(c.Bytes, &ua) }); p {
						hit("rlp-decode-panic", fmt.Sprintf("%x: %s", c.Bytes, msg))
						ea = fmt.Errorf("panic")
					}
					eb = refrlp.DecodeBytes(c.Bytes, &ub)
					if (ea == nil) != (eb == nil) || ua != ub {
						hit("rlp-differs-from-reference op=decode-uint64", fmt.Sprintf("%x", c.Bytes))
					}
					res := "()"
					if ea == nil {
						res = sxL(sxU(ua))
						dist["decode=ok"]++
					} else {
						dist["decode=err"]++
					}
					return sxL("2", sxB(c.Bytes), res), hits, dist, len(c.Bytes) > 3
				default:
					var ta ethtypes.Transaction
					var ea error
					if p, msg := catchPanic(func() { ea = inrlp.DecodeBytes(c.Bytes, &ta) }); p {
						hit("rlp-decode-panic", fmt.Sprintf("%x: %s", c.Bytes, msg))
						ea = fmt.Errorf("panic")
					}
					// the reference decoder on the same field layout
					var tb refTx
					eb := refrlp.DecodeBytes(c.Bytes, &tb)
					if (ea == nil) != (eb == nil) {
						hit("rlp-differs-from-reference op=decode-tx", fmt.Sprintf("%x: in-tree err=%v reference err=%v", c.Bytes, ea, eb))
					}
					if ea == nil {
						dist["decode=ok"]++
						if re, _ := inrlp.EncodeToBytes(&ta); !bytes.Equal(re, c.Bytes) {
							hit("rlp-roundtrip-changed", fmt.Sprintf("tx %x", c.Bytes))
						}
					} else {
						dist["decode=err"]++
					}
					return sxL("3", sxB(c.Bytes), sxBool(ea == nil)), hits, dist, len(c.Bytes) > 3
				}
			})
	}
}

// field layout of eth/core/types.txdata for the reference decoder
type refTx struct {
	AccountNonce uint64
	Price        *big.Int
	GasLimit     uint64
	Recipient    *[20]byte `rlp:"nil"`
	Amount       *big.Int
	Payload      []byte
	V, R, S      *big.Int
}
