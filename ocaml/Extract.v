(* Extraction of the executable models and their correspondence checkers to OCaml.
   Only ExtrOcamlBasic is used (bool, option, unit, list, prod, sumbool mapped to OCaml's);
   positive / N / Z / nat stay the extracted inductive types. No Extract Constant. *)
From Coq Require Import Extraction ExtrOcamlBasic.
From AnnVerif Require Import Base.Bytes Base.Sx Corr.PartsCorr Corr.VoteSetCorr Corr.ValSetCorr Corr.SignerCorr Corr.AdminCorr Corr.P2PCorr Corr.PoolCorr Corr.CodecCorr Corr.NodeCorr Corr.TrieCorr Corr.EvmCorr Corr.TxCorr Corr.CommitCorr Corr.SyncCorr Corr.StateCorr Corr.SystemCorr Corr.ValidateCorr Corr.EvmCoreCorr Corr.EvmWorldCorr.
Extraction "model.ml" check_parts check_voteset check_valset check_signer check_admin check_sconn check_mconn check_admit check_pool check_mempool check_wire check_signbytes check_rlp check_consensus check_trie check_evmarith check_evmapp check_crash check_blocksync check_statedb check_system check_validate check_evmcore check_evmworld check_admithist.
