#!/bin/sh
# Extract the models and build the runner.  usage: build.sh  (run from anywhere)
set -e
cd "$(dirname "$0")"
mkdir -p _build
cp Extract.v _build/Extract.v
cd _build
coqc -Q ../../coq AnnVerif Extract.v > extract.log 2>&1 || { cat extract.log; exit 1; }
cp ../runner.ml ../engines.ml .
ocamlfind ocamlopt -O3 -w -a -package str model.mli model.ml engines.ml runner.ml -o runner 2> ocaml.log || ocamlfind ocamlopt -w -a model.mli model.ml engines.ml runner.ml -o runner
