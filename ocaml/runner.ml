(* Model runner: reads one s-expression per line (the case format written by the Go harness),
   hands it to the extracted checker of the chosen engine and prints the resulting
   s-expression.  Hand-written glue (trusted): this parser/printer only. *)
type ostring = string   (* the extracted module defines Coq's own [string] *)
open Model

let pos_of_hex (s : ostring) : positive option =
  (* hex digits, most significant first; None if zero *)
  let acc = ref None in
  String.iter (fun c ->
    let d = match c with
      | '0'..'9' -> Char.code c - 48
      | 'a'..'f' -> Char.code c - 87
      | 'A'..'F' -> Char.code c - 55
      | _ -> failwith "bad hex digit" in
    for k = 3 downto 0 do
      let bit = (d lsr k) land 1 = 1 in
      acc := (match !acc, bit with
        | None, false -> None
        | None, true -> Some XH
        | Some p, false -> Some (XO p)
        | Some p, true -> Some (XI p))
    done) s;
  !acc

let n_of_int (i : int) : n =
  if i = 0 then N0 else
  match pos_of_hex (Printf.sprintf "%x" i) with Some p -> Npos p | None -> N0

let byte_tbl = Array.init 256 n_of_int

let hexval c = match c with
  | '0'..'9' -> Char.code c - 48
  | 'a'..'f' -> Char.code c - 87
  | 'A'..'F' -> Char.code c - 55
  | _ -> failwith "bad hex"

let bytes_of_hex (s : ostring) : n list =
  let l = String.length s / 2 in
  let rec go i acc = if i < 0 then acc
    else go (i - 1) (byte_tbl.(hexval s.[2*i] * 16 + hexval s.[2*i+1]) :: acc) in
  go (l - 1) []

(* tokens:  ( )  #hex  [-]hexdigits *)
let parse (line : ostring) : sx =
  let n = String.length line in
  let pos = ref 0 in
  let rec skip () = if !pos < n && (line.[!pos] = ' ' || line.[!pos] = '\t' || line.[!pos] = '\r') then (incr pos; skip ()) in
  let token_end () =
    let j = ref !pos in
    while !j < n && line.[!j] <> ' ' && line.[!j] <> '(' && line.[!j] <> ')' do incr j done; !j in
  let rec item () : sx =
    skip ();
    if !pos >= n then failwith "unexpected end";
    match line.[!pos] with
    | '(' -> incr pos; SL (items [])
    | '#' -> let j = token_end () in
             let s = String.sub line (!pos + 1) (j - !pos - 1) in pos := j; SB (bytes_of_hex s)
    | _ -> let j = token_end () in
           let s = String.sub line !pos (j - !pos) in pos := j;
           let neg = String.length s > 0 && s.[0] = '-' in
           let digits = if neg then String.sub s 1 (String.length s - 1) else s in
           (match pos_of_hex digits with
            | None -> SZ Z0
            | Some p -> SZ (if neg then Zneg p else Zpos p))
  and items acc : sx list =
    skip ();
    if !pos >= n then failwith "missing )";
    if line.[!pos] = ')' then (incr pos; List.rev acc) else let it = item () in items (it :: acc)
  in
  item ()

let rec int_of_pos = function XH -> 1 | XO p -> 2 * int_of_pos p | XI p -> 2 * int_of_pos p + 1
let int_of_n = function N0 -> 0 | Npos p -> int_of_pos p

let rec hex_of_pos p = (* arbitrary size *)
  let rec bits p acc = match p with XH -> true :: acc | XO q -> bits q (false :: acc) | XI q -> bits q (true :: acc) in
  let bs = bits p [] in
  let len = List.length bs in
  let pad = (4 - len mod 4) mod 4 in
  let bs = List.init pad (fun _ -> false) @ bs in
  let buf = Buffer.create 16 in
  let rec go = function
    | a :: b :: c :: d :: rest ->
      let v = (if a then 8 else 0) + (if b then 4 else 0) + (if c then 2 else 0) + (if d then 1 else 0) in
      Buffer.add_char buf "0123456789abcdef".[v]; go rest
    | _ -> () in
  go bs; Buffer.contents buf

let rec print_sx buf = function
  | SZ Z0 -> Buffer.add_string buf "0"
  | SZ (Zpos p) -> Buffer.add_string buf (hex_of_pos p)
  | SZ (Zneg p) -> Buffer.add_char buf '-'; Buffer.add_string buf (hex_of_pos p)
  | SB l -> Buffer.add_char buf '#'; List.iter (fun b -> Buffer.add_string buf (Printf.sprintf "%02x" (int_of_n b))) l
  | SL l -> Buffer.add_char buf '(';
            List.iteri (fun i x -> if i > 0 then Buffer.add_char buf ' '; print_sx buf x) l;
            Buffer.add_char buf ')'

let () =
  let engine = Sys.argv.(1) in
  let f = match List.assoc_opt engine Engines.table with
    | Some f -> f
    | None -> prerr_endline ("runner: unknown engine " ^ engine); exit 2 in
  let i = ref 0 in
  (try
    while true do
      let line = input_line stdin in
      if String.length line > 0 then begin
        let buf = Buffer.create 64 in
        (try print_sx buf (f (parse line))
         with Failure m -> Buffer.add_string buf ("!parse-error " ^ m)
            | Stack_overflow -> Buffer.add_string buf "!stack-overflow");
        Printf.printf "%d %s\n" !i (Buffer.contents buf);
        incr i
      end
    done
  with End_of_file -> ())
