(* engine name -> extracted checker *)
let table : (string * (Model.sx -> Model.sx)) list = [
  "parts", Model.check_parts;
  "voteset", Model.check_voteset;
  "valset", Model.check_valset;
  "signer", Model.check_signer;
  "admin", Model.check_admin;
  "sconn", Model.check_sconn;
  "mconn", Model.check_mconn;
  "admit", Model.check_admit;
  "pool", Model.check_pool;
  "mempool", Model.check_mempool;
  "wire", Model.check_wire;
  "signbytes", Model.check_signbytes;
  "rlp", Model.check_rlp;
  "consensus", Model.check_consensus;
  "trie", Model.check_trie;
  "evmarith", Model.check_evmarith;
  "evmapp", Model.check_evmapp;
  "crash", Model.check_crash;
  "blocksync", Model.check_blocksync;
  "statedb", Model.check_statedb;
  "system", Model.check_system;
  "validate", Model.check_validate;
  "evmcore", Model.check_evmcore;
  "evmworld", Model.check_evmworld;
  "admithist", Model.check_admithist;
]
