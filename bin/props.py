# Per-property configuration of bin/check.
PROPS = {
    "C17": {
        "props_file": "Props/C17.v",
        "engines": [{"name": "parts", "n_quick": 600, "n_thorough": 20000}],
        "assumptions": [
            "hash function idealised as injective (Section hypothesis of the theorems); the run checks that no two recorded preimages collide",
            "byte strings shorter than 2^63 (Go slices); part-set totals below 2^62",
        ],
        "level_text": "Coq theorems over an executable model of part_set.go and simple_tree.go, for all data, part sizes, arrival sequences (junk interleaved) and proofs: exact reassembly, accept-iff-genuine, rejected-unchanged, proof completeness, fixed-total soundness; cross-total soundness refuted with a witness (known finding F-17d). Model tied to /repo by a differential run of the extracted model against the real packages on generated and mutated cases, plus model-independent monitors.",
        "level_note": "hash idealised as injective (Section hypothesis); model hand-written, validated by the correspondence run; extraction (ExtrOcamlBasic), OCaml runner and Go harness trusted",
        "notes": ["cross-total / leaf-vs-inner soundness of the simple Merkle tree is refuted (c17_proof_sound_cross_total_refuted) and listed as known finding F-17d"],
    },
    "C15": {
        "props_file": "Props/C15.v",
        "engines": [{"name": "voteset", "n_quick": 400, "n_thorough": 12000}],
        "assumptions": [
            "signature verification idealised: each vote carries the bit 'the signature verifies under the key the code checks it against', computed by the harness with the real ed25519 keys",
            "validator sets below the int64 boundary (non-negative powers, total < 2^62); beyond it the Go arithmetic wraps (Example c15_overflow_boundary)",
        ],
        "level_text": "Coq theorems over an executable model of VoteSet.addVote/addVerifiedVote/SetPeerMaj23/MakeCommit and ValidatorSet.VerifyCommit, for every validator set below the int64 boundary and every operation sequence: majority soundness (distinct validators, > 2/3, exactly that block id), completeness (primary votes / tally), stability, counted-once, totality, rejected votes are no-ops, conflicts reported, MakeCommit verifies, VerifyCommit sound, key injectivity. Tied to /repo by differential runs of the extracted model against types.VoteSet with real ed25519 signatures, plus model-independent monitors.",
        "level_note": "signature validity enters the model as a bit computed by the harness with the real keys; model hand-written, validated by correspondence; extraction, OCaml runner, Go harness trusted",
        "notes": ["completeness is stated for primary (first valid) votes; an equivocating validator's second vote is by design tallied only for blocks a peer claimed (DESIGN C15)"],
    },
    "C16": {
        "props_file": "Props/C16.v",
        "engines": [{"name": "valset", "n_quick": 500, "n_thorough": 15000}],
        "level_text": "Coq theorems over an executable model of ValidatorSet (IncrementAccum after the F-16a repair, TotalVotingPower/Proposer caches, Add/Update/Remove, NewValidatorSet, persistence round trip, Hash): the list stays strictly sorted (duplicate-free) under every operation; batched increments equal single increments; exact proportional selection in EVERY window of total-power consecutive selections from a fresh set (proved via an integer-list development, Proofs/Fairness.v); proposer-after-persistence and proportionality-after-a-change are refuted by witnesses (known findings F-16b, F-16c). Tied to /repo by differential runs over handles (copies, persisted twins) with all observables after every step, plus monitors (sortedness, cache consistency, copy independence, replica agreement after reload, windowed fairness).",
        "level_note": "fairness theorem assumes non-negative powers and total^2 < 2^60 (no int64 wrap); hash of a validator modelled at byte level and checked through the recorded hash oracle; model hand-written and validated by correspondence",
        "assumptions": [
            "validator addresses distinct in NewValidatorSet (sort.Sort is unstable on equal keys)",
            "non-negative powers, total voting power T with T*T < 2^60 for the proportionality theorem",
        ],
        "notes": ["Proposer().Accum of a copy aliases the original's validator object (only the address is compared); observed as address only"],
    },
    "C03": {
        "props_file": "Props/C03.v",
        "engines": [{"name": "signer", "n_quick": 300, "n_thorough": 6000}],
        "level_text": "Coq theorems over an executable model of PrivValidator.signBytesHRS/save with crash points of WriteFileAtomic, failing writes and reloads, for every request history: no two different sign-bytes released for one height/round/step, released signatures monotone in (height, round, step), a signature is released only once its record is durable, memory and file agree after every operation. Tied to /repo by differential runs on a real signer file with verif failpoints (process death simulated by panicking out of WriteFileAtomic and reloading), non-writable .new/.bak, and monitors on the released set and on the file.",
        "level_note": "signature function a parameter (deterministic ed25519); process death is the crash model - power loss with un-synced page cache (no fsync in WriteFileAtomic) is runtime behaviour the model does not exhibit; the consensus-level half (replay mode, who asks for signatures) is covered under C01/C07",
        "assumptions": ["rename(2) atomic; a crash means the process dies (no torn writes of the signer file)"],
        "notes": [],
    },
    "C14": {
        "props_file": "Props/C14.v",
        "engines": [{"name": "admin", "n_quick": 400, "n_thorough": 10000}],
        "level_text": "Coq theorems over an executable model of AdminOp.CheckMajor23/ExecTX/ProcessAdminOP/EndBlock/updateValidators on the ValidatorSet model: acceptance implies >2/3 of DISTINCT current validators with valid signatures, right sender and nonce, known command; rejected requests change nothing; an applied request is settled and a settled (replayed) request is a no-op; applying the pending list is total (double removal included) and keeps the set sorted and duplicate-free. Tied to /repo by differential runs through the real plugin on two replicas (one reloaded from the persisted set) with real ed25519 signatures, duplicates, foreign keys, wrong sender/nonce, verbatim replays, plus monitors; the 0xfe precompile is probed for sender authentication (known finding F-14b).",
        "level_note": "signature validity enters as bits computed by the harness; a public key is identified with its validator address; wf_vals (sorted, non-negative powers, total < 2^62, cache empty-or-right) is a hypothesis of the 2/3 theorem",
        "assumptions": ["non-negative voting powers with total < 2^62", "the EVM path into ExecTX (precompile 0xfe, contract, node glue) is covered only by the sender-authentication probe"],
        "notes": [],
    },
    "C20": {
        "props_file": "Props/C20.v",
        "engines": [{"name": "sconn", "n_quick": 120, "n_thorough": 3000},
                    {"name": "mconn", "n_quick": 400, "n_thorough": 20000},
                    {"name": "admit", "n_quick": 160, "n_thorough": 640}],
        "level_text": "Coq theorems: (i) the framed encrypted stream delivers exactly the written bytes for any write and read sizes, and any replayed, reordered, dropped, modified or truncated frame ends the connection with only a prefix delivered (ideal authenticated encryption: the wire can carry only frames the sender sealed, or garbage); (ii) for every interleaving that keeps per-channel order, each channel delivers exactly its messages when they fit the capacity, and an over-capacity message is never delivered; (iii) the admission decision implies not-refused, announced key = authenticated key, and a current authority's signature when CA admission applies - also exhaustively over the 640-configuration matrix. Tied to /repo by real SecretConnection pairs with a scripted man in the middle and nonce inspection, the real Channel packetiser/reassembler at packet level, and real Switch-to-Switch admissions over the configuration matrix.",
        "level_note": "secretbox/curve25519/ed25519 idealised (a sealed frame opens only under its own nonce; frames cannot be forged); flow control, ping/pong, timers and goroutine scheduling of MConnection are runtime behaviour outside the model; truncation at a frame boundary is a connection close (clean EOF), which any network adversary can cause",
        "assumptions": ["ideal authenticated encryption and key exchange", "handshake itself (ephemeral keys, challenge signature) exercised by the real code in every sconn/admit case but not modelled"],
        "notes": ["the handshake reads a peer-supplied 32-bit length and allocates it before authentication (noted under C08)"],
    },
}
