# Per-property configuration of bin/check.
PROPS = {
    "C17": {
        "props_file": "Props/C17.v",
        "engines": [{"name": "parts", "n_quick": 600, "n_thorough": 20000}],
        "assumptions": [
            "hash function idealised as injective (Section hypothesis of the theorems); the run checks that no two recorded preimages collide",
            "byte strings shorter than 2^63 (Go slices); part-set totals below 2^62",
        ],
        "notes": ["cross-total / leaf-vs-inner soundness of the simple Merkle tree is refuted (c17_proof_sound_cross_total_refuted) and listed as known finding F-17d"],
    },
}
